#!/bin/sh
# dev helper: build and show only diagnostics of the harness itself
cd /verif/harness && cargo build --release --message-format short 2>&1 | grep -E '^(src/|error|\s+Finished|.*could not compile)' | tail -${1:-60}
