#!/bin/sh
# dev helper: build and show only diagnostics of the harness itself
cd /verif/harness && cargo build --release --message-format short 2>&1 | grep -v '^/repo/' | grep -v "warning: .rdest. (lib) generated" | tail -${1:-60}
