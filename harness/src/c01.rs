//! C01 — only hash-verified data is ever stored, advertised or assembled.
//! E-SYS (pumped world): real manager, 1..2 real connection tasks fed by adversarial peers (correct,
//! corrupt, mis-indexed, shifted, wrong-length, duplicated, unrequested blocks; choke/unchoke; have;
//! close; reset) and one observer connection that requests data; BFS with a bound on the number of
//! non-honest events per history; invariants evaluated on real piece files and written frames.

use crate::c12::{reservation_backing, strip_counters};
use crate::core::{self, Ctx, Outcome};
use crate::explore::{self, Scenario};
use crate::fixture::Torrent;
use crate::refwire::{self, Msg};
use crate::world::{peer_cfg, Ev, World, WorldCfg};
use rdest::verif::Status;
use serde_json::{json, Value};

pub struct Adv {
    pub adversaries: usize,
    pub deviations: usize,
    pub gated: bool,
    /// Leftover (zero-filled, right length) piece files of an interrupted earlier run.
    pub stale: Vec<usize>,
    /// Every store attempted by the second connection fails: a directory sits where that connection
    /// writes a piece aside (`<piece file>.<its address>.part`) before moving it into place.
    pub blocked: bool,
}

#[derive(Default, Clone)]
pub struct PeerMon {
    pub outstanding: Vec<(u32, u32, u32)>,
    pub last_accepted: Option<(u32, u32, u32)>,
    pub scanned: usize,
    pub closed: bool,
}

#[derive(Default)]
pub struct Mon {
    pub p: Vec<PeerMon>,
    pub deviations: usize,
    pub obs_joined: bool,
}

const BIG: usize = 16387;

fn torrent() -> Torrent {
    Torrent::new("t", BIG, &[("f", BIG + 5)], true)
}

fn slice(t: &Torrent, r: &(u32, u32, u32)) -> Vec<u8> {
    t.pieces[r.0 as usize][r.1 as usize..(r.1 + r.2) as usize].to_vec()
}

impl Adv {
    fn obs(&self) -> usize {
        self.adversaries
    }
}

impl Scenario for Adv {
    type Mon = Mon;
    fn name(&self) -> String {
        format!("adversary-{}-dev{}-{}{}", self.adversaries, self.deviations, if self.gated { "gated" } else { "direct" }, if self.stale.is_empty() { String::new() } else { format!("-stale{:?}", self.stale) }) + if self.blocked { "-store-of-conn1-fails" } else { "" }
    }
    fn cfg(&self) -> WorldCfg {
        let mut peers: Vec<_> = (0..self.adversaries).map(|k| peer_cfg(k, true)).collect();
        peers.push(peer_cfg(self.adversaries, false));
        WorldCfg { torrent: torrent(), have: vec![], peers, gated: self.gated, stale: self.stale.clone() }
    }
    fn explore_choices(&self) -> bool {
        true
    }
    fn setup(&self, w: &mut World, mon: &mut Mon) {
        let t = w.t.clone();
        mon.p = vec![PeerMon::default(); self.adversaries + 1];
        if self.blocked {
            let addr: String = w.peers[1].cfg.addr.chars().map(|c| if c.is_ascii_alphanumeric() { c } else { '_' }).collect();
            for i in 0..t.pieces.len() {
                std::fs::create_dir_all(w.dir.join(format!("{}.{}.part", t.piece_file(i), addr))).expect("cannot block the part path");
            }
        }
        // the observer (incoming) joins at any point of the history: event "So"
        for k in 0..self.adversaries {
            let id = w.peers[k].cfg.id;
            w.feed(k, &[refwire::handshake(t.meta.info_hash(), &id), Msg::Bitfield(vec![0xc0])]);
        }
    }
    fn enabled(&self, w: &World, mon: &Mon, _depth: usize) -> Vec<String> {
        let mut out = vec![];
        let dev = mon.deviations < self.deviations;
        for k in 0..self.adversaries {
            if w.peers[k].ended.get() || mon.p[k].closed {
                continue;
            }
            let pm = &mon.p[k];
            out.push(format!("N{}", k)); // unchoke (honest)
            if !pm.outstanding.is_empty() {
                out.push(format!("Go{}", k));
                if pm.outstanding.len() > 1 {
                    out.push(format!("Gn{}", k));
                }
                if dev {
                    out.push(format!("Xo{}", k));
                    if pm.outstanding.len() > 1 {
                        out.push(format!("Xn{}", k));
                    }
                    out.push(format!("Wi{}", k));
                    out.push(format!("Wb{}", k));
                    out.push(format!("Wl{}", k));
                    out.push(format!("WL{}", k));
                }
            }
            if dev {
                if pm.last_accepted.is_some() {
                    out.push(format!("D{}", k));
                }
                out.push(format!("U{}", k));
                out.push(format!("C{}", k));
                out.push(format!("Z{}", k));
                out.push(format!("R{}", k));
            }
            if !w.peers[k].pending.is_empty() {
                out.push(format!("L{}", k));
            }
        }
        let o = self.obs();
        if !w.peers[o].ended.get() && !mon.obs_joined {
            out.push("So".to_string());
        }
        if !w.peers[o].ended.get() && mon.obs_joined {
            out.push("Q0".to_string());
            out.push("Q1".to_string());
            if !w.peers[o].pending.is_empty() {
                out.push(format!("L{}", o));
            }
        }
        out
    }
    fn concretize(&self, w: &World, mon: &Mon, sym: &str) -> Vec<Ev> {
        let t = &w.t;
        if sym == "So" {
            // handshake, empty bitfield (the client unchokes it), interested — in one read
            let o = self.obs();
            let id = w.peers[o].cfg.id;
            let bytes: Vec<u8> = [refwire::handshake(t.meta.info_hash(), &id), Msg::Bitfield(vec![0x00]), Msg::Interested].iter().flat_map(refwire::encode).collect();
            return vec![Ev::Feed(o, bytes)];
        }
        if let Some(i) = sym.strip_prefix('Q') {
            let i: u32 = i.parse().unwrap();
            let len = t.pieces[i as usize].len().min(16384) as u32;
            return vec![Ev::Feed(self.obs(), refwire::encode(&Msg::Request(i, 0, len)))];
        }
        let k: usize = sym[sym.len() - 1..].parse().unwrap();
        let head = &sym[..sym.len() - 1];
        let pm = &mon.p[k];
        let oldest = pm.outstanding.first().cloned();
        let newest = pm.outstanding.last().cloned();
        let corrupt = |mut d: Vec<u8>| {
            let n = d.len();
            d[n / 2] ^= 0x01;
            d
        };
        let msg = match head {
            "N" => Msg::Unchoke,
            "C" => Msg::Choke,
            "Go" => {
                let r = oldest.unwrap();
                Msg::Piece(r.0, r.1, slice(t, &r))
            }
            "Gn" => {
                let r = newest.unwrap();
                Msg::Piece(r.0, r.1, slice(t, &r))
            }
            "Xo" => {
                let r = oldest.unwrap();
                Msg::Piece(r.0, r.1, corrupt(slice(t, &r)))
            }
            "Xn" => {
                let r = newest.unwrap();
                Msg::Piece(r.0, r.1, corrupt(slice(t, &r)))
            }
            "Wi" => {
                let r = oldest.unwrap();
                Msg::Piece(1 - r.0, r.1, slice(t, &r))
            }
            "Wb" => {
                let r = oldest.unwrap();
                Msg::Piece(r.0, r.1 + 1, slice(t, &r))
            }
            "Wl" => {
                let r = oldest.unwrap();
                let mut d = slice(t, &r);
                d.pop();
                Msg::Piece(r.0, r.1, d)
            }
            "WL" => {
                let r = oldest.unwrap();
                let mut d = slice(t, &r);
                d.push(0x77);
                Msg::Piece(r.0, r.1, d)
            }
            "D" => {
                let r = pm.last_accepted.unwrap();
                Msg::Piece(r.0, r.1, slice(t, &r))
            }
            "U" => Msg::Piece(0, 8192, vec![0x55; 100]),
            "Z" => return vec![Ev::Close(k)],
            "R" => return vec![Ev::Reset(k)],
            "L" => return vec![Ev::Release(k)],
            _ => panic!("bad symbol {}", sym),
        };
        vec![Ev::Feed(k, refwire::encode(&msg))]
    }
    fn check(&self, w: &World, mon: &mut Mon, last: Option<&str>) -> Option<(&'static str, String)> {
        if let Some(d) = &w.dead {
            return Some(("manager-died", d.clone()));
        }
        if let Some(p) = w.handler_panics.first() {
            return Some(("connection-task-panicked", p.clone()));
        }
        let t = &w.t;
        if last == Some("So") {
            mon.obs_joined = true;
        }
        if let Some(sym) = last {
            if !sym.starts_with('Q') && sym != "So" {
                let k: usize = sym[sym.len() - 1..].parse().unwrap();
                let head = &sym[..sym.len() - 1];
                if k < self.adversaries {
                    let honest = matches!(head, "N" | "Go" | "Gn" | "L");
                    if !honest {
                        mon.deviations += 1;
                    }
                    match head {
                        "Go" | "Xo" => {
                            let r = mon.p[k].outstanding.remove(0);
                            mon.p[k].last_accepted = Some(r);
                        }
                        "Gn" | "Xn" => {
                            let r = mon.p[k].outstanding.pop().unwrap();
                            mon.p[k].last_accepted = Some(r);
                        }
                        "C" => mon.p[k].outstanding.clear(), // a choking peer drops the requests it holds
                        "Z" | "R" => mon.p[k].closed = true,
                        _ => {}
                    }
                }
            }
        }
        let files = w.files();
        let snap = w.snap();
        // (a) every stored piece file is verified content under its own hash name
        if let Some(bad) = files.iter().find(|f| f.starts_with("BADPIECE")) {
            return Some(("unverified-data-stored", format!("piece file {} does not hash to its name / to any piece of the torrent", bad)));
        }
        let stored = |i: usize| files.contains(&format!("piece:{}", i));
        // (b) owned => stored
        for i in 0..t.pieces.len() {
            if snap.statuses[i] == Status::Have && !stored(i) {
                return Some(("piece-counted-as-done-without-stored-data", format!("piece {} is Have but no verified piece file exists (files {:?})", i, files)));
            }
        }
        // frames written in this step
        for k in 0..w.peers.len() {
            let from = if k < mon.p.len() { mon.p[k].scanned } else { 0 };
            let msgs = &w.peers[k].msgs;
            for m in &msgs[from..] {
                match m {
                    Msg::Have(i) => {
                        if !stored(*i as usize) {
                            return Some(("advertised-piece-not-stored", format!("Have({}) written to peer {} but piece {} is not stored", i, k, i)));
                        }
                    }
                    Msg::Bitfield(b) => {
                        if let Some(bits) = refwire::bitfield_bits(b, t.pieces.len()) {
                            for (i, bit) in bits.iter().enumerate() {
                                if *bit && !stored(i) {
                                    return Some(("advertised-piece-not-stored", format!("bitfield to peer {} marks piece {} which is not stored", k, i)));
                                }
                            }
                        }
                    }
                    Msg::Piece(i, b, d) => {
                        let ok = (*i as usize) < t.pieces.len() && stored(*i as usize) && (*b as usize + d.len()) <= t.pieces[*i as usize].len() && d[..] == t.pieces[*i as usize][*b as usize..*b as usize + d.len()];
                        if !ok {
                            return Some(("served-data-not-from-verified-piece", format!("Piece({},{},{}B) written to peer {}", i, b, d.len(), k)));
                        }
                    }
                    Msg::Request(i, b, l) if k < self.adversaries => mon.p[k].outstanding.push((*i, *b, *l)),
                    Msg::Cancel(i, b, l) if k < self.adversaries => mon.p[k].outstanding.retain(|r| r != &(*i, *b, *l)),
                    _ => {}
                }
            }
            if k < mon.p.len() {
                mon.p[k].scanned = msgs.len();
            }
        }
        // output files only from complete, verified data
        if snap.files_extracted || files.iter().any(|f| f == "t") {
            if !(0..t.pieces.len()).all(stored) {
                return Some(("extraction-started-before-all-pieces-stored", format!("files {:?}", files)));
            }
            if w.cmds.iter().any(|c| c == "Done") {
                match std::fs::read(w.dir.join("t")) {
                    Ok(d) if d == t.content => {}
                    other => return Some(("output-file-differs", format!("{:?}", other.map(|d| d.len())))),
                }
            }
        }
        // a live connection task never sits on a completely assembled piece
        for k in 0..self.adversaries {
            if let Some(h) = w.handler(k) {
                if let Some(rx) = &h.piece_rx {
                    if rx.left.is_empty() && rx.requested.is_empty() {
                        return Some(("assembled-piece-neither-stored-nor-discarded", format!("peer {}: piece {} fully received but still held", k, rx.piece_index)));
                    }
                }
            }
        }
        // (c) a failed piece becomes downloadable again: no reservation without a live fetcher
        reservation_backing(w)
    }
    fn tags(&self, w: &World, _mon: &Mon) -> Vec<&'static str> {
        let mut t = vec![];
        if w.cmds.iter().any(|c| c.contains("Piece hash mismatch")) {
            t.push("hash mismatch detected, connection closed");
        }
        if w.cmds.iter().any(|c| c.starts_with("PieceDone")) {
            t.push("piece verified and stored");
        }
        if w.cmds.iter().any(|c| c == "Done") {
            t.push("download complete, files extracted");
        }
        if w.peers[self.obs()].msgs[w.peers[self.obs()].new_from..].iter().any(|m| matches!(m, Msg::Piece(..))) {
            t.push("data served to the observer");
        }
        if (0..self.adversaries).any(|k| w.handler(k).map(|h| h.unexpected_blocks > 0).unwrap_or(false)) {
            t.push("unrequested/mismatching block ignored");
        }
        t
    }
    fn key(&self, w: &World, mon: &Mon) -> String {
        let pm: Vec<String> = mon.p.iter().map(|p| format!("{:?}/{:?}/{}", p.outstanding, p.last_accepted, p.closed)).collect();
        format!("{} mon={:?} dev={} obs={}", strip_counters(&w.default_key()), pm, mon.deviations, mon.obs_joined)
    }
}

pub fn scenarios(thorough: bool) -> Vec<(Adv, usize)> {
    if thorough {
        vec![
            (Adv { adversaries: 1, deviations: 5, gated: false, stale: vec![], blocked: false }, 14),
            (Adv { adversaries: 2, deviations: 3, gated: false, stale: vec![], blocked: false }, 10),
            (Adv { adversaries: 1, deviations: 2, gated: true, stale: vec![], blocked: false }, 10),
            (Adv { adversaries: 2, deviations: 1, gated: true, stale: vec![], blocked: false }, 9),
            (Adv { adversaries: 1, deviations: 2, gated: false, stale: vec![0, 1], blocked: false }, 10),
            (Adv { adversaries: 2, deviations: 1, gated: false, stale: vec![1], blocked: false }, 8),
            (Adv { adversaries: 2, deviations: 1, gated: true, stale: vec![], blocked: true }, 9),
        ]
    } else {
        vec![
            (Adv { adversaries: 1, deviations: 3, gated: false, stale: vec![], blocked: false }, 10),
            (Adv { adversaries: 2, deviations: 2, gated: false, stale: vec![], blocked: false }, 7),
            // held-back broadcasts: a second connection can finish (or spoil) a piece that the first
            // one has already stored, before its task learns about that
            (Adv { adversaries: 2, deviations: 1, gated: true, stale: vec![], blocked: false }, 7),
            // leftovers of an interrupted earlier run lie in the download directory
            (Adv { adversaries: 1, deviations: 1, gated: false, stale: vec![0, 1], blocked: false }, 8),
            // a storage fault that hits one connection only, while the other one stores the same piece
            (Adv { adversaries: 2, deviations: 0, gated: true, stale: vec![], blocked: true }, 8),
        ]
    }
}

pub fn run(ctx: &Ctx) -> Outcome {
    let thorough = ctx.tier == core::Tier::Thorough;
    let mut total = explore::Stats { exhaustive: true, ..Default::default() };
    let mut per = vec![];
    for (s, depth) in scenarios(thorough) {
        let st = explore::bfs(ctx, &s, depth, ctx.tier.pick(50, 25));
        per.push(json!({"scenario": s.name(), "depth": depth, "states": st.states, "transitions": st.transitions, "depth_completed": st.depth_completed, "choice_points": st.choice_points, "frontier": st.frontier_sizes}));
        total.merge(&st);
    }
    // "over any number of connections": tracker-driven reconnects (a host re-listed under a new peer
    // id, peers leaving while a completion is in flight) exist only in the full-session world
    for (s, depth) in crate::c02::storage_scenarios() {
        let st = explore::bfs(ctx, &s, depth, ctx.tier.pick(50, 25));
        per.push(json!({"scenario": explore::Sys::name(&s), "depth": depth, "states": st.states, "transitions": st.transitions, "depth_completed": st.depth_completed}));
        total.merge(&st);
    }
    // pieces larger than any internal I/O chunk (tokio writes files in 2 MiB chunks): one honest
    // download of two such pieces with the storage invariants evaluated after every event
    {
        let dir = core::private_cwd("c01", "bigpiece");
        match crate::c02::big_piece_run(&dir) {
            None => per.push(json!({"scenario": "e2e-pieces-over-2MiB-1seeder", "completed": true})),
            Some((class, why)) => ctx.violation(class, format!("[e2e-pieces-over-2MiB-1seeder] {}", &why[..why.len().min(500)]), json!({"scenario": "e2e-pieces-over-2MiB-1seeder", "history": []})),
        }
    }
    // the Have path with a choice (borrowed from C12): record, reservation, request and completion
    // must speak of the piece the manager chose, what is owned or announced must be stored
    {
        let (s, depth) = crate::c12::have_path_scenario(thorough);
        let st = explore::bfs(ctx, &s, depth, ctx.tier.pick(50, 25));
        per.push(json!({"scenario": Scenario::name(&s), "depth": depth, "states": st.states, "transitions": st.transitions, "depth_completed": st.depth_completed}));
        total.merge(&st);
    }
    // a storage fault: in a subprocess that may not write files longer than 20 000 bytes, storing a
    // 40 000-byte piece fails part-way; whatever is left behind must not count as stored
    {
        let exe = std::env::current_exe().expect("current_exe");
        match std::process::Command::new(&exe).args(["--probe", "fsfault"]).stdout(std::process::Stdio::null()).output() {
            Ok(o) if o.status.code() == Some(0) => per.push(json!({"scenario": "fsfault-40000+100-1seeder (write limit 20000 bytes)", "held": true})),
            Ok(o) if o.status.code() == Some(3) => {
                let line = String::from_utf8_lossy(&o.stderr).lines().last().unwrap_or("").to_string();
                let (class, why) = line.split_once(' ').unwrap_or(("storage-fault", ""));
                let class: &'static str = match class {
                    "piece-counted-as-done-without-stored-data" => "piece-counted-as-done-without-stored-data",
                    "stored-piece-file-does-not-hash-to-its-name" => "stored-piece-file-does-not-hash-to-its-name",
                    "owned-piece-forgotten" => "owned-piece-forgotten",
                    _ => "storage-fault-mishandled",
                };
                ctx.violation(class, format!("[write limit 20000 bytes] {}", &why[..why.len().min(400)]), json!({"scenario": "fsfault", "history": []}));
            }
            other => ctx.machinery_error(format!("fsfault subprocess failed: {:?}", other.map(|o| (o.status, String::from_utf8_lossy(&o.stderr).chars().take(300).collect::<String>())))),
        }
    }
    // a peer that dials in from the address of a connected peer (real accept path over loopback)
    {
        let dir = core::private_cwd("c01", "knownaddr");
        match crate::c11::known_address_dial_in_case(&dir) {
            Ok((n, None)) => per.push(json!({"scenario": "dial-in from the address of a connected peer", "frames_judged": n, "held": true})),
            Ok((_, Some((class, why)))) => ctx.violation(class, why, json!({"scenario": "knownaddr", "history": []})),
            Err(e) => ctx.machinery_error(format!("known-address dial-in run could not be carried out: {}", e)),
        }
    }
    let mut o = Outcome::new("model_checking");
    explore::stats_outcome(&total, &mut o);
    o.set("scenarios", Value::Array(per));
    o.set("rule", json!("torrent: piece 0 = 16387 B (blocks 16384 + 3), piece 1 = 5 B; adversarial peer k (after handshake + full bitfield): N unchoke, Go/Gn correct answer to the oldest/newest outstanding request, Xo/Xn same coordinates with one payload bit flipped, Wi other piece index, Wb begin+1, Wl/WL one byte short/long, D duplicate of the last accepted block, U block at an offset never requested, C choke, Z close, R reset, L release of a held-back broadcast; observer (incoming): So joins at any point (handshake + empty bitfield + interested in one read; the bitfield it is sent is checked), then Q0/Q1 requests the first block of piece 0/1; -stale scenarios start with zero-filled files of the right length under the names of the listed pieces (they are not data the client stored; a piece counts as stored only when its file holds verified content); the -store-of-conn1-fails scenario lets every store of the second connection fail (a directory sits at the path it writes a piece aside to) while the first connection may store the same piece; histories with at most `dev` non-honest events (N, G*, L are honest); every tie-break of the chooser enumerated. Plus two full-session scenarios borrowed from C02 (storage-*): a host re-listed by the tracker under a new peer id while its old connection is live, and two seeders with held-back broadcasts; there only 'Have implies a stored verified piece' and 'owned stays owned' are evaluated. Plus one honest download of two pieces of 2 MiB + 16 KiB + 5 bytes (larger than tokio's 2 MiB file-write chunk) with the same invariants after every event. Plus a storage fault: in a subprocess whose file size limit is 20 000 bytes (RLIMIT_FSIZE) an honest seeder delivers a 40 000-byte piece, so the write fails part-way; over 60 fair events nothing may be counted as stored that is not, and every *.piece file must hash to its name. Plus one real-socket run: the client holds an outgoing connection to X and is fetching a piece over it; a second peer dials in from X's ip:port (handshake under another id, bitfield without that piece, unchoke); X then delivers: every piece counted as owned must be stored and verified, every Have must name such a piece."));
    o.assume("payload bytes enter the state key only as per-block tags {empty, correct, corrupt}: no code path inspects payload other than through SHA-1 of the whole piece");
    o
}

pub fn replay(_ctx: &Ctx, r: &Value) -> i32 {
    let name = r["scenario"].as_str().unwrap();
    if name.starts_with("resv-") {
        for thorough in [false, true] {
            let (s, _) = crate::c12::have_path_scenario(thorough);
            if Scenario::name(&s) == name {
                return explore::replay_verbose(&s, &explore::hist_from_json(&r["history"]), "C01");
            }
        }
    }
    if name == "knownaddr" {
        let dir = core::private_cwd("c01", "replay");
        return match crate::c11::known_address_dial_in_case(&dir) {
            Ok((_, None)) => 0,
            Ok((_, Some((class, why)))) => {
                println!("VIOLATION property=C01 replay=<this file>\n  class={} {}", class, why);
                1
            }
            Err(e) => {
                eprintln!("could not be carried out: {}", e);
                2
            }
        };
    }
    if name == "fsfault" {
        let exe = std::env::current_exe().expect("current_exe");
        let out = std::process::Command::new(&exe).args(["--probe", "fsfault"]).stdout(std::process::Stdio::null()).output().expect("subprocess");
        println!("fsfault subprocess: exit {:?}: {}", out.status.code(), String::from_utf8_lossy(&out.stderr));
        return if out.status.code() == Some(0) { 0 } else { 1 };
    }
    if name == "e2e-pieces-over-2MiB-1seeder" {
        let dir = core::private_cwd("c01", "replay");
        return match crate::c02::big_piece_run(&dir) {
            None => 0,
            Some((class, why)) => {
                println!("VIOLATION property=C01 replay=<this file>\n  class={} {}", class, why);
                1
            }
        };
    }
    for (s, _) in crate::c02::storage_scenarios() {
        if explore::Sys::name(&s) == name {
            return explore::replay_verbose(&s, &explore::hist_from_json(&r["history"]), "C01");
        }
    }
    for thorough in [false, true] {
        for (s, _) in scenarios(thorough) {
            if s.name() == name {
                return explore::replay_verbose(&s, &explore::hist_from_json(&r["history"]), "C01");
            }
        }
    }
    eprintln!("unknown scenario {}", name);
    2
}
