//! C02 — an honest swarm always leads to a complete, identical download.
//! E-SYS, full-session world: the real `Session` event loop, tracker task, connection tasks and
//! extractor; honest reference peers in the harness. BFS over all peer-event orders of a family of
//! geometries and piece distributions; every state that is not expanded further (nothing enabled, or
//! depth bound reached) must complete the download under the fair default continuation.

use crate::core::{self, Ctx, Outcome};
use crate::explore::{self, Sys};
use crate::fixture::Torrent;
use crate::fullworld::{FEv, FullWorld, TrackerOutcome};
use crate::refwire::{self, Msg};
use crate::world::peer_cfg;
use rdest::verif::Status;
use serde_json::{json, Value};
use std::path::PathBuf;

#[derive(Clone, Copy, PartialEq, Debug)]
pub enum Focus {
    All,
    /// 'Have implies a stored verified piece', 'owned stays owned' (C01)
    Storage,
    /// reservations are held by connected peers, at most one holder per piece, no task panics (C12)
    Reservation,
    /// a peer presenting the announced id stays connected, one presenting another id is dropped (C08)
    Identity,
    /// every Have frame and every bit of a Bitfield frame the client writes names a piece that is
    /// stored and verified (C11)
    Announce,
}

#[derive(Clone)]
pub struct Swarm {
    pub label: &'static str,
    pub piece_len: usize,
    pub files: Vec<(&'static str, usize)>,
    pub single: bool,
    /// Per peer: which pieces it owns.
    pub owners: Vec<Vec<bool>>,
    /// Peers that may disconnect at any point (every piece they own has another honest owner).
    pub may_close: Vec<bool>,
    /// Peers that start empty-handed and announce their pieces one by one with Have.
    pub by_have: Vec<bool>,
    pub with_choke: bool,
    pub with_interest: bool,
    pub with_segmentation: bool,
    pub ticks: usize,
    /// Enumerate every tie-break of the piece chooser.
    pub tie_breaks: bool,
    /// Simultaneous arrivals: an answer from one peer and the disconnect of another reach the client
    /// before it runs (both feeding orders).
    pub races: bool,
    /// (k, j): scripted peer k is the same host as peer j restarted with a new peer id (same address).
    pub same_addr: Vec<(usize, usize)>,
    /// Peers listed by the first announce / by every later one (None: all peers).
    pub tracker_first: Option<Vec<usize>>,
    pub tracker_later: Option<Vec<usize>>,
    /// The manager's broadcasts are held back per connection task until an `rl<i>` event.
    pub gated: bool,
    /// Which invariants are evaluated: C02 itself evaluates all; C01, C12 and C08 borrow scenarios and
    /// evaluate only their own property's invariants.
    pub focus: Focus,
    /// Peer i presents the peer id announced for peer k (empty / None: its own).
    pub present_id_of: Vec<Option<usize>>,
    /// Peers that own nothing and only keep their connection alive: they handshake at once, take
    /// part in no search event (except leaving, if allowed) and send a live message per interval
    /// during the fair continuation.
    pub inert: Vec<bool>,
    /// Peers that refuse to be connected to again once they have left.
    pub refuse_after_close: Vec<bool>,
}

#[derive(Default, Clone, Debug)]
pub struct PState {
    pub generation: usize,
    pub hs: bool,
    pub announced: usize,
    pub bitfield: bool,
    pub unchoked: bool,
    pub choke_used: bool,
    pub interest: u8,
    pub outstanding: Vec<(u32, u32, u32)>,
    pub scanned: usize,
    pub closes: usize,
}

/// Class of the recorded C02 finding (known_findings.json).
pub const FREED_CLASS: &str = "idle-holder-not-asked-for-a-freed-piece";

#[derive(Default)]
pub struct Mon {
    pub p: Vec<PState>,
    pub had: Vec<bool>,
    /// Per piece: it was reserved for some connection and became Missing again (its holder choked
    /// us or left) -- kept until it is reserved or owned again.
    pub freed: Vec<bool>,
    pub prev_reserved: Vec<bool>,
    pub ticks: usize,
    pub elapsed_ms: u64,
}

impl Swarm {
    fn torrent(&self) -> Torrent {
        Torrent::new("T", self.piece_len, &self.files, self.single)
    }

    fn is_inert(&self, i: usize) -> bool {
        self.inert.get(i).cloned().unwrap_or(false)
    }

    fn live(&self, w: &FullWorld, i: usize) -> bool {
        match w.peers[i].conn.as_ref() {
            Some(c) => !c.closed_by_peer && w.listed(i),
            None => false,
        }
    }

    fn sync(&self, w: &FullWorld, mon: &mut Mon) {
        if let Some(snap) = w.snap() {
            let n = snap.statuses.len();
            mon.freed.resize(n, false);
            mon.prev_reserved.resize(n, false);
            for k in 0..n {
                let reserved = matches!(snap.statuses[k], Status::Reserved(_));
                if snap.statuses[k] == Status::Missing && mon.prev_reserved[k] {
                    mon.freed[k] = true;
                }
                if snap.statuses[k] != Status::Missing {
                    mon.freed[k] = false;
                }
                mon.prev_reserved[k] = reserved;
            }
        }
        for i in 0..self.owners.len() {
            if mon.p.len() <= i {
                mon.p.push(PState::default());
            }
            if w.peers[i].connects != mon.p[i].generation {
                let closes = mon.p[i].closes;
                mon.p[i] = PState { generation: w.peers[i].connects, closes, ..Default::default() };
            }
            if let Some(c) = w.peers[i].conn.as_ref() {
                let from = mon.p[i].scanned.min(c.msgs.len());
                for m in &c.msgs[from..] {
                    match m {
                        Msg::Request(a, b, l) => mon.p[i].outstanding.push((*a, *b, *l)),
                        Msg::Cancel(a, b, l) => mon.p[i].outstanding.retain(|r| r != &(*a, *b, *l)),
                        _ => {}
                    }
                }
                mon.p[i].scanned = c.msgs.len();
            }
        }
    }

    fn piece_bytes(&self, w: &FullWorld, r: &(u32, u32, u32)) -> Vec<u8> {
        w.t.pieces[r.0 as usize][r.1 as usize..(r.1 + r.2) as usize].to_vec()
    }

    /// Events of peer i that an honest peer may produce now.
    fn peer_events(&self, w: &FullWorld, mon: &Mon, i: usize, fair_only: bool) -> Vec<String> {
        let mut out = vec![];
        if !self.live(w, i) {
            return out;
        }
        let p = &mon.p[i];
        if self.is_inert(i) {
            if !p.hs {
                out.push(format!("hs{}", i));
            } else if !fair_only && self.may_close[i] && p.closes < 1 {
                out.push(format!("cl{}", i));
            }
            return out;
        }
        let owned: Vec<usize> = (0..self.owners[i].len()).filter(|k| self.owners[i][*k]).collect();
        if !p.hs {
            out.push(format!("hs{}", i));
            if self.with_segmentation && !fair_only && !self.by_have[i] {
                out.push(format!("hb{}", i));
            }
            return out;
        }
        if !self.by_have[i] && !p.bitfield {
            out.push(format!("bf{}", i));
            return out; // the bitfield is the first message after the handshake
        }
        if self.by_have[i] && p.announced < owned.len() {
            out.push(format!("hv{}", i));
        }
        if !p.unchoked {
            out.push(format!("un{}", i));
        }
        if !p.outstanding.is_empty() && p.unchoked {
            out.push(format!("ao{}", i));
            if !fair_only {
                if p.outstanding.len() > 1 {
                    out.push(format!("an{}", i));
                }
                if self.with_segmentation {
                    out.push(format!("as{}", i));
                }
            }
        }
        if p.interest == 1 {
            out.push(format!("ni{}", i));
        }
        if !fair_only {
            if self.with_choke && p.unchoked && !p.choke_used {
                out.push(format!("ck{}", i));
            }
            if self.with_interest && p.interest == 0 {
                out.push(format!("in{}", i));
            }
            if self.may_close[i] && p.closes < 1 {
                out.push(format!("cl{}", i));
            }
        }
        out
    }

    fn events_for(&self, w: &FullWorld, mon: &Mon, sym: &str) -> Vec<FEv> {
        if sym == "tick" {
            return vec![FEv::Advance(10_000)];
        }
        if sym.starts_with('x') {
            let i: usize = sym[2..3].parse().unwrap();
            let j: usize = sym[3..4].parse().unwrap();
            let r = mon.p[i].outstanding[0];
            let answer = FEv::Feed(i, refwire::encode(&Msg::Piece(r.0, r.1, self.piece_bytes(w, &r))));
            return vec![FEv::Batch(if &sym[..2] == "xa" { vec![answer, FEv::Close(j)] } else { vec![FEv::Close(j), answer] })];
        }
        if sym.starts_with("fw") {
            let k: usize = sym[2..].parse().unwrap();
            return match rdest::verif::fs_pending().get(k) {
                Some(path) => vec![FEv::FsRelease(path.clone())],
                None => vec![],
            };
        }
        let i: usize = sym[2..].parse().unwrap();
        let t = &w.t;
        let p = &mon.p[i];
        let id_of = self.present_id_of.get(i).cloned().flatten().unwrap_or(i);
        let hs = refwire::encode(&refwire::handshake(t.meta.info_hash(), &w.peers[id_of].cfg.id));
        let bf = refwire::encode(&Msg::Bitfield(refwire::bitfield_bytes(&self.owners[i])));
        match &sym[..2] {
            "hs" => vec![FEv::Feed(i, hs)],
            "hb" => vec![FEv::Feed(i, [hs, bf].concat())],
            "bf" => vec![FEv::Feed(i, bf)],
            "hv" => {
                let owned: Vec<usize> = (0..self.owners[i].len()).filter(|k| self.owners[i][*k]).collect();
                vec![FEv::Feed(i, refwire::encode(&Msg::Have(owned[p.announced] as u32)))]
            }
            "un" => vec![FEv::Feed(i, refwire::encode(&Msg::Unchoke))],
            "ck" => vec![FEv::Feed(i, refwire::encode(&Msg::Choke))],
            "in" => vec![FEv::Feed(i, refwire::encode(&Msg::Interested))],
            "ni" => vec![FEv::Feed(i, refwire::encode(&Msg::NotInterested))],
            "cl" => vec![FEv::Close(i)],
            "rl" => vec![FEv::Release(i)],
            "ao" | "an" | "as" => {
                let r = if &sym[..2] == "an" { *p.outstanding.last().unwrap() } else { p.outstanding[0] };
                let bytes = refwire::encode(&Msg::Piece(r.0, r.1, self.piece_bytes(w, &r)));
                if &sym[..2] == "as" {
                    let cut = if bytes.len() > 20 { bytes.len() / 2 } else { 5 };
                    vec![FEv::Feed(i, bytes[..cut].to_vec()), FEv::Feed(i, bytes[cut..].to_vec())]
                } else {
                    vec![FEv::Feed(i, bytes)]
                }
            }
            other => panic!("bad symbol {}", other),
        }
    }

    fn note(&self, mon: &mut Mon, sym: &str) {
        if sym == "tick" {
            mon.ticks += 1;
            mon.elapsed_ms += 10_000;
            return;
        }
        if sym.starts_with('x') {
            let i: usize = sym[2..3].parse().unwrap();
            let j: usize = sym[3..4].parse().unwrap();
            mon.p[i].outstanding.remove(0);
            mon.p[j].closes += 1;
            return;
        }
        if sym.starts_with("fw") {
            return;
        }
        let i: usize = sym[2..].parse().unwrap();
        let p = &mut mon.p[i];
        match &sym[..2] {
            "hs" => p.hs = true,
            "hb" => {
                p.hs = true;
                p.bitfield = true;
            }
            "bf" => p.bitfield = true,
            "hv" => p.announced += 1,
            "un" => p.unchoked = true,
            "ck" => {
                p.unchoked = false;
                p.choke_used = true;
                p.outstanding.clear();
            }
            "in" => p.interest = 1,
            "ni" => p.interest = 2,
            "cl" => p.closes += 1,
            "ao" | "as" => {
                p.outstanding.remove(0);
            }
            "an" => {
                p.outstanding.pop();
            }
            _ => {}
        }
    }

    fn complete(&self, w: &FullWorld) -> Result<(), String> {
        let snap = w.snap().ok_or("no session snapshot")?;
        if !snap.statuses.iter().all(|s| *s == Status::Have) {
            return Err(format!("pieces not all owned: {:?}", snap.statuses));
        }
        if !snap.files_extracted {
            return Err("all pieces owned but extraction never started".to_string());
        }
        for (rel, want) in w.t.expected_outputs() {
            match std::fs::read(w.dir.join(&rel)) {
                Ok(got) if got == want => {}
                Ok(got) => return Err(format!("output file {} differs ({} bytes, expected {})", rel.display(), got.len(), want.len())),
                Err(e) => return Err(format!("output file {} missing: {}", rel.display(), e)),
            }
        }
        Ok(())
    }

    /// "Without any surviving connection hanging": a connection task must never wait for a block
    /// that its honest peer has already delivered (it would sit there until the keep-alive limit).
    fn hanging(&self, w: &FullWorld, mon: &Mon) -> Option<(&'static str, String)> {
        // these invariants describe quiescent connection tasks; a task whose piece-file write is
        // being held (fs seam) is in the middle of handling a block
        if !rdest::verif::fs_pending().is_empty() {
            return None;
        }
        let mut deferred: Option<(&'static str, String)> = None;
        for i in 0..self.owners.len() {
            if !self.live(w, i) {
                continue;
            }
            // a peer that unchokes us and has announced a piece nobody is fetching must be asked for
            // something: otherwise the connection just sits there until the keep-alive limit ends it
            // (a reconnect may then rescue the download, which is why the liveness obligation alone
            // does not see this)
            // (not while a piece-file write of some connection task is being held: that task has not
            // reported its completion yet, so it cannot have been asked for the next piece)
            if !self.is_inert(i) && mon.p[i].hs && mon.p[i].unchoked && mon.p[i].outstanding.is_empty() && rdest::verif::fs_pending().is_empty() {
                if let Some(snap) = w.snap() {
                    let owned: Vec<usize> = (0..self.owners[i].len()).filter(|k| self.owners[i][*k]).collect();
                    let announced: Vec<usize> = if self.by_have[i] { owned.iter().cloned().take(mon.p[i].announced).collect() } else if mon.p[i].bitfield { owned.clone() } else { vec![] };
                    if let Some(k) = announced.iter().find(|k| snap.statuses[**k] == Status::Missing) {
                        // a piece that had been reserved for another connection and was freed again
                        // (its holder choked us or left) while this peer sat idle: recorded finding
                        let freed = mon.freed.get(*k).cloned().unwrap_or(false);
                        let v = (
                            if freed { FREED_CLASS } else { "unchoking-peer-with-a-wanted-piece-left-idle" },
                            format!("peer {} unchoked us and announced piece {}, which the client lacks and nobody is fetching{}, but no request is outstanding on that connection; {}", i, k, if freed { " (it had been reserved for another connection, whose peer choked us or left)" } else { "" }, w.session_key()),
                        );
                        if !freed {
                            return Some(v);
                        }
                        // the recorded finding: everything else is looked at first
                        deferred = deferred.or(Some(v));
                    }
                }
            }
            if let Some(h) = w.handler(i) {
                if let Some(rx) = &h.piece_rx {
                    for (b, l) in &rx.requested {
                        let owed = mon.p[i].outstanding.iter().any(|r| r.0 as usize == rx.piece_index && r.1 as usize == *b && r.2 as usize == *l);
                        if !owed {
                            return Some((
                                "connection-waits-for-a-block-already-delivered",
                                format!("peer {}: the connection task still waits for block ({}, {}) of piece {}, but the peer has answered every request it received except {:?}", i, b, l, rx.piece_index, mon.p[i].outstanding),
                            ));
                        }
                    }
                }
            }
        }
        deferred
    }

    fn health(&self, w: &FullWorld) -> Option<(&'static str, String)> {
        if let Some(p) = w.panics.first() {
            let class = if p.contains("session.rs") { "session-panicked" } else { "task-panicked" };
            return Some((class, p.clone()));
        }
        if let Some(h) = &w.hung {
            return Some(("harness-step-failed", h.clone()));
        }
        if !w.session_alive() {
            return Some(("session-ended", "the session task is gone".to_string()));
        }
        None
    }
}

impl Sys for Swarm {
    type W = FullWorld;
    type Mon = Mon;
    fn name(&self) -> String {
        self.label.to_string()
    }
    fn tolerate(&self, class: &str) -> bool {
        class == FREED_CLASS
    }
    fn explore_choices(&self) -> bool {
        self.tie_breaks
    }
    fn build(&self, dir: &PathBuf) -> (FullWorld, Mon) {
        let t = self.torrent();
        let mut cfgs: Vec<_> = (0..self.owners.len()).map(|i| peer_cfg(i, true)).collect();
        for (k, j) in &self.same_addr {
            cfgs[*k].addr = cfgs[*j].addr.clone();
        }
        let all: Vec<usize> = (0..cfgs.len()).collect();
        let first = self.tracker_first.clone().unwrap_or_else(|| all.clone());
        let later = self.tracker_later.clone().unwrap_or(all);
        let w = FullWorld::new_gated(&t, &cfgs, vec![TrackerOutcome::Good(first)], TrackerOutcome::Good(later), dir, self.gated);
        let mut w = w;
        let mut mon = Mon::default();
        self.sync(&w, &mut mon);
        for i in 0..self.owners.len() {
            if self.is_inert(i) && self.live(&w, i) {
                let sym = format!("hs{}", i);
                for ev in self.events_for(&w, &mon, &sym) {
                    w.step(&ev);
                }
                self.note(&mut mon, &sym);
                self.sync(&w, &mut mon);
            }
        }
        (w, mon)
    }
    fn dead(&self, w: &FullWorld) -> bool {
        w.hung.is_some() || !w.session_alive()
    }
    fn enabled(&self, w: &FullWorld, mon: &Mon, _depth: usize) -> Vec<String> {
        let mut out = vec![];
        for i in 0..self.owners.len() {
            out.extend(self.peer_events(w, mon, i, false));
        }
        if self.gated {
            for i in 0..self.owners.len() {
                if self.live(w, i) && !w.pending(i).is_empty() {
                    out.push(format!("rl{}", i));
                }
            }
            // a re-write of an existing piece file is held after its truncation: let it finish
            for (k, _) in rdest::verif::fs_pending().iter().enumerate() {
                out.push(format!("fw{}", k));
            }
        }
        if self.races {
            for i in 0..self.owners.len() {
                if !self.live(w, i) || mon.p[i].outstanding.is_empty() || !mon.p[i].unchoked {
                    continue;
                }
                for j in 0..self.owners.len() {
                    if j != i && self.live(w, j) && self.may_close[j] && mon.p[j].closes < 1 {
                        out.push(format!("xa{}{}", i, j)); // answer of i arrives, then j's FIN
                        out.push(format!("xc{}{}", i, j)); // j's FIN arrives, then the answer of i
                    }
                }
            }
        }
        if mon.ticks < self.ticks {
            out.push("tick".to_string());
        }
        out
    }
    fn apply(&self, w: &mut FullWorld, mon: &Mon, sym: &str, digits: &[usize], verbose: bool) -> Vec<(usize, usize, usize, bool)> {
        let evs = self.events_for(w, mon, sym);
        if sym.starts_with("cl") {
            let i: usize = sym[2..].parse().unwrap();
            if self.refuse_after_close.get(i).cloned().unwrap_or(false) {
                w.set_refuse(i, true);
            }
        }
        let mut log: Vec<(usize, usize, usize, bool)> = vec![];
        let mut used = 0;
        for ev in &evs {
            w.step_with(ev, &digits[used.min(digits.len())..]);
            used += w.choice_log.len();
            let offset = log.last().map(|l| l.2 + 1).unwrap_or(0);
            log.extend(w.choice_log.iter().map(|l| (l.0, l.1, l.2 + offset, l.3)));
        }
        if verbose {
            println!("== {} -> {:?}", sym, evs.iter().map(|e| match e { FEv::Feed(i, b) => format!("Feed({}, {} bytes {:?})", i, b.len(), refwire::decode_stream(b).0.iter().map(|m| m.short()).collect::<Vec<_>>()), o => format!("{:?}", o) }).collect::<Vec<_>>());
            for i in 0..w.peers.len() {
                if !w.new_msgs(i).is_empty() {
                    println!("   client wrote to peer {}: {:?}", i, w.new_msgs(i).iter().map(|m| m.short()).collect::<Vec<_>>());
                }
            }
        }
        log
    }
    fn check(&self, w: &FullWorld, mon: &mut Mon, last: Option<&str>) -> Option<(&'static str, String)> {
        let gen_before: Vec<usize> = mon.p.iter().map(|p| p.generation).collect();
        if let Some(sym) = last {
            self.note(mon, sym);
        }
        self.sync(w, mon);
        if self.focus != Focus::Storage {
            if let Some(v) = self.health(w) {
                return Some(v);
            }
        }
        if self.focus == Focus::Identity {
            if let Some(sym) = last {
                if sym.starts_with("hs") || sym.starts_with("hb") {
                    let i: usize = sym[2..].parse().unwrap();
                    let own_id = self.present_id_of.get(i).cloned().flatten().is_none();
                    // the connection that carried this handshake is still the peer's connection and
                    // the manager still lists the peer (a dropped peer may be dialled again at once:
                    // that shows as a new connection)
                    let same_conn = gen_before.get(i).cloned() == Some(w.peers[i].connects);
                    let kept = same_conn && w.listed(i) && w.peers[i].conn.as_ref().map(|c| !c.closed_by_peer).unwrap_or(false);
                    if own_id && !kept {
                        return Some(("announced-id-rejected", format!("peer {} presented the peer id the tracker announced for its address and was dropped; {}", i, w.session_key())));
                    }
                    if !own_id && kept {
                        return Some(("foreign-id-accepted", format!("peer {} presented another peer's id (not the one announced for its address) and is still connected; {}", i, w.session_key())));
                    }
                }
            }
            return None;
        }
        if self.focus == Focus::All || self.focus == Focus::Announce {
            for (i, p) in w.peers.iter().enumerate() {
                if let Some(c) = &p.conn {
                    for m in &c.msgs[c.new_from..] {
                        match m {
                            Msg::Have(k) if !w.has_piece_file(*k as usize) => {
                                return Some(("have-for-unverified-piece", format!("Have({}) was written to peer {} but no verified file of that piece is stored; {}", k, i, w.session_key())));
                            }
                            Msg::Bitfield(bytes) => {
                                for k in 0..self.owners[0].len() {
                                    if bytes.get(k / 8).map(|b| b >> (7 - k % 8) & 1 == 1).unwrap_or(false) && !w.has_piece_file(k) {
                                        return Some(("bitfield-marks-unverified-piece", format!("the bitfield written to peer {} marks piece {} but no verified file of it is stored; {}", i, k, w.session_key())));
                                    }
                                }
                            }
                            _ => {}
                        }
                    }
                }
            }
            if self.focus == Focus::Announce {
                return None;
            }
        }
        if self.focus == Focus::All || self.focus == Focus::Storage {
            if let Some(snap) = w.snap() {
                for (i, st) in snap.statuses.iter().enumerate() {
                    let have = *st == Status::Have;
                    // (debugging aid: RDV_SKIP_STORED=1 lets a replay run on past this invariant, to see
                    // what the window leads to)
                    if have && !w.has_piece_file(i) && std::env::var("RDV_SKIP_STORED").is_err() {
                        return Some(("piece-counted-as-done-without-stored-data", format!("piece {} is Have but no verified piece file exists; {}", i, w.session_key())));
                    }
                    if mon.had.len() <= i {
                        mon.had.push(false);
                    }
                    if mon.had[i] && !have {
                        return Some(("owned-piece-forgotten", format!("piece {} was owned and is now {:?}; {}", i, st, w.session_key())));
                    }
                    mon.had[i] = have;
                }
            }
        }
        if self.focus == Focus::Storage {
            return None;
        }
        // the manager's own records: a reservation is held by a connected peer that may be asked.
        // (Nothing more is demanded: in the end game several peers hold one piece, and a leaving
        // holder resets the piece to Missing while another still fetches it, which only makes the
        // piece assignable early.)
        if let Some(snap) = w.snap() {
            for (i, st) in snap.statuses.iter().enumerate() {
                if let Status::Reserved(n) = st {
                    if !snap.peers.iter().any(|p| p.piece_index == Some(i) && !p.choked) {
                        return Some(("reservation-without-holder", format!("piece {} is Reserved({}) but no connected, unchoking peer is assigned to it; {}", i, n, w.session_key())));
                    }
                }
            }
        }
        if self.focus == Focus::Reservation {
            return None;
        }
        self.hanging(w, mon)
    }
    fn key(&self, w: &FullWorld, mon: &Mon) -> String {
        let mut k = w.session_key();
        if self.gated {
            k.push_str(&format!(" fs-held={:?}", rdest::verif::fs_pending()));
        }
        if mon.freed.iter().any(|f| *f) {
            k.push_str(&format!(" freed={:?}", mon.freed.iter().enumerate().filter(|(_, f)| **f).map(|(i, _)| i).collect::<Vec<_>>()));
        }
        for i in 0..self.owners.len() {
            let p = &mon.p[i];
            k.push_str(&format!(" [{} pend={:?} live={} gen={} hs={} bf={} an={} un={} ck={} in={} out={:?} cl={}", i, if self.gated { w.pending(i) } else { vec![] }, self.live(w, i), p.generation.min(3), p.hs, p.bitfield, p.announced, p.unchoked, p.choke_used, p.interest, p.outstanding, p.closes));
            if self.live(w, i) {
                if let Some(h) = w.handler(i) {
                    k.push_str(&format!(" h: ck={} in={} tx={:?} buf={} rx={:?}", h.choked, h.interested, h.piece_tx, h.msg_buff.len(), h.piece_rx.as_ref().map(|rx| (rx.piece_index, rx.requested.clone(), rx.left.clone(), rx.buff.iter().filter(|b| **b != 0).count()))));
                }
            }
            k.push(']');
        }
        let files: Vec<bool> = (0..w.t.pieces.len()).map(|i| w.has_piece_file(i)).collect();
        k.push_str(&format!(" files={:?} ticks={}", files, mon.ticks));
        k
    }
    fn tags(&self, w: &FullWorld, _mon: &Mon) -> Vec<&'static str> {
        let mut t = vec![];
        if self.complete(w).is_ok() {
            t.push("download complete and identical");
        }
        if w.peers.iter().any(|p| p.connects > 1) {
            t.push("a peer was contacted again after it left");
        }
        t
    }
    fn final_check(&self, w: &mut FullWorld, mon: &mut Mon, verbose: bool) -> Option<(&'static str, String)> {
        if self.focus != Focus::All {
            return None;
        }
        // fair default continuation: every honest peer keeps doing the next thing its script asks
        // for; when nobody can do anything, time passes (up to a 900 s horizon)
        let mut waited = 0u64;
        let mut steps = 0;
        let mut trail: Vec<String> = vec![];
        loop {
            if let Some(v) = self.health(w) {
                return Some(v);
            }
            if let Some(v) = self.hanging(w, mon) {
                if v.0 != FREED_CLASS {
                    return Some(v);
                }
            }
            if self.complete(w).is_ok() {
                break;
            }
            let mut next: Option<String> = None;
            if self.gated {
                next = (0..self.owners.len()).find(|i| self.live(w, *i) && !w.pending(*i).is_empty()).map(|i| format!("rl{}", i));
                if !rdest::verif::fs_pending().is_empty() {
                    next = Some("fw0".to_string()); // a started write finishes
                }
            }
            for i in 0..self.owners.len() {
                if next.is_some() {
                    break;
                }
                if let Some(e) = self.peer_events(w, mon, i, true).into_iter().next() {
                    next = Some(e);
                    break;
                }
            }
            let sym = match next {
                Some(s) => s,
                None => {
                    // connections that merely stay alive do so: one live message per interval
                    for i in 0..self.owners.len() {
                        if self.is_inert(i) && self.live(w, i) && mon.p[i].hs && waited % 120_000 == 0 {
                            w.step(&FEv::Feed(i, refwire::encode(&Msg::Choke)));
                        }
                    }
                    if waited >= 900_000 {
                        let why = self.complete(w).err().unwrap_or_default();
                        return Some((
                            "honest-swarm-download-stuck",
                            format!("{}; after the fair continuation {:?} and 900 s of waiting nothing more happens: {}", why, trail, w.session_key()),
                        ));
                    }
                    waited += 10_000;
                    "tick".to_string()
                }
            };
            if sym != "tick" || trail.last().map(|s| s.as_str()) != Some("tick") {
                trail.push(sym.clone());
            }
            self.apply(w, mon, &sym, &[], verbose);
            let ticks = mon.ticks;
            self.note(mon, &sym);
            mon.ticks = ticks; // waiting here does not use up the scenario's tick budget
            self.sync(w, mon);
            steps += 1;
            if steps > 3000 {
                return Some(("honest-swarm-download-does-not-terminate", format!("3000 continuation steps without completion: {}", w.session_key())));
            }
        }
        // the session must still be responsive: the rotation timer makes the loop iterate
        // (whatever its period: up to two minutes of virtual time are allowed for one iteration)
        let before = w.snap().map(|s| s.loop_iterations).unwrap_or(0);
        let mut after = before;
        let mut waited = 0;
        while after <= before && waited < 120 {
            w.step(&FEv::Advance(10_000));
            waited += 10;
            after = w.snap().map(|s| s.loop_iterations).unwrap_or(0);
            if let Some(v) = self.health(w) {
                return Some(v);
            }
        }
        if after <= before {
            return Some(("session-wedged-after-completion", format!("event loop iterations {} -> {} over {} s", before, after, waited)));
        }
        None
    }
}

/// 14 addresses: D (0, leaves and does not come back), S1..S9 (1..=9, inert), Z (10, inert, leaves
/// first), E (11, the only seeder), T1, T2 (12, 13, inert). First announce: [D, S1..S9, Z]; later
/// ones: [E, D, S1..S9, T1, T2] — after the dial budget E and D are left over as candidates.
fn many_addresses() -> Swarm {
    let n = 14;
    let mut owners = vec![own(3, &[]); n];
    owners[11] = own(3, &[0, 1, 2]);
    let mut inert = vec![true; n];
    inert[11] = false;
    let mut may_close = vec![false; n];
    may_close[0] = true;
    may_close[10] = true;
    let mut refuse = vec![false; n];
    refuse[0] = true;
    refuse[10] = true;
    let first: Vec<usize> = (0..=10).collect();
    let mut later: Vec<usize> = vec![11, 0];
    later.extend(1..=9);
    later.extend([12, 13]);
    Swarm {
        label: "14-addresses-leftover-candidates",
        piece_len: 5,
        files: vec![("f", 13)],
        single: true,
        owners,
        may_close,
        by_have: vec![false; n],
        with_choke: false,
        with_interest: false,
        with_segmentation: false,
        ticks: 0,
        tie_breaks: false,
        races: false,
        same_addr: vec![],
        tracker_first: Some(first),
        tracker_later: Some(later),
        gated: false,
        focus: Focus::All, present_id_of: vec![],
        inert,
        refuse_after_close: refuse,
    }
}

/// 12 entries in one reply, first and last naming the same address: entry 11 is a stale listing of
/// host X under an old peer id (nobody answers under it), entry 0 is X as it is now (the seeder);
/// P1..P10 (1..=10) are inert and P1 may leave. The dial budget takes 11 entries from the end of
/// [stale X, P1..P10, X], so the stale entry stays behind as a candidate for an address that is
/// connected by then.
fn duplicate_address() -> Swarm {
    let n = 12;
    let mut owners = vec![own(3, &[]); n];
    owners[0] = own(3, &[0, 1, 2]);
    let mut inert = vec![true; n];
    inert[0] = false;
    let mut may_close = vec![false; n];
    may_close[1] = true;
    let mut order: Vec<usize> = vec![11];
    order.extend(1..=10);
    order.push(0);
    Swarm {
        label: "12-entries-duplicate-address",
        piece_len: 5,
        files: vec![("f", 13)],
        single: true,
        owners,
        may_close,
        by_have: vec![false; n],
        with_choke: false,
        with_interest: false,
        with_segmentation: false,
        ticks: 0,
        tie_breaks: false,
        races: false,
        same_addr: vec![(11, 0)],
        tracker_first: Some(order.clone()),
        tracker_later: Some(order),
        gated: false,
        focus: Focus::All, present_id_of: vec![],
        inert,
        refuse_after_close: vec![false; n],
    }
}

fn own(n: usize, idx: &[usize]) -> Vec<bool> {
    (0..n).map(|i| idx.contains(&i)).collect()
}

/// Full-session scenarios that C01 borrows (tracker-driven reconnects cannot be produced in the
/// pumped world): only "Have implies stored, owned stays owned" is evaluated.
pub fn storage_scenarios() -> Vec<(Swarm, usize)> {
    scenarios(false)
        .into_iter()
        .filter(|(s, _)| s.label == "3pc-restarted-peer" || s.label == "3pc-two-seeders-gated")
        .map(|(mut s, d)| {
            s.focus = Focus::Storage;
            s.label = if s.label == "3pc-restarted-peer" { "storage-3pc-restarted-peer" } else { "storage-3pc-two-seeders-gated" };
            (s, d)
        })
        .collect()
}

/// Scenarios C11 borrows (what the client announces on the wire only).
pub fn announce_scenarios() -> Vec<(Swarm, usize)> {
    scenarios(false)
        .into_iter()
        .filter(|(s, _)| s.label == "3pc-restarted-peer" || s.label == "3pc-two-seeders-gated" || s.label == "relisted-then-new")
        .map(|(mut s, d)| {
            s.focus = Focus::Announce;
            s.label = match s.label {
                "3pc-restarted-peer" => "announce-3pc-restarted-peer",
                "3pc-two-seeders-gated" => "announce-3pc-two-seeders-gated",
                _ => "announce-relisted-then-new",
            };
            (s, d)
        })
        .collect()
}

/// Scenarios C12 borrows (reservation records only).
pub fn reservation_scenarios() -> Vec<(Swarm, usize)> {
    scenarios(false)
        .into_iter()
        .filter(|(s, _)| s.label == "12-entries-duplicate-address" || s.label == "3pc-restarted-peer" || s.label == "3pc-seeder+leaver")
        .map(|(mut s, d)| {
            s.focus = Focus::Reservation;
            s.label = match s.label {
                "12-entries-duplicate-address" => "reservation-12-entries-duplicate-address",
                "3pc-restarted-peer" => "reservation-3pc-restarted-peer",
                _ => "reservation-3pc-seeder+leaver",
            };
            (s, d)
        })
        .collect()
}

/// Scenarios C08 borrows (peer identity only): a re-announce lists a connected address followed by a
/// new one; the new peer presents its own id (must stay) or the id of the connected one (must go).
pub fn identity_scenarios() -> Vec<(Swarm, usize)> {
    let mut out = vec![];
    for (s, d) in scenarios(false) {
        if s.label == "relisted-then-new" {
            let mut a = s.clone();
            a.focus = Focus::Identity;
            a.label = "identity-relisted-then-new";
            out.push((a, d));
            let mut b = s.clone();
            b.focus = Focus::Identity;
            b.label = "identity-relisted-then-impostor";
            b.present_id_of = vec![None, Some(0), None];
            out.push((b, d));
        }
        if s.label == "3pc-restarted-peer" {
            let mut a = s.clone();
            a.focus = Focus::Identity;
            a.label = "identity-3pc-restarted-peer";
            out.push((a, d));
        }
    }
    out
}

pub fn scenarios(thorough: bool) -> Vec<(Swarm, usize)> {
    let base = Swarm { label: "", piece_len: 5, files: vec![("f", 13)], single: true, owners: vec![], may_close: vec![], by_have: vec![], with_choke: false, with_interest: false, with_segmentation: false, ticks: 0, tie_breaks: true, races: false, same_addr: vec![], tracker_first: None, tracker_later: None, gated: false, focus: Focus::All, present_id_of: vec![], inert: vec![], refuse_after_close: vec![] };
    let mut v = vec![
        // 3 single-block pieces (last one short), one seeder
        (Swarm { label: "3pc-1seeder", owners: vec![own(3, &[0, 1, 2])], may_close: vec![false], by_have: vec![false], with_choke: true, with_interest: true, ticks: 1, ..base.clone() }, 16),
        // two peers with complementary sets
        (Swarm { label: "3pc-split-01|2", owners: vec![own(3, &[0, 1]), own(3, &[2])], may_close: vec![false, false], by_have: vec![false, false], ..base.clone() }, 18),
        // seeder + redundant peer that may leave and is offered again
        (Swarm { label: "3pc-seeder+leaver", owners: vec![own(3, &[0, 1, 2]), own(3, &[0, 2])], may_close: vec![false, true], by_have: vec![false, false], ..base.clone() }, 14),
        // a peer that announces with Have messages only
        (Swarm { label: "3pc-have-only+partial", owners: vec![own(3, &[0, 1, 2]), own(3, &[1])], may_close: vec![false, false], by_have: vec![true, false], ..base.clone() }, 14),
        // three peers, each the only owner of one piece
        (Swarm { label: "3pc-3peers-each-one", owners: vec![own(3, &[0]), own(3, &[1]), own(3, &[2])], may_close: vec![false, false, false], by_have: vec![false, false, false], ..base.clone() }, 10),
        // two seeders race for the same pieces (end game) with the manager's broadcasts held back per
        // connection task: a peer can leave or finish before its task has seen that the other
        // connection completed the piece. (Simultaneous arrivals through batched events — `races` —
        // are not part of the registered scenarios: with two channels of the manager ready at once
        // the real select! picks at random, which no event order of the harness can pin down; the
        // gate orders exactly the same interleavings explicitly.)
        (Swarm { label: "3pc-two-seeders-gated", owners: vec![own(3, &[0, 1, 2]), own(3, &[0, 1, 2])], may_close: vec![false, true], by_have: vec![false, false], gated: true, ..base.clone() }, 9),
        // a host that restarts with a new peer id while the client is still connected to its old
        // incarnation: the second announce lists the same address with another id
        (Swarm { label: "3pc-restarted-peer", owners: vec![own(3, &[0, 1, 2]), own(3, &[0]), own(3, &[0, 1, 2])], may_close: vec![false, true, false], by_have: vec![false, false, false], same_addr: vec![(2, 0)], tracker_first: Some(vec![0, 1]), tracker_later: Some(vec![2, 1]), ..base.clone() }, 12),
        // tracker replies longer than the dial budget (11) leave candidates behind; a connected
        // peer is listed again; one seeder (E) sits at the bottom of the leftover candidates
        (many_addresses(), 7),
        // one reply lists the same address twice (a host still listed under its old peer id)
        (duplicate_address(), 8),
        // a re-announce lists a connected address followed by a new one
        (Swarm { label: "relisted-then-new", owners: vec![own(3, &[0, 1]), own(3, &[2]), own(3, &[])], may_close: vec![false, false, true], by_have: vec![false, false, false], tracker_first: Some(vec![0, 2]), tracker_later: Some(vec![1, 0]), ..base.clone() }, 12),
        // outside end game (12 pieces): S and P both hold pieces 0 and 1, P announces them one by one
        // with Have and may sit idle while S is asked; S may choke in the middle, which frees its
        // piece while P announces the other one: the Have path has a choice to make. T holds the rest.
        // (tie-breaks of the chooser are not enumerated here: ten-way ties would swamp the search)
        (Swarm { label: "12pc-idle-holder-announces", piece_len: 5, files: vec![("f", 60)], owners: vec![own(12, &[0, 1]), own(12, &[0, 1]), own(12, &[2, 3, 4, 5, 6, 7, 8, 9, 10, 11])], may_close: vec![false, false, false], by_have: vec![false, true, false], with_choke: true, tie_breaks: false, ..base.clone() }, if thorough { 11 } else { 9 }),
        // multi-block pieces, multi-file layout with a boundary inside a piece and a zero-length file
        (Swarm { label: "2x16387-multifile", piece_len: 16387, files: vec![("a", 100), ("d/b", 0), ("c", 16387 * 2 - 100 - 7)], single: false, owners: vec![own(2, &[0, 1]), own(2, &[1])], may_close: vec![false, true], by_have: vec![false, false], with_segmentation: true, ..base.clone() }, 12),
    ];
    if thorough {
        v.push((Swarm { label: "3pc-3peers-seeder+2partial-leavers", owners: vec![own(3, &[0, 1, 2]), own(3, &[0, 1]), own(3, &[2])], may_close: vec![false, true, true], by_have: vec![false, false, true], ..base.clone() }, 10));
        v.push((Swarm { label: "3pc-two-seeders-choke", owners: vec![own(3, &[0, 1, 2]), own(3, &[0, 1, 2])], may_close: vec![true, false], by_have: vec![false, false], with_choke: true, ticks: 1, ..base.clone() }, 12));
        v.push((Swarm { label: "11pc-no-endgame", piece_len: 5, files: vec![("f", 55)], owners: vec![own(11, &[0, 1, 2, 3, 4, 5, 6, 7, 8, 9, 10]), own(11, &[0, 1, 10])], may_close: vec![false, true], by_have: vec![false, false], ..base.clone() }, 12));
        v.push((Swarm { label: "exact-last-piece-2files", piece_len: 5, files: vec![("x", 7), ("y", 8)], single: false, owners: vec![own(3, &[0, 1, 2]), own(3, &[2])], may_close: vec![false, false], by_have: vec![false, true], with_interest: true, ..base.clone() }, 12));
    }
    v
}

// -------------------------------------------------------------------------------------------
// Unseamed end-to-end replay: the same honest download over real loopback TCP, real clock,
// connect seam inactive (the HTTP seam still answers the announce)
// -------------------------------------------------------------------------------------------

/// Messages an honest seeder receives when it follows the fair continuation from the initial state,
/// in the full-session world over the in-memory seams.
fn pipe_transcript(s: &Swarm, dir: &PathBuf) -> Result<(Vec<String>, Vec<(PathBuf, Vec<u8>)>), String> {
    let (mut w, mut mon) = s.build(dir);
    if let Some((c, why)) = s.final_check(&mut w, &mut mon, false) {
        return Err(format!("pipe run failed: {} {}", c, why));
    }
    // first connection of peer 0 only: collect what the client wrote, in order
    let writes = w.peers[0].conn.as_ref().map(|c| c.pipe.writes()).unwrap_or_default();
    let _ = writes;
    let msgs: Vec<String> = w.first_conn_msgs.get(0).cloned().unwrap_or_default();
    let outs = w.t.expected_outputs().into_iter().map(|(rel, _)| { let d = std::fs::read(w.dir.join(&rel)).unwrap_or_default(); (rel, d) }).collect();
    Ok((msgs, outs))
}

fn tcp_transcript(s: &Swarm, dir: &PathBuf) -> Result<(Vec<String>, Vec<(PathBuf, Vec<u8>)>), String> {
    use tokio::io::{AsyncReadExt, AsyncWriteExt};
    core::wipe_dir(dir);
    rdest::verif::clear_snapshots();
    rdest::verif::set_choices(vec![]);
    rdest::verif::set_net(None); // real TcpStream::connect
    let t = s.torrent();
    let rt = tokio::runtime::Builder::new_current_thread().enable_all().build().map_err(|e| e.to_string())?;
    let local = tokio::task::LocalSet::new();
    let owners = s.owners[0].clone();
    let res: Result<Vec<String>, String> = local.block_on(&rt, async {
        let listener = tokio::net::TcpListener::bind("127.0.0.1:0").await.map_err(|e| e.to_string())?;
        let addr = listener.local_addr().map_err(|e| e.to_string())?;
        let mut cfg = peer_cfg(0, true);
        cfg.addr = addr.to_string();
        let cfg2 = cfg.clone();
        rdest::verif::set_http(Some(Box::new(move |_req: &reqwest::Request| crate::httpfake::respond(200, crate::fullworld::tracker_body(&[&cfg2])))));
        let mut session = rdest::Session::new(t.meta.clone(), *crate::world::OWN_ID);
        let session_task = tokio::task::spawn_local(async move { session.verif_run().await });
        let (mut sock, _) = tokio::time::timeout(std::time::Duration::from_secs(10), listener.accept()).await.map_err(|_| "client never connected".to_string())?.map_err(|e| e.to_string())?;
        sock.set_nodelay(true).ok();
        let mut received: Vec<u8> = vec![];
        let mut decoded = 0usize; // messages decoded so far
        let mut msgs: Vec<Msg> = vec![];
        let mut buf = vec![0u8; 65536];
        // lock-step honest seeder: handshake, bitfield, unchoke, then answer the oldest request
        let mut to_send: Vec<Vec<u8>> = vec![
            refwire::encode(&refwire::handshake(t.meta.info_hash(), &cfg.id)),
            refwire::encode(&Msg::Bitfield(refwire::bitfield_bytes(&owners))),
            refwire::encode(&Msg::Unchoke),
        ];
        to_send.reverse();
        let mut outstanding: Vec<(u32, u32, u32)> = vec![];
        let mut closed = false;
        loop {
            // drain what the client wrote until it is quiet for 60 ms
            loop {
                match tokio::time::timeout(std::time::Duration::from_millis(60), sock.read(&mut buf)).await {
                    Ok(Ok(0)) => {
                        closed = true;
                        break;
                    }
                    Ok(Ok(n)) => received.extend_from_slice(&buf[..n]),
                    Ok(Err(_)) => {
                        closed = true;
                        break;
                    }
                    Err(_) => break,
                }
            }
            let (all, _, err) = refwire::decode_stream(&received);
            if let Some(e) = err {
                return Err(format!("client wrote undecodable bytes over TCP: {}", e));
            }
            for m in &all[decoded..] {
                match m {
                    Msg::Request(a, b, l) => outstanding.push((*a, *b, *l)),
                    Msg::Cancel(a, b, l) => outstanding.retain(|r| r != &(*a, *b, *l)),
                    _ => {}
                }
                msgs.push(m.clone());
            }
            decoded = all.len();
            if closed {
                break;
            }
            let next = if let Some(b) = to_send.pop() {
                Some(b)
            } else if !outstanding.is_empty() {
                let r = outstanding.remove(0);
                Some(refwire::encode(&Msg::Piece(r.0, r.1, t.pieces[r.0 as usize][r.1 as usize..(r.1 + r.2) as usize].to_vec())))
            } else {
                None
            };
            match next {
                Some(b) => sock.write_all(&b).await.map_err(|e| e.to_string())?,
                None => {
                    // nothing to do: the client closes the connection when it is done
                    match tokio::time::timeout(std::time::Duration::from_secs(5), sock.read(&mut buf)).await {
                        Ok(Ok(0)) | Ok(Err(_)) => break,
                        Ok(Ok(n)) => received.extend_from_slice(&buf[..n]),
                        Err(_) => return Err("client neither closed the connection nor asked for anything for 5 s".to_string()),
                    }
                }
            }
        }
        // give the extractor a moment
        tokio::time::sleep(std::time::Duration::from_millis(300)).await;
        session_task.abort();
        Ok(msgs.iter().map(|m| m.short()).collect())
    });
    rdest::verif::set_http(None);
    let msgs = res?;
    let outs = t.expected_outputs().into_iter().map(|(rel, _)| { let d = std::fs::read(dir.join(&rel)).unwrap_or_default(); (rel, d) }).collect();
    Ok((msgs, outs))
}

/// Dials that neither succeed nor fail for a while (real sockets, real clock, connect seam off):
/// the tracker lists the honest seeder H first and eleven hosts whose listen queue is full (the
/// kernel drops the SYN) behind it, so all eleven dial slots go to the silent hosts and H is only
/// dialled once one of those dials has come to an end. After 6 s the silent hosts accept and close
/// at once (the kernel's SYN retransmission 7 s after the first SYN gets through; the next one is
/// due at 15 s). Obligation: the download from H completes (25 s horizon).
/// Ok(None) holds; Ok(Some(..)) violation; Err(why) the run could not be set up here (a connect to
/// a full listen queue does not hang on this kernel): skipped, not a verdict.
pub fn slow_dial_case(dir: &PathBuf) -> Result<Option<(&'static str, String)>, String> {
    use std::time::{Duration, Instant};
    use tokio::io::{AsyncReadExt, AsyncWriteExt};
    const HOLES: usize = 11;
    core::wipe_dir(dir);
    rdest::verif::clear_snapshots();
    rdest::verif::set_choices(vec![]);
    rdest::verif::set_net(None); // real TcpStream::connect
    core::set_quiet_panics(true);
    let t = crate::fixture::Torrent::new("t", 16384, &[("f", 16384 + 5000)], true);
    let rt = tokio::runtime::Builder::new_current_thread().enable_all().build().map_err(|e| e.to_string())?;
    let local = tokio::task::LocalSet::new();
    let id_h = *b"-HS0001-slowdial-H00";
    let res: Result<Option<(&'static str, String)>, String> = local.block_on(&rt, async {
        // the silent hosts
        let mut holes = vec![];
        let mut cfgs: Vec<crate::world::PeerCfg> = vec![];
        let seeder_l = tokio::net::TcpListener::bind("127.0.0.1:0").await.map_err(|e| e.to_string())?;
        let addr_h = seeder_l.local_addr().map_err(|e| e.to_string())?.to_string();
        cfgs.push(crate::world::PeerCfg { addr: addr_h.clone(), id: id_h, outgoing: true, ungated: true });
        for i in 0..HOLES {
            let sock = tokio::net::TcpSocket::new_v4().map_err(|e| e.to_string())?;
            sock.bind("127.0.0.1:0".parse().unwrap()).map_err(|e| e.to_string())?;
            let listener = sock.listen(1).map_err(|e| e.to_string())?;
            let addr = listener.local_addr().map_err(|e| e.to_string())?;
            let mut fillers = vec![];
            for _ in 0..4 {
                fillers.push(tokio::task::spawn_local(async move {
                    if let Ok(s) = tokio::net::TcpStream::connect(addr).await {
                        tokio::time::sleep(Duration::from_secs(3600)).await;
                        drop(s);
                    }
                }));
            }
            let mut id = *b"-XX0001-slowdial-X00";
            id[19] = b'A' + i as u8;
            cfgs.push(crate::world::PeerCfg { addr: addr.to_string(), id, outgoing: true, ungated: true });
            holes.push((listener, addr, fillers));
        }
        tokio::time::sleep(Duration::from_millis(300)).await;
        let probes: Vec<_> = holes.iter().map(|(_, addr, _)| { let addr = *addr; tokio::task::spawn_local(async move { tokio::time::timeout(Duration::from_millis(500), tokio::net::TcpStream::connect(addr)).await.is_ok() }) }).collect();
        for p in probes {
            if p.await.unwrap_or(true) {
                return Err("a connect to a full listen queue is answered at once on this kernel".to_string());
            }
        }
        // tracker: first reply [H, X1..X11] (dialled from the end), later replies [H]
        let first = std::cell::Cell::new(true);
        let all: Vec<crate::world::PeerCfg> = cfgs.clone();
        rdest::verif::set_http(Some(Box::new(move |_req: &reqwest::Request| {
            let refs: Vec<&crate::world::PeerCfg> = if first.replace(false) { all.iter().collect() } else { all.iter().take(1).collect() };
            crate::httpfake::respond(200, crate::fullworld::tracker_body(&refs))
        })));
        // honest seeder H: serves every connection it gets
        let (info_hash, pieces) = (*t.meta.info_hash(), t.pieces.clone());
        tokio::task::spawn_local(async move {
            loop {
                let (mut sock, _) = match seeder_l.accept().await {
                    Ok(x) => x,
                    Err(_) => return,
                };
                let pieces = pieces.clone();
                tokio::task::spawn_local(async move {
                    sock.set_nodelay(true).ok();
                    let bits: Vec<bool> = pieces.iter().map(|_| true).collect();
                    let hello = [refwire::encode(&refwire::handshake(&info_hash, &id_h)), refwire::encode(&Msg::Bitfield(refwire::bitfield_bytes(&bits))), refwire::encode(&Msg::Unchoke)].concat();
                    if sock.write_all(&hello).await.is_err() {
                        return;
                    }
                    let mut received: Vec<u8> = vec![];
                    let mut answered = 0usize;
                    let mut buf = vec![0u8; 65536];
                    loop {
                        match sock.read(&mut buf).await {
                            Ok(0) | Err(_) => return,
                            Ok(n) => received.extend_from_slice(&buf[..n]),
                        }
                        let (all, _, err) = refwire::decode_stream(&received);
                        if err.is_some() {
                            return;
                        }
                        for m in &all[answered..] {
                            if let Msg::Request(i, b, l) = m {
                                let p = &pieces[*i as usize];
                                if (*b as usize) + (*l as usize) <= p.len() {
                                    let _ = sock.write_all(&refwire::encode(&Msg::Piece(*i, *b, p[*b as usize..(*b + *l) as usize].to_vec()))).await;
                                }
                            }
                        }
                        answered = all.len();
                    }
                });
            }
        });
        // the silent hosts come back after 6 s: accept and close at once
        for (l, _, fillers) in holes {
            tokio::task::spawn_local(async move {
                tokio::time::sleep(Duration::from_secs(6)).await;
                for f in fillers {
                    f.abort();
                }
                loop {
                    match l.accept().await {
                        Ok((s, _)) => drop(s),
                        Err(_) => return,
                    }
                }
            });
        }
        let mut session = rdest::Session::new(t.meta.clone(), *crate::world::OWN_ID);
        let session_task = tokio::task::spawn_local(async move { session.verif_run().await });
        let want = t.expected_outputs();
        let started = Instant::now();
        let mut done = false;
        while started.elapsed() < Duration::from_secs(25) {
            tokio::time::sleep(Duration::from_millis(100)).await;
            if session_task.is_finished() {
                break;
            }
            if want.iter().all(|(rel, data)| std::fs::read(dir.join(rel)).map(|d| d == *data).unwrap_or(false)) {
                done = true;
                break;
            }
        }
        let ended = session_task.is_finished();
        session_task.abort();
        if done {
            return Ok(None);
        }
        let snap = rdest::verif::session_snapshot();
        let detail = match &snap {
            Some(s) => format!("piece statuses {:?}; {} peer records {:?}; untried candidates {:?} (H is {})", s.statuses, s.peers.len(), s.peers.iter().map(|p| p.addr.clone()).collect::<Vec<_>>(), s.candidates.iter().map(|(a, _)| a.clone()).collect::<Vec<_>>(), addr_h),
            None => "no session snapshot".to_string(),
        };
        Ok(Some(("download-stalls-behind-unanswered-dials", format!("the tracker listed the honest seeder H (every piece, reachable, answers everything) in front of eleven hosts whose connect neither succeeded nor failed for 6 s and then was accepted and closed; 25 s after the start the download is not complete (session loop ended: {}); {}", ended, detail))))
    });
    rdest::verif::set_http(None);
    res
}

/// A seeder that dials in: the real Session (unhooked accept path: listener, spawn_peer_listener,
/// run_outgoing on the accepted socket) is connected to over loopback TCP by an honest seeder in
/// the harness; the tracker lists nobody. Returns what the seeder received and the output files.
/// Err(("violation class" | "MACHINERY", text)).
fn dial_in_transcript(s: &Swarm, dir: &PathBuf) -> Result<(Vec<String>, Vec<(PathBuf, Vec<u8>)>), (&'static str, String)> {
    use tokio::io::{AsyncReadExt, AsyncWriteExt};
    core::wipe_dir(dir);
    rdest::verif::clear_snapshots();
    rdest::verif::set_choices(vec![]);
    rdest::verif::set_net(None);
    rdest::verif::publish_listen_addr(None);
    let t = s.torrent();
    let rt = tokio::runtime::Builder::new_current_thread().enable_all().build().map_err(|e| ("MACHINERY", e.to_string()))?;
    let local = tokio::task::LocalSet::new();
    let owners = s.owners[0].clone();
    let res: Result<Vec<String>, (&'static str, String)> = local.block_on(&rt, async {
        rdest::verif::set_http(Some(Box::new(move |_req: &reqwest::Request| crate::httpfake::respond(200, crate::fullworld::tracker_body(&[])))));
        let mut session = rdest::Session::new(t.meta.clone(), *crate::world::OWN_ID);
        let session_task = tokio::task::spawn_local(async move { session.verif_run().await });
        // wait for the listener
        let mut addr = None;
        for _ in 0..400 {
            tokio::time::sleep(std::time::Duration::from_millis(5)).await;
            if let Some(a) = rdest::verif::listen_addr() {
                addr = Some(a);
                break;
            }
        }
        let addr = addr.ok_or(("MACHINERY", "the session never published its listening address".to_string()))?;
        let mut sock = tokio::net::TcpStream::connect(("127.0.0.1", addr.port())).await.map_err(|e| ("MACHINERY", format!("cannot dial the client: {}", e)))?;
        sock.set_nodelay(true).ok();
        let mut received: Vec<u8> = vec![];
        let mut buf = vec![0u8; 65536];
        // an incoming connection gets no reply before its handshake
        if let Ok(Ok(n)) = tokio::time::timeout(std::time::Duration::from_millis(300), sock.read(&mut buf)).await {
            return Err(("dial-in-seeder-got-bytes-before-its-handshake", format!("{} bytes arrived (or the connection was closed) before the seeder sent anything", n)));
        }
        let my_id = *b"-HS0001-dialinseeder";
        let mut to_send: Vec<Vec<u8>> = vec![refwire::encode(&refwire::handshake(t.meta.info_hash(), &my_id)), refwire::encode(&Msg::Bitfield(refwire::bitfield_bytes(&owners))), refwire::encode(&Msg::Unchoke)];
        to_send.reverse();
        let mut decoded = 0usize;
        let mut msgs: Vec<Msg> = vec![];
        let mut outstanding: Vec<(u32, u32, u32)> = vec![];
        let mut closed = false;
        let started = std::time::Instant::now();
        loop {
            if started.elapsed() > std::time::Duration::from_secs(30) {
                return Err(("dial-in-seeder-download-stalls", format!("30 s without completion; the client wrote {:?}", msgs.iter().map(|m| m.short()).collect::<Vec<_>>())));
            }
            loop {
                match tokio::time::timeout(std::time::Duration::from_millis(60), sock.read(&mut buf)).await {
                    Ok(Ok(0)) | Ok(Err(_)) => {
                        closed = true;
                        break;
                    }
                    Ok(Ok(n)) => received.extend_from_slice(&buf[..n]),
                    Err(_) => break,
                }
            }
            let (all, _, err) = refwire::decode_stream(&received);
            if let Some(e) = err {
                return Err(("dial-in-seeder-got-undecodable-bytes", e.to_string()));
            }
            for m in &all[decoded..] {
                match m {
                    Msg::Request(a, b, l) => outstanding.push((*a, *b, *l)),
                    Msg::Cancel(a, b, l) => outstanding.retain(|r| r != &(*a, *b, *l)),
                    _ => {}
                }
                msgs.push(m.clone());
            }
            decoded = all.len();
            if closed {
                break;
            }
            let next = if let Some(b) = to_send.pop() {
                Some(b)
            } else if !outstanding.is_empty() {
                let r = outstanding.remove(0);
                Some(refwire::encode(&Msg::Piece(r.0, r.1, t.pieces[r.0 as usize][r.1 as usize..(r.1 + r.2) as usize].to_vec())))
            } else {
                None
            };
            match next {
                Some(b) => {
                    if sock.write_all(&b).await.is_err() {
                        closed = true;
                        break;
                    }
                }
                None => match tokio::time::timeout(std::time::Duration::from_secs(8), sock.read(&mut buf)).await {
                    Ok(Ok(0)) | Ok(Err(_)) => break,
                    Ok(Ok(n)) => received.extend_from_slice(&buf[..n]),
                    Err(_) => return Err(("dial-in-seeder-download-stalls", format!("the client neither closed the connection nor asked for anything for 8 s; it wrote {:?}", msgs.iter().map(|m| m.short()).collect::<Vec<_>>()))),
                },
            }
        }
        let _ = closed;
        tokio::time::sleep(std::time::Duration::from_millis(300)).await;
        session_task.abort();
        Ok(msgs.iter().map(|m| m.short()).collect())
    });
    rdest::verif::set_http(None);
    let msgs = res?;
    let outs = t.expected_outputs().into_iter().map(|(rel, _)| { let d = std::fs::read(dir.join(&rel)).unwrap_or_default(); (rel, d) }).collect();
    Ok((msgs, outs))
}

/// Dial the real session over loopback (tracker lists nobody), wait 300 ms, send `chunks`, then read
/// until the client is quiet for 400 ms or closes. Returns (bytes received before anything was
/// sent, bytes received afterwards, connection closed by the client).
pub fn dial_in_exchange(t: &crate::fixture::Torrent, dir: &PathBuf, chunks: Vec<Vec<u8>>) -> Result<(Vec<u8>, Vec<u8>, bool), String> {
    dial_in_exchange_fin(t, dir, chunks, false).map(|(a, b, c, _)| (a, b, c))
}

/// As `dial_in_exchange`; with `fin` the dial-in peer shuts its sending side down after the last
/// chunk (an orderly close, possibly in the middle of a message). Also returns the session's last
/// published snapshot.
pub fn dial_in_exchange_fin(t: &crate::fixture::Torrent, dir: &PathBuf, chunks: Vec<Vec<u8>>, fin: bool) -> Result<(Vec<u8>, Vec<u8>, bool, Option<rdest::verif::SessionSnap>), String> {
    use tokio::io::{AsyncReadExt, AsyncWriteExt};
    core::wipe_dir(dir);
    rdest::verif::clear_snapshots();
    rdest::verif::set_choices(vec![]);
    rdest::verif::set_net(None);
    rdest::verif::publish_listen_addr(None);
    let rt = tokio::runtime::Builder::new_current_thread().enable_all().build().map_err(|e| e.to_string())?;
    let local = tokio::task::LocalSet::new();
    let meta = t.meta.clone();
    let res = local.block_on(&rt, async {
        rdest::verif::set_http(Some(Box::new(move |_req: &reqwest::Request| crate::httpfake::respond(200, crate::fullworld::tracker_body(&[])))));
        let mut session = rdest::Session::new(meta, *crate::world::OWN_ID);
        let session_task = tokio::task::spawn_local(async move { session.verif_run().await });
        let mut addr = None;
        for _ in 0..400 {
            tokio::time::sleep(std::time::Duration::from_millis(5)).await;
            if let Some(a) = rdest::verif::listen_addr() {
                addr = Some(a);
                break;
            }
        }
        let addr = addr.ok_or("the session never published its listening address".to_string())?;
        let mut sock = tokio::net::TcpStream::connect(("127.0.0.1", addr.port())).await.map_err(|e| format!("cannot dial the client: {}", e))?;
        sock.set_nodelay(true).ok();
        let mut buf = vec![0u8; 65536];
        let mut before = vec![];
        let mut after = vec![];
        let mut closed = false;
        match tokio::time::timeout(std::time::Duration::from_millis(300), sock.read(&mut buf)).await {
            Ok(Ok(0)) | Ok(Err(_)) => closed = true,
            Ok(Ok(n)) => before.extend_from_slice(&buf[..n]),
            Err(_) => {}
        }
        for c in chunks {
            if closed || sock.write_all(&c).await.is_err() {
                closed = true;
                break;
            }
            tokio::time::sleep(std::time::Duration::from_millis(30)).await;
        }
        if fin && !closed {
            let _ = sock.shutdown().await;
        }
        // read until the client closes; otherwise until it has been quiet for 400 ms — but (so that
        // a slow machine does not look like a silent client) not before `min_wait` has passed when
        // nothing at all has arrived yet, and for at most 6 s
        let began = std::time::Instant::now();
        let min_wait = std::time::Duration::from_millis(1500);
        while !closed && began.elapsed() < std::time::Duration::from_secs(6) {
            match tokio::time::timeout(std::time::Duration::from_millis(400), sock.read(&mut buf)).await {
                Ok(Ok(0)) | Ok(Err(_)) => closed = true,
                Ok(Ok(n)) => after.extend_from_slice(&buf[..n]),
                Err(_) => {
                    if !after.is_empty() || began.elapsed() >= min_wait {
                        break;
                    }
                }
            }
        }
        // the manager's reaction to the end of the connection (KillReq) may take a moment longer
        let mut snap = rdest::verif::session_snapshot();
        let waited = std::time::Instant::now();
        while fin && waited.elapsed() < std::time::Duration::from_secs(4) && snap.as_ref().map(|s| !s.peers.is_empty()).unwrap_or(true) {
            tokio::time::sleep(std::time::Duration::from_millis(50)).await;
            snap = rdest::verif::session_snapshot();
        }
        session_task.abort();
        Ok::<_, String>((before, after, closed, snap))
    });
    rdest::verif::set_http(None);
    res
}

/// Subprocess body (`rdv --probe viewrun <scenario>`; stdout is discarded by the parent): the
/// scenario's default fair continuation from the initial state, with the session started through
/// its public entry point `Session::run()` — progress view, its bounded log channel and its 100 ms
/// animation timer included. Exit 0: completed with identical files; 3: not (reason on stderr).
pub fn viewrun_main(args: &[String]) -> i32 {
    let name = args.get(0).cloned().unwrap_or_default();
    crate::fullworld::WITH_VIEW.store(true, std::sync::atomic::Ordering::Relaxed);
    core::set_quiet_panics(true);
    let dir = core::private_cwd("c02", "viewrun");
    for (s, _) in scenarios(false).into_iter().chain(unseamed_extra()) {
        if s.name() == name {
            let mut r = explore::replay(&s, &dir, &[], false);
            if r.violation.is_none() {
                r.violation = explore::Sys::final_check(&s, &mut r.world, &mut r.mon, false);
            }
            return match r.violation {
                None => 0,
                Some((class, why)) => {
                    eprintln!("{} {}", class, why);
                    3
                }
            };
        }
    }
    eprintln!("unknown scenario {}", name);
    2
}

/// One seeder, pieces just over 2 MiB (tokio's file writes are chunked at 2 MiB): the in-memory fair
/// continuation from the initial state, with every state invariant (incl. 'Have implies a stored
/// verified piece') evaluated along the way and the output compared at the end.
pub fn big_piece_run(dir: &PathBuf) -> Option<(&'static str, String)> {
    let base = Swarm { label: "", piece_len: 5, files: vec![("f", 13)], single: true, owners: vec![], may_close: vec![], by_have: vec![], with_choke: false, with_interest: false, with_segmentation: false, ticks: 0, tie_breaks: false, races: false, same_addr: vec![], tracker_first: None, tracker_later: None, gated: false, focus: Focus::All, present_id_of: vec![], inert: vec![], refuse_after_close: vec![] };
    let plen = (2 << 20) + 16384 + 5;
    let s = Swarm { label: "e2e-pieces-over-2MiB-1seeder", piece_len: plen, files: vec![("f", plen + 70000)], single: true, owners: vec![own(2, &[0, 1])], may_close: vec![false], by_have: vec![false], ..base };
    let (mut w, mut mon) = s.build(dir);
    s.final_check(&mut w, &mut mon, false)
}

/// Subprocess body (`rdv --probe fsfault`): the process may not write files longer than 20 000 bytes
/// (RLIMIT_FSIZE, SIGXFSZ ignored), so storing a 40 000-byte piece fails part-way (as on a full
/// disk). One honest seeder; 60 fair events; after each the storage invariants must hold: a piece
/// that could not be stored completely is not owned, announced or left behind as a piece file.
/// Exit 0: held; 3: violated (class and text on stderr).
pub fn fsfault_main() -> i32 {
    unsafe {
        libc::signal(libc::SIGXFSZ, libc::SIG_IGN);
        let lim = libc::rlimit { rlim_cur: 20_000, rlim_max: 20_000 };
        if libc::setrlimit(libc::RLIMIT_FSIZE, &lim) != 0 {
            eprintln!("setrlimit failed");
            return 2;
        }
    }
    core::set_quiet_panics(true);
    let dir = core::private_cwd("c01", "fsfault");
    let base = Swarm { label: "", piece_len: 5, files: vec![("f", 13)], single: true, owners: vec![], may_close: vec![], by_have: vec![], with_choke: false, with_interest: false, with_segmentation: false, ticks: 0, tie_breaks: false, races: false, same_addr: vec![], tracker_first: None, tracker_later: None, gated: false, focus: Focus::Storage, present_id_of: vec![], inert: vec![], refuse_after_close: vec![] };
    let s = Swarm { label: "fsfault-40000+100-1seeder", piece_len: 40_000, files: vec![("f", 40_100)], single: true, owners: vec![own(2, &[0, 1])], may_close: vec![false], by_have: vec![false], ..base };
    let (mut w, mut mon) = s.build(&dir);
    let mut failed_writes = 0;
    for _ in 0..60 {
        let next = s.peer_events(&w, &mon, 0, true).into_iter().next().unwrap_or_else(|| "tick".to_string());
        s.apply(&mut w, &mon, &next, &[], false);
        if let Some((class, why)) = s.check(&w, &mut mon, Some(&next)) {
            eprintln!("{} after a piece-file write failed part-way: {}", class, why);
            return 3;
        }
        if let Some(p) = w.panics.first() {
            eprintln!("task-panicked {}", p);
            return 3;
        }
        // every *.piece file in the download directory must hash to its name
        if let Ok(rd) = std::fs::read_dir(&w.dir) {
            for e in rd.flatten() {
                let name = e.file_name().to_string_lossy().to_string();
                if let Some(hex) = name.strip_suffix(".piece") {
                    let data = std::fs::read(e.path()).unwrap_or_default();
                    if core::hex(&core::sha1(&data)).to_uppercase() != hex.to_uppercase() {
                        eprintln!("stored-piece-file-does-not-hash-to-its-name {} holds {} bytes that hash to something else (a write failed part-way)", name, data.len());
                        return 3;
                    }
                }
            }
        }
        if mon.p[0].closes > 0 || !s.live(&w, 0) {
            failed_writes += 1;
        }
    }
    let owned0 = w.snap().map(|s| s.statuses[0] == Status::Have).unwrap_or(false);
    if owned0 {
        eprintln!("vacuous: the 40 000-byte piece was stored despite the 20 000-byte limit");
        return 2;
    }
    let _ = failed_writes;
    0
}

fn unseamed_part(ctx: &Ctx) -> (u64, Vec<Value>) {
    let dir = core::private_cwd("c02", "unseamed");
    core::set_quiet_panics(true);
    let mut rows = vec![];
    let mut n = 0;
    for (s, _) in scenarios(false).into_iter().filter(|(s, _)| s.owners.len() == 1) .chain(unseamed_extra()) {
        n += 1;
        let a = pipe_transcript(&s, &dir);
        let b = tcp_transcript(&s, &dir);
        let want_outputs: Vec<(PathBuf, Vec<u8>)> = s.torrent().expected_outputs();
        match (a, b) {
            (Ok((ma, oa)), Ok((mb, ob))) => {
                if ma != mb || oa != ob || ob != want_outputs {
                    ctx.machinery_error(format!("unseamed replay of {} differs: in-memory {:?} / loopback TCP {:?}; outputs equal: {} / correct: {}", s.name(), ma, mb, oa == ob, ob == want_outputs));
                }
                rows.push(json!({"scenario": s.name(), "messages_received_by_the_peer": mb.len(), "identical_to_in_memory_run": ma == mb, "outputs_identical": ob == want_outputs}));
            }
            (a, b) => ctx.machinery_error(format!("unseamed replay of {} could not run: {:?} / {:?}", s.name(), a.err(), b.err())),
        }
    }
    n += 1;
    match big_piece_run(&dir) {
        None => rows.push(json!({"scenario": "e2e-pieces-over-2MiB-1seeder (in memory)", "completed": true})),
        Some((class, why)) => ctx.violation(class, format!("[e2e-pieces-over-2MiB-1seeder] {}", &why[..why.len().min(500)]), json!({"scenario": "e2e-pieces-over-2MiB-1seeder", "kind": "bigpiece"})),
    }
    n += 1;
    match slow_dial_case(&dir) {
        Ok(None) => rows.push(json!({"scenario": "e2e-11-unanswered-dials-in-front-of-the-seeder (loopback TCP, real clock)", "completed": true})),
        Ok(Some((class, why))) => ctx.violation(class, format!("[e2e-11-unanswered-dials] {}", &why[..why.len().min(900)]), json!({"scenario": "e2e-11-unanswered-dials", "kind": "slowdial"})),
        Err(why) => rows.push(json!({"scenario": "e2e-11-unanswered-dials-in-front-of-the-seeder (loopback TCP, real clock)", "skipped": why})),
    }
    // the public entry point Session::run() (progress view included), in a subprocess whose stdout
    // is discarded: the fair continuation of each scenario from its initial state must complete
    let exe = std::env::current_exe().expect("current_exe");
    for (s, _) in scenarios(false).into_iter().chain(unseamed_extra()) {
        if s.gated || s.inert.iter().any(|x| *x) {
            continue;
        }
        n += 1;
        let out = std::process::Command::new(&exe).args(["--probe", "viewrun", &s.name()]).stdout(std::process::Stdio::null()).output();
        match out {
            Ok(o) if o.status.code() == Some(0) => rows.push(json!({"scenario": format!("{} (Session::run with progress view)", s.name()), "completed": true})),
            Ok(o) if o.status.code() == Some(3) => {
                let why = String::from_utf8_lossy(&o.stderr).lines().last().unwrap_or("").to_string();
                ctx.violation("download-through-the-public-entry-point-fails", format!("[{}] started with Session::run() (progress view on) the fair continuation does not complete: {}", s.name(), &why[..why.len().min(400)]), json!({"scenario": s.name(), "kind": "viewrun"}));
            }
            other => ctx.machinery_error(format!("view-run subprocess for {} failed: {:?}", s.name(), other.map(|o| (o.status, String::from_utf8_lossy(&o.stderr).chars().take(300).collect::<String>())))),
        }
    }
    // the seeder dials in (accept path of the real session, never reachable over the connect seam)
    for (s, _) in scenarios(false).into_iter().filter(|(s, _)| s.owners.len() == 1).chain(unseamed_extra()) {
        n += 1;
        let want_outputs: Vec<(PathBuf, Vec<u8>)> = s.torrent().expected_outputs();
        match dial_in_transcript(&s, &dir) {
            Ok((msgs, outs)) => {
                let hs_first = msgs.first().map(|m| m.starts_with("Handshake")).unwrap_or(false);
                if !hs_first {
                    ctx.violation("dial-in-seeder-first-message-not-handshake", format!("[{}] the client's messages to a seeder that dialled in: {:?}", s.name(), msgs), json!({"scenario": s.name(), "kind": "dial-in"}));
                } else if outs != want_outputs {
                    ctx.violation("dial-in-seeder-download-incomplete", format!("[{}] an honest seeder dialled in, handshook, sent its bitfield, unchoked and answered every request, but the output files are not the torrent's content; the client wrote {:?}", s.name(), msgs), json!({"scenario": s.name(), "kind": "dial-in"}));
                }
                rows.push(json!({"scenario": format!("{} (seeder dials in)", s.name()), "messages_received_by_the_peer": msgs.len(), "outputs_identical": outs == want_outputs}));
            }
            Err(("MACHINERY", e)) => ctx.machinery_error(format!("dial-in replay of {} could not run: {}", s.name(), e)),
            Err((class, e)) => ctx.violation(class, format!("[{}] {}", s.name(), e), json!({"scenario": s.name(), "kind": "dial-in"})),
        }
    }
    (n, rows)
}

fn unseamed_extra() -> Vec<(Swarm, usize)> {
    let base = Swarm { label: "", piece_len: 5, files: vec![("f", 13)], single: true, owners: vec![], may_close: vec![], by_have: vec![], with_choke: false, with_interest: false, with_segmentation: false, ticks: 0, tie_breaks: false, races: false, same_addr: vec![], tracker_first: None, tracker_later: None, gated: false, focus: Focus::All, present_id_of: vec![], inert: vec![], refuse_after_close: vec![] };
    vec![(Swarm { label: "e2e-2x16387-multifile-1seeder", piece_len: 16387, files: vec![("a", 100), ("d/b", 0), ("c", 16387 * 2 - 100 - 7)], single: false, owners: vec![own(2, &[0, 1])], may_close: vec![false], by_have: vec![false], ..base }, 0)]
}

pub fn run(ctx: &Ctx) -> Outcome {
    let thorough = ctx.tier == core::Tier::Thorough;
    let mut total = explore::Stats { exhaustive: true, ..Default::default() };
    let mut per = vec![];
    for (s, depth) in scenarios(thorough) {
        // debugging aid only: RDV_ONLY=<substring> restricts the run to matching scenarios
        if let Ok(only) = std::env::var("RDV_ONLY") {
            if !s.name().contains(&only) {
                continue;
            }
        }
        let depth = if thorough { depth + 3 } else { depth };
        let st = explore::bfs(ctx, &s, depth, ctx.tier.pick(60, 30));
        per.push(json!({"scenario": s.name(), "depth": depth, "states": st.states, "transitions": st.transitions, "depth_completed": st.depth_completed, "terminal_states": st.terminal_states, "frontier": st.frontier_sizes}));
        total.merge(&st);
    }
    // a big swarm: 15 connections, 10..13 of them interesting, when a tracker answer arrives (the
    // dial budget of 11 is then exhausted or exceeded): the session must survive and go on (the
    // scenario is C19's budget case, judged here as 'the session does not crash or hang')
    {
        let dir = core::private_cwd("c02", "budget");
        for j in [10usize, 11, 12, 13] {
            let (_, v) = crate::c19::budget_case(&dir, j, &[], false);
            match v {
                Some(("MACHINERY", why)) => ctx.machinery_error(why),
                Some((class, why)) => ctx.violation(class, format!("[big swarm, {} interesting connections] {}", j, &why[..why.len().min(400)]), json!({"scenario": "big-swarm", "kind": "budget", "interesting": j})),
                None => per.push(json!({"scenario": format!("big-swarm-{}-interesting", j), "completed": true})),
            }
        }
    }
    let (unseamed, unseamed_rows) = unseamed_part(ctx);
    let mut o = Outcome::new("model_checking");
    explore::stats_outcome(&total, &mut o);
    o.set("unseamed_replays", json!(unseamed));
    o.set("unseamed_replay_details", Value::Array(unseamed_rows));
    o.set("scenarios", Value::Array(per));
    o.set("rule", json!("full-session world; honest peer i: hs handshake, bf bitfield (first message) or hv next Have, un unchoke, ao/an correct answer to the oldest/newest outstanding request, as the same answer split into two reads, hb handshake+bitfield in one read, ck one choke (then un again), in/ni interest, cl disconnect (only peers whose pieces have another owner; they are offered again by the next announce), xa/xc an answer of one peer and the disconnect of another arriving before the client runs (both orders), rl release of one held-back manager broadcast to a connection task, fw completion of a piece-file re-write that is held after its truncation (gated scenario; hook 11), tick = 10 s of virtual time; inert peers (scenarios with > 11 tracker entries) only keep their connection alive and may leave; BFS over all orders to the stated depth; in every state: no task panicked, session alive, Have implies a stored verified piece, an owned piece stays owned, no connection task waits for a block its honest peer already delivered, no peer that unchokes us and has announced a piece nobody is fetching is left without a request; every state that is not expanded further must reach 'all pieces owned, extractor ran, every output file byte-identical, event loop still iterating' under the fair default continuation (each honest peer does its next scripted action, otherwise time passes up to a 900 s horizon)."));
    o.assume("unseamed replays: the one-seeder downloads are repeated with the connect seam inactive — the real Session connects over loopback TCP (real clock) to an honest seeder in the harness; the sequence of messages that seeder receives and the extracted files must equal those of the in-memory run (a mismatch is a machinery error)");
    o.assume("fairness: honest peers eventually unchoke, answer every valid request, and an interested peer eventually loses interest or leaves; the explored world has outgoing connections only (an incoming one needs a real socket, which cannot be mixed with the paused clock); Session::run() itself (progress view, its bounded log channel and animation timer) is bound by the view-run replays: every ungated scenario's fair continuation from the initial state is run in a subprocess through the public entry point and must complete; the accept path is bound by the dial-in replays: for the one-seeder scenarios an honest seeder dials the real session over loopback TCP (real clock, tracker lists nobody): nothing may arrive before its handshake, the client's first message is its handshake, and the download must complete with identical files; every tie-break of the piece chooser is enumerated");
    o
}

pub fn replay(_ctx: &Ctx, r: &Value) -> i32 {
    let name = r["scenario"].as_str().unwrap();
    if r["kind"] == "budget" {
        let dir = core::private_cwd("c02", "replay");
        let (_, v) = crate::c19::budget_case(&dir, r["interesting"].as_u64().unwrap() as usize, &[], true);
        return match v {
            None => 0,
            Some((class, why)) => {
                println!("VIOLATION property=C02 replay=<this file>\n  class={} {}", class, why);
                1
            }
        };
    }
    if r["kind"] == "slowdial" {
        let dir = core::private_cwd("c02", "replay");
        return match slow_dial_case(&dir) {
            Ok(None) => {
                println!("holds");
                0
            }
            Ok(Some((class, why))) => {
                println!("VIOLATION property=C02 replay=<this file>\n  class={} {}", class, why);
                1
            }
            Err(why) => {
                println!("MACHINERY: the run could not be set up: {}", why);
                2
            }
        };
    }
    if r["kind"] == "bigpiece" {
        let dir = core::private_cwd("c02", "replay");
        return match big_piece_run(&dir) {
            None => {
                println!("holds");
                0
            }
            Some((class, why)) => {
                println!("VIOLATION property=C02 replay=<this file>\n  class={} {}", class, why);
                1
            }
        };
    }
    if r["kind"] == "viewrun" {
        let exe = std::env::current_exe().expect("current_exe");
        let out = std::process::Command::new(&exe).args(["--probe", "viewrun", name]).stdout(std::process::Stdio::null()).output().expect("subprocess");
        println!("view-run of {}: exit {:?}, stderr: {}", name, out.status.code(), String::from_utf8_lossy(&out.stderr));
        return if out.status.code() == Some(0) { 0 } else { 1 };
    }
    if r["kind"] == "dial-in" {
        let dir = core::private_cwd("c02", "replay");
        for (s, _) in scenarios(false).into_iter().chain(unseamed_extra()) {
            if s.name() == name {
                let want: Vec<(PathBuf, Vec<u8>)> = s.torrent().expected_outputs();
                return match dial_in_transcript(&s, &dir) {
                    Ok((msgs, outs)) if outs == want && msgs.first().map(|m| m.starts_with("Handshake")).unwrap_or(false) => {
                        println!("holds: the client wrote {:?}, outputs identical", msgs);
                        0
                    }
                    other => {
                        println!("VIOLATION property=C02 replay=<this file>\n  class=dial-in {:?}", other.map(|(m, o)| (m, o == want)));
                        1
                    }
                };
            }
        }
    }
    for thorough in [false, true] {
        for (s, _) in scenarios(thorough).into_iter().chain(storage_scenarios()).chain(reservation_scenarios()).chain(identity_scenarios()) {
            if s.name() == name {
                return explore::replay_verbose(&s, &explore::hist_from_json(&r["history"]), "C02");
            }
        }
    }
    eprintln!("unknown scenario {}", name);
    2
}
