//! C03 — verified pieces are reassembled into exactly the described files.
//! E-ENUM over every (piece length, file-length list) geometry within the bound; the real
//! `Metainfo` parses a harness-built document, the real `Extractor::run()` works on real piece files
//! in a per-thread scratch directory; oracle = slicing the concatenated content.

use crate::core::{self, Ctx, Outcome};
use crate::fixture::Torrent;
use crate::httpfake;
use rdest::verif::{Extractor, ExtractorCmd};
use serde_json::{json, Value};
use std::path::Path;

#[derive(Clone, Debug)]
pub struct Geo {
    pub p: usize,
    pub files: Vec<usize>,
    pub single: bool,
    /// 0: f0, sub/f1, v1..2/f2.., ..f3; 1: siblings that share a stem and look like scratch names
    /// (a.part, a.txt, a, a.tmp); 2: directories named like the start of the previous entry's
    /// directory (photos-raw/, photos/, photos/v10/, photos/v1/).
    pub style: u8,
}

pub fn geometries(ps: &[usize], max_files: usize) -> Vec<Geo> {
    let mut out = vec![];
    for &p in ps {
        let max_len = 2 * p + 1;
        let max_total = 3 * p + 2;
        fn rec(p: usize, max_len: usize, left: usize, max_files: usize, cur: &mut Vec<usize>, out: &mut Vec<Geo>) {
            if !cur.is_empty() {
                out.push(Geo { p, files: cur.clone(), single: false, style: 0 });
                if cur.len() == 1 {
                    out.push(Geo { p, files: cur.clone(), single: true, style: 0 });
                } else {
                    out.push(Geo { p, files: cur.clone(), single: false, style: 1 });
                    out.push(Geo { p, files: cur.clone(), single: false, style: 2 });
                }
            }
            if cur.len() == max_files {
                return;
            }
            for l in 0..=max_len.min(left) {
                cur.push(l);
                rec(p, max_len, left - l, max_files, cur, out);
                cur.pop();
            }
        }
        rec(p, max_len, max_total, max_files, &mut vec![], &mut out);
    }
    out
}

pub fn run_extractor(rt: &tokio::runtime::Runtime, t: &Torrent) -> Result<ExtractorCmd, String> {
    let meta = t.meta.clone();
    core::catch(|| {
        rt.block_on(async move {
            let (tx, mut rx) = tokio::sync::mpsc::channel(4);
            let mut ex = Extractor::new(meta, tx);
            ex.run().await;
            rx.try_recv().expect("extractor sent nothing")
        })
    })
}

pub fn check_geo(rt: &tokio::runtime::Runtime, dir: &Path, g: &Geo) -> Option<(&'static str, String)> {
    core::wipe_dir(dir);
    // names: plain, in a subdirectory, and (third and fourth file) with runs of dots inside a
    // component, which are ordinary names
    let names: Vec<String> = if g.style == 2 {
        // directories whose names are text prefixes of their predecessor's without being ancestors
        (0..g.files.len()).map(|i| match i % 4 { 0 => "photos-raw/f0".to_string(), 1 => "photos/f1".to_string(), 2 => "photos/v10/f2".to_string(), _ => "photos/v1/f3".to_string() }).collect()
    } else if g.style == 1 {
        (0..g.files.len()).map(|i| match i % 4 { 0 => "a.part".to_string(), 1 => "a.txt".to_string(), 2 => "a".to_string(), _ => "a.tmp".to_string() }).collect()
    } else {
        (0..g.files.len()).map(|i| match i % 4 { 0 => format!("f{}", i), 1 => format!("sub/f{}", i), 2 => format!("v1..2/f{}..", i), _ => format!("..f{}", i) }).collect()
    };
    let files: Vec<(&str, usize)> = names.iter().map(|n| n.as_str()).zip(g.files.iter().cloned()).collect();
    let t = Torrent::new("T", g.p, &files, g.single);
    let total = t.total();
    // the statement's premise: the piece count matches the total length
    assert_eq!(t.meta.pieces_num(), (total + g.p - 1) / g.p);

    // per-piece lengths partition the content
    let lens = match core::catch(|| (0..t.meta.pieces_num()).map(|i| t.meta.piece_length(i)).collect::<Vec<_>>()) {
        Ok(l) => l,
        Err(p) => return Some(("piece_length-panic", format!("{:?}: {}", g, p))),
    };
    if lens.iter().sum::<usize>() != total || lens.iter().any(|l| *l > g.p || *l == 0) || lens.iter().zip(t.pieces.iter()).any(|(l, p)| *l != p.len()) {
        return Some(("piece-lengths-do-not-partition", format!("{:?}: piece_length = {:?}, total {}", g, lens, total)));
    }

    for i in 0..t.pieces.len() {
        t.store_piece(dir, i);
    }
    // two extractions: into the empty download directory, and again after every output path was
    // overwritten with a longer file of other bytes (an earlier release, an interrupted run): the
    // result must be exactly the described files both times
    for pass in 0..2 {
        if pass == 1 {
            for (rel, want) in t.expected_outputs().iter() {
                let _ = std::fs::write(dir.join(rel), vec![0xEEu8; want.len() + 5]);
            }
        }
        if let Some(v) = extract_and_compare(rt, dir, g, &t) {
            return Some(if pass == 1 && v.0 == "file-content-differs" { ("stale-bytes-survive-extraction", format!("(output files existed before, each 5 bytes longer, filled with 0xEE) {}", v.1)) } else { v });
        }
    }
    None
}

fn extract_and_compare(rt: &tokio::runtime::Runtime, dir: &Path, g: &Geo, t: &Torrent) -> Option<(&'static str, String)> {
    let res = match run_extractor(rt, t) {
        Ok(r) => r,
        Err(p) => return Some(("extractor-panic", format!("{:?}: {}", g, p))),
    };
    if let ExtractorCmd::Fail(e) = &res {
        return Some(("extraction-fails", format!("{:?}: extractor reported {}", g, e)));
    }
    // files: position of each file in the content decides the class of a mismatch
    let mut pos = 0;
    for ((rel, want), len) in t.expected_outputs().iter().zip(g.files.iter()) {
        let got = std::fs::read(dir.join(rel));
        let start_off = pos % g.p;
        let inside_one_piece = *len > 0 && pos / g.p == (pos + len - 1) / g.p;
        pos += len;
        match got {
            Ok(bytes) if &bytes == want => {}
            other => {
                let class = if *len == 0 && start_off != 0 {
                    "zero-length-file-at-nonzero-offset"
                } else if inside_one_piece && start_off != 0 {
                    "file-inside-one-piece-at-nonzero-offset"
                } else {
                    "file-content-differs"
                };
                let got_desc = match other {
                    Ok(b) => format!("{} bytes {}", b.len(), core::hex(&b[..b.len().min(16)])),
                    Err(e) => format!("unreadable: {}", e),
                };
                return Some((class, format!("{:?}: file {} should be {} bytes {} but is {}", g, rel.display(), want.len(), core::hex(&want[..want.len().min(16)]), got_desc)));
            }
        }
    }
    None
}

/// Realistic piece sizes: total = 2p + 5, files = the segments between every choice of at most
/// `max_cuts` cut points from a set of offsets around the piece boundaries, the 8 KiB mark (buffer
/// size of a buffered reader) and a few interior points.
pub fn large_geometries(ps: &[usize], max_cuts: usize) -> Vec<Geo> {
    let mut out = vec![];
    for &p in ps {
        let total = 2 * p + 5;
        let mut marks: Vec<usize> = vec![1, 1000, 8191, 8192, 8193, 12000, p - 1, p, p + 1, p + 1000, p + 8192, p + 8193, 2 * p, 2 * p + 4];
        marks.retain(|m| *m > 0 && *m < total);
        marks.sort();
        marks.dedup();
        let n = marks.len();
        let mut cuts_sets: Vec<Vec<usize>> = vec![vec![]];
        for a in 0..n {
            cuts_sets.push(vec![marks[a]]);
            for b in (a + 1)..n {
                if max_cuts >= 2 {
                    cuts_sets.push(vec![marks[a], marks[b]]);
                }
                for c in (b + 1)..n {
                    if max_cuts >= 3 {
                        cuts_sets.push(vec![marks[a], marks[b], marks[c]]);
                    }
                }
            }
        }
        for cuts in cuts_sets {
            let mut files = vec![];
            let mut prev = 0;
            for c in cuts.iter().chain(std::iter::once(&total)) {
                files.push(c - prev);
                prev = *c;
            }
            out.push(Geo { p, files, single: false, style: 0 });
        }
    }
    out
}

/// A single-file torrent whose file is named like the piece file of its own piece `k`
/// (`<HEX SHA-1>.piece`): output and piece store share the download directory.
pub fn check_clash(rt: &tokio::runtime::Runtime, dir: &Path, p: usize, total: usize, k: usize) -> Option<(&'static str, String)> {
    core::wipe_dir(dir);
    let t0 = Torrent::new("T", p, &[("f", total)], true);
    let name = t0.piece_file(k);
    let t = Torrent::new(&name, p, &[("f", total)], true);
    for i in 0..t.pieces.len() {
        t.store_piece(dir, i);
    }
    let res = match run_extractor(rt, &t) {
        Ok(r) => r,
        Err(pn) => return Some(("extractor-panic", format!("single file named {}: {}", name, pn))),
    };
    let got = std::fs::read(dir.join(&name)).unwrap_or_default();
    if got != t.content {
        return Some(("output-file-named-like-own-piece-file", format!("single-file torrent of {} bytes, piece length {}, whose file is named like the stored file of its piece {} ({}): the extractor said {:?}; the output has {} bytes and {} the content", total, p, k, name, res, got.len(), if got == t.content { "equals" } else { "differs from" })));
    }
    None
}

pub fn run(ctx: &Ctx) -> Outcome {
    let ps: Vec<usize> = ctx.tier.pick(vec![1, 2, 3, 4, 5], vec![1, 2, 3, 4, 5, 6, 7, 8, 9, 10, 12, 16]);
    let mut geos = geometries(&ps, ctx.tier.pick(3, 4));
    geos.extend(large_geometries(&ctx.tier.pick(vec![16384usize], vec![8192usize, 8193, 16384, 20000, 65536]), ctx.tier.pick(2, 3)));
    // piece lengths beyond the client's own default of 256 KiB (and beyond 2 MiB in the thorough tier)
    geos.extend(large_geometries(&ctx.tier.pick(vec![262145usize, 300000], vec![262143usize, 262144, 262145, 300000, 524288, 2097153]), 1));
    let res = core::par_map(
        &geos,
        |w| {
            core::set_quiet_panics(true);
            (httpfake::runtime(), core::private_cwd("c03", &format!("w{}", w)))
        },
        |(rt, dir), _, g| check_geo(rt, dir, g),
    );
    let mut multi_in_piece = 0u64;
    for (g, r) in geos.iter().zip(res.iter()) {
        // non-trivial: some file starts strictly inside a piece
        let mut pos = 0;
        let mut nt = false;
        for l in &g.files {
            if pos % g.p != 0 {
                nt = true;
            }
            pos += l;
        }
        if nt {
            multi_in_piece += 1;
        }
        if let Some((class, summary)) = r {
            ctx.violation(class, summary.clone(), json!({"p": g.p, "files": g.files, "single": g.single, "style": g.style}));
        }
    }
    // output named like one of the torrent's own piece files
    let mut clashes = 0u64;
    {
        let rt = httpfake::runtime();
        let dir = core::private_cwd("c03", "clash");
        for (p, total) in ctx.tier.pick(vec![(16usize, 40usize), (5, 13)], vec![(16usize, 40usize), (5, 13), (1, 3), (16384, 40000)]) {
            for k in 0..(total + p - 1) / p {
                clashes += 1;
                if let Some((class, summary)) = check_clash(&rt, &dir, p, total, k) {
                    ctx.violation(class, summary, json!({"kind": "clash", "p": p, "total": total, "k": k}));
                }
            }
        }
    }
    // long file lists under the usual descriptor limit (soft RLIMIT_NOFILE 1024 while these run; the
    // worker threads of the enumeration above have ended)
    let mut long_lists = 0u64;
    {
        let rt = httpfake::runtime();
        let dir = core::private_cwd("c03", "longlist");
        for n in ctx.tier.pick(vec![1500usize], vec![300usize, 1100, 1500, 4000]) {
            long_lists += 1;
            let g = Geo { p: 64, files: (0..n).map(|i| 1 + (i * 7) % 40).collect(), single: false, style: 0 };
            let r = with_nofile_limit(1024, || check_geo(&rt, &dir, &g));
            if let Some((class, summary)) = r {
                let short = summary.rfind("}:").map(|i| summary[i + 2..].to_string()).unwrap_or(summary.clone());
                ctx.violation(class, format!("[{} files of 1..=40 bytes, piece length 64, soft RLIMIT_NOFILE 1024]{}", n, &short[..short.len().min(400)]), json!({"kind": "longlist", "n": n}));
            }
        }
        core::wipe_dir(&dir);
    }
    let mut o = Outcome::new("exploration");
    o.set("long_file_lists", json!(long_lists));
    o.set("name_clash_cases", json!(clashes));
    o.set("evaluations", json!(geos.len() as u64 + clashes));
    o.set("distinct_nontrivial", json!(multi_in_piece));
    o.set("rule", json!(format!("every piece length p in {:?} x every list of 1..={} file lengths each in 0..=2p+1 with total <= 3p+2 (single-file form and files-list form for one file); plus realistic piece sizes (16384; thorough also 8192, 8193, 20000, 65536; with at most one cut point also 262145 and 300000, thorough 262143..2097153: beyond the 256 KiB the client uses for its own torrents): total 2p+5, files = segments between every choice of <= 2 (thorough 3) cut points from the offsets {{1, 1000, 8191, 8192, 8193, 12000, p-1, p, p+1, p+1000, p+8192, p+8193, 2p, 2p+4}}; file names in three styles (f0, sub/f1, v1..2/f2.., ..f3; siblings sharing a stem that look like scratch names: a.part, a.txt, a, a.tmp; directories named like the start of the previous entry's directory: photos-raw/, photos/, photos/v10/, photos/v1/); each geometry extracted twice: into an empty directory and over pre-existing longer output files; plus single-file torrents whose file is named like the stored file of one of their own pieces (every piece k of four small geometries); all geometries distinct; non-trivial = at least one file starts strictly inside a piece", ps, ctx.tier.pick(3, 4))));
    let picks = ctx.seeded_pick(geos.len(), 5);
    o.set("samples", Value::Array(picks.iter().map(|i| json!({"p": geos[*i].p, "files": geos[*i].files, "single": geos[*i].single, "style": geos[*i].style})).collect()));
    o.set("exhaustive", json!(true));
    o.assume("content is position-coded (distinct byte per offset within the bound), so misplaced bytes are visible; nothing is claimed beyond the stated geometry bound");
    o
}

/// Run `f` with the soft limit on open descriptors lowered to `limit` (restored afterwards).
pub fn with_nofile_limit<T>(limit: u64, f: impl FnOnce() -> T) -> T {
    let mut old = libc::rlimit { rlim_cur: 0, rlim_max: 0 };
    let got = unsafe { libc::getrlimit(libc::RLIMIT_NOFILE, &mut old) } == 0;
    if got && old.rlim_cur > limit {
        let new = libc::rlimit { rlim_cur: limit, rlim_max: old.rlim_max };
        unsafe { libc::setrlimit(libc::RLIMIT_NOFILE, &new) };
    }
    let r = f();
    if got {
        unsafe { libc::setrlimit(libc::RLIMIT_NOFILE, &old) };
    }
    r
}

pub fn replay(_ctx: &Ctx, r: &Value) -> i32 {
    if r["kind"] == "longlist" {
        let rt = httpfake::runtime();
        let dir = core::private_cwd("c03", "replay");
        let n = r["n"].as_u64().unwrap() as usize;
        let g = Geo { p: 64, files: (0..n).map(|i| 1 + (i * 7) % 40).collect(), single: false, style: 0 };
        let res = with_nofile_limit(1024, || check_geo(&rt, &dir, &g));
        core::wipe_dir(&dir);
        return match res {
            Some((class, s)) => {
                let short = s.rfind("}:").map(|i| s[i + 2..].to_string()).unwrap_or(s.clone());
                println!("VIOLATION property=C03 replay=<this file>\n  class={} [{} files]{}", class, n, &short[..short.len().min(400)]);
                1
            }
            None => {
                println!("holds for this case");
                0
            }
        };
    }
    if r["kind"] == "clash" {
        let rt = httpfake::runtime();
        let dir = core::private_cwd("c03", "replay");
        return match check_clash(&rt, &dir, r["p"].as_u64().unwrap() as usize, r["total"].as_u64().unwrap() as usize, r["k"].as_u64().unwrap() as usize) {
            Some((class, s)) => {
                println!("VIOLATION property=C03 replay=<this file>\n  class={} {}", class, s);
                1
            }
            None => {
                println!("holds for this case");
                0
            }
        };
    }
    let g = Geo {
        p: r["p"].as_u64().unwrap() as usize,
        files: r["files"].as_array().unwrap().iter().map(|x| x.as_u64().unwrap() as usize).collect(),
        single: r["single"].as_bool().unwrap(),
        style: r["style"].as_u64().unwrap_or(0) as u8,
    };
    let rt = httpfake::runtime();
    let dir = core::private_cwd("c03", "replay");
    println!("geometry {:?}", g);
    match check_geo(&rt, &dir, &g) {
        Some((class, s)) => {
            println!("VIOLATION property=C03 replay=<this file>\n  class={} {}", class, s);
            1
        }
        None => {
            println!("holds for this geometry");
            0
        }
    }
}
