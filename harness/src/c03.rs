use crate::core::{Ctx, Outcome};
use serde_json::Value;
pub fn run(_ctx: &Ctx) -> Outcome { unimplemented!() }
pub fn replay(_ctx: &Ctx, _r: &Value) -> i32 { 2 }
