//! C04 — extraction never writes outside the download directory.
//! E-ENUM over name / path strings built from a small component alphabet (including "..", ".",
//! empty components and absolute paths pointing at a canary directory); oracle = recursive listing
//! of a disposable root that contains the download directory eight levels down.

use crate::core::{self, Ctx, Outcome};
use crate::fixture::Torrent;
use crate::httpfake;
use serde_json::{json, Value};
use std::collections::BTreeSet;
use std::path::{Path, PathBuf};

const COMPONENTS: [&str; 5] = ["a", "b", "..", ".", ""];
const NEST: &str = "l1/l2/l3/l4/l5/l6/l7/l8";

#[derive(Clone, Debug)]
pub struct Case {
    pub name: String,
    /// None = single-file torrent; Some(path) = multi-file torrent whose first file has this path.
    pub path: Option<String>,
}

fn strings(max_components: usize, abs_prefix: &str) -> Vec<String> {
    let mut rel: Vec<String> = vec![];
    let mut level: Vec<Vec<&str>> = vec![vec![]];
    for _ in 0..max_components {
        let mut next = vec![];
        for prefix in &level {
            for c in COMPONENTS {
                let mut v = prefix.clone();
                v.push(c);
                rel.push(v.join("/"));
                next.push(v);
            }
        }
        level = next;
    }
    rel.sort();
    rel.dedup();
    let mut out = rel.clone();
    for r in &rel {
        // absolute: pointing into the canary directory (a bare leading '/' would aim at the real
        // filesystem root, which a check must not litter)
        out.push(format!("{}/{}", abs_prefix, r));
    }
    out.sort();
    out.dedup();
    out
}

fn listing(root: &Path) -> BTreeSet<PathBuf> {
    fn walk(dir: &Path, out: &mut BTreeSet<PathBuf>) {
        if let Ok(rd) = std::fs::read_dir(dir) {
            for e in rd.flatten() {
                let p = e.path();
                out.insert(p.clone());
                if p.is_dir() && !p.is_symlink() {
                    walk(&p, out);
                }
            }
        }
    }
    let mut out = BTreeSet::new();
    walk(root, &mut out);
    out
}

pub struct Env {
    pub rt: tokio::runtime::Runtime,
    pub root: PathBuf,
    pub cwd: PathBuf,
    pub canary: PathBuf,
}

pub fn env(worker: &str) -> Env {
    let cwd = core::private_cwd("c04", &format!("{}/{}", worker, NEST));
    let root = core::scratch_root().join("c04").join(worker);
    let canary = root.join("c1/c2/c3/c4/c5/canary");
    Env { rt: httpfake::runtime(), root, cwd, canary }
}

fn reset(env: &Env) {
    // wipe everything under root except the chain of nest directories
    core::wipe_dir(&env.cwd);
    let mut d = env.cwd.clone();
    while d != env.root {
        let parent = d.parent().unwrap().to_path_buf();
        if let Ok(rd) = std::fs::read_dir(&parent) {
            for e in rd.flatten() {
                if e.path() != d {
                    if e.path().is_dir() {
                        let _ = std::fs::remove_dir_all(e.path());
                    } else {
                        let _ = std::fs::remove_file(e.path());
                    }
                }
            }
        }
        d = parent;
    }
    std::fs::create_dir_all(&env.canary).unwrap();
}

pub fn check_case(env: &Env, c: &Case) -> Option<(&'static str, String)> {
    reset(env);
    let t = match &c.path {
        None => Torrent::try_new(&c.name, 4, &[("ignored", 3)], true),
        Some(p) => Torrent::try_new(&c.name, 4, &[(p.as_str(), 2), ("ok", 1)], false),
    };
    let t = match t {
        Ok(t) => t,
        Err(e) if e.starts_with("PANIC") => return Some(("metainfo-panic", format!("{:?}: {}", c, e))),
        Err(_) => return None, // refused when the .torrent is read: nothing is extracted at all
    };
    t.store_piece(&env.cwd, 0);
    let before = listing(&env.root);
    let res = crate::c03::run_extractor(&env.rt, &t);
    let after = listing(&env.root);
    if let Err(p) = res {
        return Some(("extractor-panic", format!("{:?}: {}", c, p)));
    }
    let created: Vec<PathBuf> = after.difference(&before).cloned().collect();
    let outside: Vec<&PathBuf> = created.iter().filter(|p| !p.starts_with(&env.cwd)).collect();
    if !outside.is_empty() {
        let abs = c.name.starts_with('/') || c.path.as_deref().map(|p| p.starts_with('/')).unwrap_or(false);
        let class = if abs { "absolute-path-followed" } else { "parent-components-followed" };
        return Some((class, format!("{:?}: created outside the download directory: {:?}", c, outside.iter().map(|p| p.strip_prefix(&env.root).map(|r| r.display().to_string()).unwrap_or_else(|_| p.display().to_string())).collect::<Vec<_>>())));
    }
    // multi-file torrent with an ordinary one-component name: everything belongs under cwd/name
    if c.path.is_some() && (c.name == "a" || c.name == "b") {
        let sub = env.cwd.join(&c.name);
        let stray: Vec<&PathBuf> = created.iter().filter(|p| !p.starts_with(&sub)).collect();
        if !stray.is_empty() {
            return Some((
                "escapes-torrent-subdirectory",
                format!("{:?}: created outside ./{}: {:?}", c, c.name, stray.iter().map(|p| p.strip_prefix(&env.cwd).unwrap().display().to_string()).collect::<Vec<_>>()),
            ));
        }
    }
    None
}

pub fn cases(thorough: bool, canary: &str) -> Vec<Case> {
    let mut out = vec![];
    for n in strings(3, canary) {
        out.push(Case { name: n, path: None });
    }
    let names = strings(if thorough { 2 } else { 1 }, canary);
    let paths = strings(3, canary);
    for n in &names {
        for p in &paths {
            out.push(Case { name: n.clone(), path: Some(p.clone()) });
        }
    }
    out
}

pub fn run(ctx: &Ctx) -> Outcome {
    // the canary prefix differs per worker; cases carry a placeholder that is substituted there
    let all = cases(ctx.tier == core::Tier::Thorough, "@CANARY@");
    let res = core::par_map(
        &all,
        |w| {
            core::set_quiet_panics(true);
            env(&format!("w{}", w))
        },
        |env, _, c| {
            let canary = env.canary.display().to_string();
            let c2 = Case { name: c.name.replace("@CANARY@", &canary), path: c.path.as_ref().map(|p| p.replace("@CANARY@", &canary)) };
            check_case(env, &c2)
        },
    );
    let mut hostile = 0u64;
    for (c, r) in all.iter().zip(res.iter()) {
        let is_hostile = |s: &str| s.starts_with('/') || s.starts_with("@CANARY@") || s.split('/').any(|x| x == "..");
        if is_hostile(&c.name) || c.path.as_deref().map(is_hostile).unwrap_or(false) {
            hostile += 1;
        }
        if let Some((class, summary)) = r {
            ctx.violation(class, summary.clone(), json!({"name": c.name, "path": c.path}));
        }
    }
    let mut o = Outcome::new("exploration");
    o.set("evaluations", json!(all.len()));
    o.set("distinct_nontrivial", json!(hostile));
    o.set("rule", json!(format!("strings = 1..=3 components from {:?} joined by '/', each also prefixed with an absolute canary directory; single-file torrents: every such name; multi-file torrents: every name of <= {} components x every such path for the first file; all (name, path) pairs distinct; non-trivial = a '..' component or an absolute path occurs", COMPONENTS, ctx.tier.pick(1, 2))));
    let picks = ctx.seeded_pick(all.len(), 5);
    o.set("samples", Value::Array(picks.iter().map(|i| json!({"name": all[*i].name, "path": all[*i].path})).collect()));
    o.set("exhaustive", json!(true));
    o.assume("the download directory sits 8 levels and the canary 6 levels below a disposable root, so every '..' chain of the alphabet (<= 6 relative, <= 5 after the canary prefix) stays inside the listed tree; absolute paths are represented by the canary prefix only (nothing is aimed at the real filesystem root); symlinks are not in the alphabet");
    o
}

pub fn replay(_ctx: &Ctx, r: &Value) -> i32 {
    let env = env("replay");
    let canary = env.canary.display().to_string();
    let c = Case {
        name: r["name"].as_str().unwrap().replace("@CANARY@", &canary),
        path: r["path"].as_str().map(|p| p.replace("@CANARY@", &canary)),
    };
    println!("case {:?} (download directory {})", c, env.cwd.display());
    match check_case(&env, &c) {
        Some((class, s)) => {
            println!("VIOLATION property=C04 replay=<this file>\n  class={} {}", class, s);
            1
        }
        None => {
            println!("holds for this case");
            0
        }
    }
}
