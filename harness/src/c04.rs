//! C04 — extraction never writes outside the download directory.
//! E-ENUM over name / path strings built from a small component alphabet (including "..", ".",
//! empty components and absolute paths pointing at a canary directory); oracle = recursive listing
//! of a disposable root that contains the download directory eight levels down.

use crate::core::{self, Ctx, Outcome};
use crate::fixture::Torrent;
use crate::httpfake;
use serde_json::{json, Value};
use std::collections::BTreeSet;
use std::path::{Path, PathBuf};

const COMPONENTS: [&str; 5] = ["a", "b", "..", ".", ""];
const NEST: &str = "l1/l2/l3/l4/l5/l6/l7/l8";

#[derive(Clone, Debug)]
pub struct Case {
    pub name: String,
    /// None = single-file torrent; Some(path) = multi-file torrent one of whose files has this path.
    pub path: Option<String>,
    /// Which file of the torrent carries the path, and how long it is (index into LAYOUTS).
    pub layout: usize,
}

/// (description, files; "@" stands for the enumerated path). Piece length is 4: the enumerated file
/// is short / empty / spans a piece boundary, and sits first, in the middle or last.
const LAYOUTS: [(&str, &[(&str, usize)]); 7] = [
    ("first, 2 bytes", &[("@", 2), ("ok", 1)]),
    ("first, empty", &[("@", 0), ("ok", 3)]),
    ("last, empty", &[("ok", 3), ("@", 0)]),
    ("middle, empty, on a piece boundary", &[("ok", 4), ("@", 0), ("ok2", 2)]),
    ("last, 6 bytes over two pieces", &[("ok", 3), ("@", 6)]),
    ("middle, 5 bytes over two pieces", &[("ok", 1), ("@", 5), ("ok2", 1)]),
    ("only file, empty", &[("@", 0)]),
];
/// Single-file torrents: content lengths.
const SINGLE_LENGTHS: [usize; 3] = [3, 0, 9];

fn strings(max_components: usize, abs_prefix: &str) -> Vec<String> {
    let mut rel: Vec<String> = vec![];
    let mut level: Vec<Vec<&str>> = vec![vec![]];
    for _ in 0..max_components {
        let mut next = vec![];
        for prefix in &level {
            for c in COMPONENTS {
                let mut v = prefix.clone();
                v.push(c);
                rel.push(v.join("/"));
                // the same components separated by backslashes (one component on this platform; a
                // client that 'normalises' them would turn them into real separators), and mixed
                if v.len() > 1 {
                    rel.push(v.join("\\"));
                    rel.push(format!("{}\\{}", v[..v.len() - 1].join("/"), v[v.len() - 1]));
                }
                next.push(v);
            }
        }
        level = next;
    }
    rel.sort();
    rel.dedup();
    let mut out = rel.clone();
    for r in &rel {
        // absolute: pointing into the canary directory (a bare leading '/' would aim at the real
        // filesystem root, which a check must not litter)
        out.push(format!("{}/{}", abs_prefix, r));
    }
    out.sort();
    out.dedup();
    out
}

fn listing(root: &Path) -> BTreeSet<PathBuf> {
    fn walk(dir: &Path, out: &mut BTreeSet<PathBuf>) {
        if let Ok(rd) = std::fs::read_dir(dir) {
            for e in rd.flatten() {
                let p = e.path();
                out.insert(p.clone());
                if p.is_dir() && !p.is_symlink() {
                    walk(&p, out);
                }
            }
        }
    }
    let mut out = BTreeSet::new();
    walk(root, &mut out);
    out
}

pub struct Env {
    pub rt: tokio::runtime::Runtime,
    pub root: PathBuf,
    pub cwd: PathBuf,
    pub canary: PathBuf,
}

pub fn env(worker: &str) -> Env {
    let cwd = core::private_cwd("c04", &format!("{}/{}", worker, NEST));
    let root = core::scratch_root().join("c04").join(worker);
    let canary = root.join("c1/c2/c3/c4/c5/canary");
    Env { rt: httpfake::runtime(), root, cwd, canary }
}

fn reset(env: &Env) {
    // wipe everything under root except the chain of nest directories
    core::wipe_dir(&env.cwd);
    let mut d = env.cwd.clone();
    while d != env.root {
        let parent = d.parent().unwrap().to_path_buf();
        if let Ok(rd) = std::fs::read_dir(&parent) {
            for e in rd.flatten() {
                if e.path() != d {
                    if e.path().is_dir() {
                        let _ = std::fs::remove_dir_all(e.path());
                    } else {
                        let _ = std::fs::remove_file(e.path());
                    }
                }
            }
        }
        d = parent;
    }
    std::fs::create_dir_all(&env.canary).unwrap();
}

pub fn check_case(env: &Env, c: &Case) -> Option<(&'static str, String)> {
    reset(env);
    let t = match &c.path {
        None => Torrent::try_new(&c.name, 4, &[("ignored", SINGLE_LENGTHS[c.layout % SINGLE_LENGTHS.len()])], true),
        Some(p) => {
            let files: Vec<(&str, usize)> = LAYOUTS[c.layout % LAYOUTS.len()].1.iter().map(|(n, l)| (if *n == "@" { p.as_str() } else { *n }, *l)).collect();
            Torrent::try_new(&c.name, 4, &files, false)
        }
    };
    let t = match t {
        Ok(t) => t,
        Err(e) if e.starts_with("PANIC") => return Some(("metainfo-panic", format!("{:?}: {}", c, e))),
        Err(_) => return None, // refused when the .torrent is read: nothing is extracted at all
    };
    for i in 0..t.pieces.len() {
        t.store_piece(&env.cwd, i);
    }
    let before = listing(&env.root);
    let res = crate::c03::run_extractor(&env.rt, &t);
    let after = listing(&env.root);
    if let Err(p) = res {
        return Some(("extractor-panic", format!("{:?}: {}", c, p)));
    }
    let created: Vec<PathBuf> = after.difference(&before).cloned().collect();
    let outside: Vec<&PathBuf> = created.iter().filter(|p| !p.starts_with(&env.cwd)).collect();
    if !outside.is_empty() {
        let abs = c.name.starts_with('/') || c.path.as_deref().map(|p| p.starts_with('/')).unwrap_or(false);
        let class = if abs { "absolute-path-followed" } else { "parent-components-followed" };
        return Some((class, format!("{:?}: created outside the download directory: {:?}", c, outside.iter().map(|p| p.strip_prefix(&env.root).map(|r| r.display().to_string()).unwrap_or_else(|_| p.display().to_string())).collect::<Vec<_>>())));
    }
    // multi-file torrent with an ordinary one-component name: everything belongs under cwd/name
    // (a files list with a single entry is stored like a single-file torrent, directly in the
    // download directory: rdest's metainfo model calls a torrent multi-file when it lists several
    // files, and C03's oracle reads it the same way)
    if c.path.is_some() && LAYOUTS[c.layout % LAYOUTS.len()].1.len() > 1 && (c.name == "a" || c.name == "b") {
        let sub = env.cwd.join(&c.name);
        let stray: Vec<&PathBuf> = created.iter().filter(|p| !p.starts_with(&sub)).collect();
        if !stray.is_empty() {
            return Some((
                "escapes-torrent-subdirectory",
                format!("{:?}: created outside ./{}: {:?}", c, c.name, stray.iter().map(|p| p.strip_prefix(&env.cwd).unwrap().display().to_string()).collect::<Vec<_>>()),
            ));
        }
    }
    None
}

/// Long harmless prefixes in front of the parent components: a guard that looks at a bounded
/// number of components must still refuse these.
fn deep_strings() -> Vec<String> {
    let mut v = vec![];
    for depth in [31usize, 63, 64, 65, 127, 255, 256] {
        v.push(format!("{}{}a", "d/".repeat(depth), "../".repeat(depth + 2)));
        v.push(format!("{}{}x/a", "d/".repeat(depth), "../".repeat(depth + 1)));
    }
    v
}

pub fn cases(thorough: bool, canary: &str) -> Vec<Case> {
    let mut out = vec![];
    for d in deep_strings() {
        for layout in 0..SINGLE_LENGTHS.len() {
            out.push(Case { name: d.clone(), path: None, layout });
        }
        for n in ["a", ""] {
            for layout in 0..LAYOUTS.len() {
                out.push(Case { name: n.to_string(), path: Some(d.clone()), layout });
            }
        }
        for layout in [0usize, 6] {
            out.push(Case { name: d.clone(), path: Some("a".to_string()), layout });
        }
    }
    for n in strings(3, canary) {
        for layout in 0..SINGLE_LENGTHS.len() {
            out.push(Case { name: n.clone(), path: None, layout });
        }
    }
    let names = strings(if thorough { 2 } else { 1 }, canary);
    let paths = strings(3, canary);
    for n in &names {
        for p in &paths {
            for layout in 0..LAYOUTS.len() {
                out.push(Case { name: n.clone(), path: Some(p.clone()), layout });
            }
        }
    }
    out
}

pub fn run(ctx: &Ctx) -> Outcome {
    // the canary prefix differs per worker; cases carry a placeholder that is substituted there
    let all = cases(ctx.tier == core::Tier::Thorough, "@CANARY@");
    let res = core::par_map(
        &all,
        |w| {
            core::set_quiet_panics(true);
            env(&format!("w{}", w))
        },
        |env, _, c| {
            let canary = env.canary.display().to_string();
            let c2 = Case { name: c.name.replace("@CANARY@", &canary), path: c.path.as_ref().map(|p| p.replace("@CANARY@", &canary)), layout: c.layout };
            check_case(env, &c2)
        },
    );
    let mut hostile = 0u64;
    for (c, r) in all.iter().zip(res.iter()) {
        let is_hostile = |s: &str| s.starts_with('/') || s.starts_with("@CANARY@") || s.split('/').any(|x| x == "..");
        if is_hostile(&c.name) || c.path.as_deref().map(is_hostile).unwrap_or(false) {
            hostile += 1;
        }
        if let Some((class, summary)) = r {
            ctx.violation(class, summary.clone(), json!({"name": c.name, "path": c.path, "layout": c.layout}));
        }
    }
    let mut o = Outcome::new("exploration");
    o.set("evaluations", json!(all.len()));
    o.set("distinct_nontrivial", json!(hostile));
    o.set("rule", json!(format!("strings = 1..=3 components from {:?} joined by '/', by backslashes, or by '/' with a backslash before the last component, each also prefixed with an absolute canary directory; single-file torrents: every such name x content length in {{3, 0, 9}} (piece length 4); multi-file torrents: every name of <= {} components x every such path x 7 layouts (the file carrying the path is first / middle / last / the only one, 2 bytes / empty / spanning two pieces); plus 14 deep strings (31..256 harmless components followed by enough parent components to leave the download directory by one or two levels) as single-file names, as paths under the names 'a' and '', and as names; all cases distinct; non-trivial = a '..' component or an absolute path occurs", COMPONENTS, ctx.tier.pick(1, 2))));
    let picks = ctx.seeded_pick(all.len(), 5);
    o.set("samples", Value::Array(picks.iter().map(|i| json!({"name": all[*i].name, "path": all[*i].path, "layout": all[*i].layout})).collect()));
    o.set("exhaustive", json!(true));
    o.assume("the download directory sits 8 levels and the canary 6 levels below a disposable root, so every '..' chain of the alphabet (<= 6 relative, <= 5 after the canary prefix) stays inside the listed tree; absolute paths are represented by the canary prefix only (nothing is aimed at the real filesystem root); symlinks are not in the alphabet; a files list with one entry counts as a single-file torrent (stored directly in the download directory), as in C03");
    o
}

pub fn replay(_ctx: &Ctx, r: &Value) -> i32 {
    let env = env("replay");
    let canary = env.canary.display().to_string();
    let c = Case {
        name: r["name"].as_str().unwrap().replace("@CANARY@", &canary),
        path: r["path"].as_str().map(|p| p.replace("@CANARY@", &canary)),
        layout: r["layout"].as_u64().unwrap_or(0) as usize,
    };
    println!("case {:?} (download directory {})", c, env.cwd.display());
    match check_case(&env, &c) {
        Some((class, s)) => {
            println!("VIOLATION property=C04 replay=<this file>\n  class={} {}", class, s);
            1
        }
        None => {
            println!("holds for this case");
            0
        }
    }
}
