//! C05 — the info-hash is the SHA-1 of the exact byte span of the top-level "info" value.
//! E-ENUM over a grammar of metainfo documents; oracle = the harness's own span parser.

use crate::core::{self, Ctx, Outcome};
use crate::refb;
use rdest::Metainfo;
use serde_json::{json, Value};

/// Values that may sit next to `info` in the top-level dictionary.
const V_SHAPES: [(&str, &[u8]); 7] = [
    ("int", b"i7e"),
    ("the-string-info", b"4:info"),
    ("the-string-info-zero-padded-length", b"04:info"),
    ("str-spelled-4:info", b"6:4:info"),
    ("list-with-dict-with-info", b"ld4:infoi1eee"),
    ("dict-with-info", b"d4:infoi1ee"),
    ("dict-nesting-dict-with-info", b"d1:xd4:infod1:yi2eeee"),
];

fn pieces20() -> Vec<u8> {
    // binary on purpose: contains 'e', ':', 'd', digits, NUL and 0xff
    let mut p = b"e:d0i\x00\xff4:info".to_vec();
    while p.len() < 20 {
        p.push(0x80 + p.len() as u8);
    }
    p
}

fn bstr(s: &[u8]) -> Vec<u8> {
    let mut v = s.len().to_string().into_bytes();
    v.push(b':');
    v.extend_from_slice(s);
    v
}

/// The info dictionaries of the alphabet (all acceptable to a BEP3 client).
fn info_variants() -> Vec<(&'static str, Vec<u8>)> {
    let p = bstr(&pieces20());
    let cat = |parts: &[&[u8]]| parts.concat();
    vec![
        ("canonical", cat(&[b"d6:lengthi5e4:name1:n12:piece lengthi5e6:pieces", &p, b"e"])),
        ("reversed-keys", cat(&[b"d6:pieces", &p, b"12:piece lengthi5e4:name1:n6:lengthi5ee"])),
        ("extra-keys", cat(&[b"d6:lengthi5e4:name1:n12:piece lengthi5e6:pieces", &p, b"7:privatei1e4:infod1:qi3ee6:sourcele", b"e"])),
        ("leading-zero-lengths", cat(&[b"d06:lengthi5e004:name01:n12:piece lengthi5e6:pieces0", &p, b"e"])),
        ("multi-file", cat(&[b"d5:filesld6:lengthi2e4:path1:aed6:lengthi3e4:path1:bee4:name1:n12:piece lengthi5e6:pieces", &p, b"e"])),
        ("nested-info-inside-info", cat(&[b"d4:infoi9e6:lengthi5e4:name1:n12:piece lengthi5e6:pieces", &p, b"e"])),
        // zero-padded string lengths in front of contents that end in as many 'e' bytes as there
        // are padding zeros (a walker that measures the string from its parsed length instead of
        // its written form would end it early and take those bytes for terminators)
        ("padded-name-ending-in-e", cat(&[b"d6:lengthi5e4:name05:movie12:piece lengthi5e6:pieces", &p, b"e"])),
        ("double-padded-name-ending-in-ee", cat(&[b"d6:lengthi5e4:name004:free12:piece lengthi5e6:pieces", &p, b"e"])),
        ("padded-pieces-ending-in-e", cat(&[b"d6:lengthi5e4:name1:n12:piece lengthi5e6:pieces020:", &pieces20()[..19], b"e", b"e"])),
        ("padded-path-ending-in-e", cat(&[b"d5:filesld6:lengthi2e4:pathl03:oneeed6:lengthi3e4:pathl1:beee4:name1:n12:piece lengthi5e6:pieces", &p, b"e"])),
    ]
}

const TRAILERS: [&[u8]; 4] = [b"", b"i1e", b"4:info", b"d4:infoi7ee"];
/// Values in front of the torrent dictionary: none, non-dictionaries, and decoy dictionaries that are
/// not acceptable torrents themselves (no announce) but carry a top-level info key.
const LEADERS: [&[u8]; 6] = [b"", b"i0e", b"4:spamle", b"d4:infod4:name5:DECOYee", b"i0ed4:infod4:name5:DECOYee", b"d4:infoi3eei5ed1:xi1ee"];
const INFO_KEYS: [&[u8]; 2] = [b"4:info", b"04:info"];
/// Keys next to `info`: before and after it in sorted order, with `info` as prefix, and ending in
/// `:info` (a colon inside the key).
const V_KEYS: [&[u8]; 4] = [b"a:info", b"comment", b"infoo", b"z:info"];

#[derive(Clone, Debug)]
pub struct Doc {
    pub bytes: Vec<u8>,
    pub desc: String,
}

fn orders(entries: Vec<(Vec<u8>, Vec<u8>, bool)>) -> Vec<(&'static str, Vec<(Vec<u8>, Vec<u8>, bool)>)> {
    // entries: (key, raw "key value" bytes, is_info)
    let mut sorted = entries.clone();
    sorted.sort_by(|a, b| a.0.cmp(&b.0));
    let mut rev = sorted.clone();
    rev.reverse();
    let mut first: Vec<_> = sorted.iter().filter(|e| e.2).cloned().collect();
    first.extend(sorted.iter().filter(|e| !e.2).cloned());
    let mut last: Vec<_> = sorted.iter().filter(|e| !e.2).cloned().collect();
    last.extend(sorted.iter().filter(|e| e.2).cloned());
    let mut out: Vec<(&'static str, Vec<_>)> = vec![("sorted", sorted)];
    for (n, o) in [("reversed", rev), ("info-first", first), ("info-last", last)] {
        if !out.iter().any(|(_, x)| x.iter().map(|e| &e.0).eq(o.iter().map(|e| &e.0))) {
            out.push((n, o));
        }
    }
    out
}

pub fn documents(with_announce: bool) -> Vec<Doc> {
    let infos = info_variants();
    let mut docs = vec![];
    for mask in 0..(1u32 << V_KEYS.len()) {
        let present: Vec<usize> = (0..V_KEYS.len()).filter(|i| mask >> i & 1 == 1).collect();
        let combos = (V_SHAPES.len() as u32).pow(present.len() as u32);
        for combo in 0..combos {
            for (iname, info) in infos.iter() {
                for ikey in INFO_KEYS {
                    let mut entries: Vec<(Vec<u8>, Vec<u8>, bool)> = vec![];
                    if with_announce {
                        entries.push((b"announce".to_vec(), b"8:announce3:URL".to_vec(), false));
                    }
                    let mut c = combo;
                    let mut vdesc = vec![];
                    for &ki in &present {
                        let shape = V_SHAPES[(c % V_SHAPES.len() as u32) as usize];
                        c /= V_SHAPES.len() as u32;
                        let mut raw = bstr(V_KEYS[ki]);
                        raw.extend_from_slice(shape.1);
                        entries.push((V_KEYS[ki].to_vec(), raw, false));
                        vdesc.push(format!("{}={}", String::from_utf8_lossy(V_KEYS[ki]), shape.0));
                    }
                    let mut raw = ikey.to_vec();
                    raw.extend_from_slice(info);
                    entries.push((b"info".to_vec(), raw, true));
                    for (oname, order) in orders(entries) {
                        for (ti, trailer) in TRAILERS.iter().enumerate() {
                          // leading values: all of them for a thinned family (they do not interact
                          // with the sibling value shapes), none otherwise
                          let leaders: &[&[u8]] = if combo == 0 { &LEADERS } else { &LEADERS[..1] };
                          for (li, leader) in leaders.iter().enumerate() {
                            let mut bytes = leader.to_vec();
                            bytes.push(b'd');
                            for e in &order {
                                bytes.extend_from_slice(&e.1);
                            }
                            bytes.push(b'e');
                            bytes.extend_from_slice(trailer);
                            docs.push(Doc {
                                bytes,
                                desc: format!(
                                    "info={} key={} order={} others=[{}] trailer#{} leader#{}",
                                    iname,
                                    String::from_utf8_lossy(ikey),
                                    oname,
                                    vdesc.join(","),
                                    ti,
                                    li
                                ),
                            });
                          }
                        }
                    }
                }
            }
        }
    }
    docs
}

/// SHA-1 of the exact span of the value of the top-level "info" key of the first top-level
/// dictionary (the statement's definition), or None if the document has no such thing.
pub fn reference_hash(doc: &[u8]) -> Option<[u8; 20]> {
    let vals = refb::parse_all_spanned(doc).ok()?;
    // the dictionary the client reads = the first top-level dictionary that is a torrent at all
    // (in this alphabet: the one with an announce string; decoys have none)
    let top = vals.iter().find(|v| v.entries.iter().any(|(k, e)| k == b"announce" && matches!(e.v, refb::V::Str(_))))?;
    // a repeated key: the decoder keeps the last occurrence, so that is the info the client uses
    let mut found = None;
    for (k, span) in &top.entries {
        if k == b"info" {
            found = Some(span);
        }
    }
    let span = found?;
    Some(core::sha1(&doc[span.start..span.end]))
}

/// `name` inside the info value the reference hashes.
fn hashed_info_name(doc: &[u8]) -> Option<String> {
    let vals = refb::parse_all_spanned(doc).ok()?;
    let top = vals.iter().find(|v| v.entries.iter().any(|(k, e)| k == b"announce" && matches!(e.v, refb::V::Str(_))))?;
    let info = top.entries.iter().filter(|(k, _)| k == b"info").last()?;
    info.1.entries.iter().filter(|(k, _)| k == b"name").last().and_then(|(_, v)| match &v.v {
        refb::V::Str(s) => String::from_utf8(s.clone()).ok(),
        _ => None,
    })
}

#[derive(PartialEq, Debug)]
pub enum Res {
    Rejected,
    Agree,
    Violation(&'static str, String),
}

pub fn check_doc(doc: &[u8]) -> Res {
    match core::catch(|| Metainfo::from_bencode(doc)) {
        Err(p) => Res::Violation("metainfo-panic", format!("document {}: {}", core::show(doc), p)),
        Ok(Err(_)) => Res::Rejected,
        Ok(Ok(m)) => match reference_hash(doc) {
            None => Res::Violation(
                "accepted-without-top-level-info",
                format!("document {} accepted but has no top-level info value", core::show(doc)),
            ),
            Some(h) => {
                if &h == m.info_hash() {
                    // the fields must come from the very value that was hashed (matters for repeated keys)
                    let dbg = format!("{:?}", m);
                    if let Some(name) = hashed_info_name(doc) {
                        if !dbg.contains(&format!("name: {:?}", name)) {
                            return Res::Violation("hash-and-fields-from-different-info-values", format!("document {}: info_hash is that of the info value named {:?}, but the client reads {}", core::show(doc), name, &dbg[..dbg.len().min(120)]));
                        }
                    }
                    Res::Agree
                } else {
                    // which span was hashed instead? name the nested-key class precisely
                    let class = nested_class(doc, m.info_hash());
                    Res::Violation(
                        class,
                        format!(
                            "document {}: info_hash {} but SHA1(top-level info value) = {}",
                            core::show(doc),
                            core::hex(m.info_hash()),
                            core::hex(&h)
                        ),
                    )
                }
            }
        },
    }
}

/// If the reported hash is the SHA-1 of the value of some *nested* key spelled "info" that occurs
/// before the top-level one, that is the specific known defect class.
fn nested_class(doc: &[u8], got: &[u8; 20]) -> &'static str {
    fn walk(doc: &[u8], s: &refb::Spanned, depth: usize, got: &[u8; 20], hit: &mut bool) {
        for (k, v) in &s.entries {
            if k == b"info" && depth > 0 && &core::sha1(&doc[v.start..v.end]) == got {
                *hit = true;
            }
            walk(doc, v, depth + 1, got, hit);
        }
    }
    let mut hit = false;
    if let Ok(vals) = refb::parse_all_spanned(doc) {
        for v in &vals {
            walk(doc, v, 0, got, &mut hit);
        }
    }
    if hit {
        "hash-of-nested-info-key"
    } else {
        "info-hash-mismatch"
    }
}

/// Top-level dictionaries that carry the key `info` twice (different names, so it is visible which
/// one the client reads): the hash must belong to the same occurrence as the fields.
pub fn duplicate_info_documents() -> Vec<Doc> {
    let infos = info_variants();
    let mut docs = vec![];
    for (an, a) in infos.iter() {
        for (bn, b) in infos.iter() {
            // make the two values differ in their name
            let b2: Vec<u8> = String::from_utf8_lossy(b).replace("4:name1:n", "4:name1:m").into_bytes();
            let b2 = if b2 == *b { continue } else { b2 };
            let _ = b2;
            for mid in [&b""[..], b"7:comment2:hi", b"1:zd4:infoi1ee"] {
                for (order, first, second) in [("AB", a, b), ("BA", b, a)] {
                  for (k1, k2) in [(&b"4:info"[..], &b"4:info"[..]), (b"4:info", b"04:info"), (b"04:info", b"4:info"), (b"004:info", b"04:info")] {
                    let mut second2 = second.clone();
                    // second occurrence gets another name (only for variants whose name is plain)
                    if let Some(pos) = second2.windows(9).position(|w| w == b"4:name1:n") {
                        second2[pos + 8] = b'm';
                    } else {
                        continue;
                    }
                    let mut bytes = b"d8:announce3:URL".to_vec();
                    bytes.extend_from_slice(k1);
                    bytes.extend_from_slice(first);
                    bytes.extend_from_slice(mid);
                    bytes.extend_from_slice(k2);
                    bytes.extend_from_slice(&second2);
                    bytes.push(b'e');
                    docs.push(Doc { bytes, desc: format!("duplicate info keys {}+{} order {} mid {} spelled {} / {}", an, bn, order, core::show(mid), core::show(k1), core::show(k2)) });
                  }
                }
            }
        }
    }
    docs.sort_by(|a, b| a.bytes.cmp(&b.bytes));
    docs.dedup_by(|a, b| a.bytes == b.bytes);
    docs
}

pub fn run(ctx: &Ctx) -> Outcome {
    let mut docs = documents(true);
    docs.extend(duplicate_info_documents());
    let without = documents(false);
    // documents without announce must be rejected
    docs.extend(without);
    // cut-off documents: the same documents without their last byte (the closing 'e' of the
    // top-level dictionary; the decoder tolerates that, see the C16 finding). If the client accepts
    // one, the hash must still be that of the complete document's top-level info value.
    let cut: Vec<Doc> = docs.iter().filter(|d| d.desc.contains("trailer#0") && d.bytes.last() == Some(&b'e')).map(|d| Doc { bytes: d.bytes[..d.bytes.len() - 1].to_vec(), desc: format!("CUT-OFF last byte of: {}", d.desc) }).collect();
    let cut_results = core::par_map(&cut, |_| core::set_quiet_panics(true), |_, _, d| {
        let mut full = d.bytes.clone();
        full.push(b'e');
        match core::catch(|| Metainfo::from_bencode(&d.bytes)) {
            Err(p) => Res::Violation("metainfo-panic", format!("document {}: {}", core::show(&d.bytes), p)),
            Ok(Err(_)) => Res::Rejected,
            Ok(Ok(m)) => match reference_hash(&full) {
                Some(h) if &h == m.info_hash() => Res::Agree,
                other => Res::Violation("cut-off-document-hashed-from-another-value", format!("document {} (its last byte is missing) is accepted with info_hash {} but the top-level info value hashes to {:?}", core::show(&d.bytes), core::hex(m.info_hash()), other.map(|h| core::hex(&h)))),
            },
        }
    });
    let mut cut_accepted = 0u64;
    for (d, r) in cut.iter().zip(cut_results.iter()) {
        match r {
            Res::Rejected => {}
            Res::Agree => cut_accepted += 1,
            Res::Violation(class, summary) => ctx.violation(class, format!("{} [{}]", summary, d.desc), json!({"hex": core::hex(&d.bytes), "text": core::show(&d.bytes), "desc": d.desc, "cut": true})),
        }
    }
    let results = core::par_map(&docs, |_| core::set_quiet_panics(true), |_, _, d| check_doc(&d.bytes));
    let mut accepted = 0u64;
    let mut rejected = 0u64;
    for (d, r) in docs.iter().zip(results.iter()) {
        match r {
            Res::Rejected => rejected += 1,
            Res::Agree => accepted += 1,
            Res::Violation(class, summary) => {
                accepted += 1;
                ctx.violation(class, format!("{} [{}]", summary, d.desc), json!({"hex": core::hex(&d.bytes), "text": core::show(&d.bytes), "desc": d.desc}));
            }
        }
    }
    let mut o = Outcome::new("exploration");
    o.set("evaluations", json!(docs.len() + cut.len()));
    o.set("cut_off_documents", json!(cut.len()));
    o.set("cut_off_documents_accepted", json!(cut_accepted));
    o.set("distinct_nontrivial", json!(accepted));
    o.set("accepted", json!(accepted));
    o.set("rejected", json!(rejected));
    o.set("rule", json!("documents = one top-level dictionary {announce, any subset of the keys a:info/comment/infoo/z:info each with one of 7 value shapes (the string info itself in two length spellings, a string spelled 4:info, 3 containers with a nested key spelled info), info} in 4 key orders (sorted, reversed, info first, info last) x 10 info dictionaries (canonical, reversed keys, extra keys incl. a nested info key, leading-zero string lengths, multi-file, info key inside info, and four with zero-padded lengths in front of a name / pieces string / path that ends in 'e' bytes) x info key spelled 4:info or 04:info x 4 trailers after the dictionary x (for one sibling-shape combination per key subset) 6 leaders in front of it: nothing, non-dictionary values, decoy dictionaries without announce but with a top-level info key; plus the same family without announce (every one must be rejected); plus documents with the info key twice (info values pairwise, 3 separators, both orders, the two keys spelled 4:info / 04:info / 004:info in four combinations). Plus every document without trailer once more without its last byte (cut-off .torrent): refused, or hashed like the complete one. All documents are distinct byte strings; non-trivial = accepted by Metainfo::from_bencode, for which the hash is compared."));
    if (accepted as f64) < 0.4 * docs.len() as f64 {
        ctx.machinery_error(format!("vacuity: only {} of {} documents accepted", accepted, docs.len()));
    }
    let picks = ctx.seeded_pick(docs.len(), 4);
    o.set("samples", Value::Array(picks.iter().map(|i| json!({"doc": core::show(&docs[*i].bytes), "desc": docs[*i].desc, "result": format!("{:?}", match &results[*i] { Res::Violation(c, _) => format!("violation:{}", c), r => format!("{:?}", r) })})).collect()));
    o.set("exhaustive", json!(true));
    o.assume("reference span parser refb.rs; a repeated top-level info key means its last occurrence (the decoder keeps the last duplicate): hash and fields must come from the same occurrence");
    o
}

pub fn replay(_ctx: &Ctx, r: &Value) -> i32 {
    let hexs = r["hex"].as_str().unwrap_or("");
    let bytes: Vec<u8> = (0..hexs.len() / 2).map(|i| u8::from_str_radix(&hexs[2 * i..2 * i + 2], 16).unwrap()).collect();
    println!("document: {}", core::show(&bytes));
    println!("reference SHA1(top-level info value): {:?}", reference_hash(&bytes).map(|h| core::hex(&h)));
    println!("Metainfo::from_bencode(..).info_hash(): {:?}", core::catch(|| Metainfo::from_bencode(&bytes).map(|m| core::hex(m.info_hash()))));
    match check_doc(&bytes) {
        Res::Violation(class, s) => {
            println!("VIOLATION property=C05 replay=<this file>\n  class={} {}", class, s);
            1
        }
        other => {
            println!("holds for this document ({:?})", other);
            0
        }
    }
}
