//! C06 — peer stream decoding is total, segmentation-independent and bounded.
//! E-SEG: every stream of <= k messages from a 20-symbol alphabet (valid, unknown-id, malformed,
//! oversized) x every segmentation into reads (all 2^(n-1) for short streams, all subsets of <= 3
//! cuts from a cut-point set otherwise) x {more data may follow, EOF}, against the real
//! `Connection::recv_frame` polled by hand; oracle = reference stream decoder (refwire.rs).
//! E-SYS part: the same undecodable endings inside a real `PeerHandler::run()` task (see world.rs).

use crate::core::{self, Ctx, Outcome};
use crate::refwire::{self, Msg, Step};
use rdest::verif::{Connection, MemPipe};
use rdest::Error;
use serde_json::{json, Value};
use std::future::Future;
use std::pin::Pin;
use std::task::{Context, Poll, RawWaker, RawWakerVTable, Waker};

fn noop_waker() -> Waker {
    fn clone(_: *const ()) -> RawWaker {
        RawWaker::new(std::ptr::null(), &VTABLE)
    }
    fn noop(_: *const ()) {}
    static VTABLE: RawWakerVTable = RawWakerVTable::new(clone, noop, noop, noop);
    unsafe { Waker::from_raw(RawWaker::new(std::ptr::null(), &VTABLE)) }
}

pub fn alphabet() -> Vec<(&'static str, Vec<u8>)> {
    let hs = refwire::encode(&refwire::handshake(&[7; 20], b"-RD0001-000000000001"));
    let mut bad_hs = hs.clone();
    bad_hs[19] = b'X'; // "BitTorrent protocoX": the fifth byte is still 'T'
    let mut bad_hs2 = hs.clone();
    bad_hs2[4] = b'U'; // "BitUorrent protocol": first byte 0x13 but not recognised as a handshake
    vec![
        ("KeepAlive", refwire::encode(&Msg::KeepAlive)),
        ("Choke", refwire::encode(&Msg::Choke)),
        ("Have", refwire::encode(&Msg::Have(3))),
        ("Request", refwire::encode(&Msg::Request(1, 2, 3))),
        ("Piece2", refwire::encode(&Msg::Piece(0, 0, vec![0xaa, 0xbb]))),
        ("Bitfield", refwire::encode(&Msg::Bitfield(vec![0xa0]))),
        ("Handshake", hs),
        ("Unknown20+2", vec![0, 0, 0, 3, 20, 1, 2]),
        ("Unknown9+0", vec![0, 0, 0, 1, 9]),
        // an unknown id that equals the fifth byte of a handshake ('T')
        ("Unknown84+2", vec![0, 0, 0, 3, 84, 1, 2]),
        ("Piece16K", refwire::encode(&Msg::Piece(1, 0, vec![0x5a; 16384]))),
        ("PieceMax", refwire::encode(&Msg::Piece(1, 0, vec![0xc3; 65527]))),
        ("BAD:ChokeLen2", vec![0, 0, 0, 2, 0, 9]),
        ("BAD:HaveLen6", vec![0, 0, 0, 6, 4, 0, 0, 0, 1, 9]),
        ("BAD:Oversize", vec![0, 1, 0, 1, 7, 1, 2, 3]),
        ("BAD:Pstr", bad_hs),
        ("BAD:Pstr5", bad_hs2),
        // variable-length kinds with a length prefix below their fixed part, fixed kinds one off
        ("BAD:PieceLen8", vec![0, 0, 0, 8, 7, 0, 0, 0, 0, 0, 0, 0]),
        ("BAD:PieceLen1", vec![0, 0, 0, 1, 7]),
        ("BAD:RequestLen12", vec![0, 0, 0, 12, 6, 0, 0, 0, 1, 0, 0, 0, 2, 0, 0, 0]),
        ("BAD:CancelLen14", vec![0, 0, 0, 14, 8, 0, 0, 0, 1, 0, 0, 0, 2, 0, 0, 0, 3, 9]),
    ]
}

#[derive(Clone, Debug)]
pub struct Run {
    pub msgs: Vec<usize>,
    /// Ascending cut offsets strictly inside the stream.
    pub cuts: Vec<usize>,
    /// Stream is cut off after this many bytes and then closed (None: stays open).
    pub eof_at: Option<usize>,
}

#[derive(Debug, PartialEq)]
enum Got {
    Frame(Vec<u8>),
    Eof,
    Err(Error),
    Pending,
}

fn poll_once(conn: &mut Connection) -> Result<Got, String> {
    core::catch(|| {
        let waker = noop_waker();
        let mut cx = Context::from_waker(&waker);
        let mut fut = Box::pin(conn.recv_frame());
        match Pin::new(&mut fut).as_mut().poll(&mut cx) {
            Poll::Ready(Ok(Some(f))) => Got::Frame(crate::c07::frame_bytes(&f)),
            Poll::Ready(Ok(None)) => Got::Eof,
            Poll::Ready(Err(e)) => Got::Err(e),
            Poll::Pending => Got::Pending,
        }
    })
}

/// Execute one (stream, segmentation, ending) against the real connection.
pub fn execute(stream: &[u8], r: &Run) -> Option<(&'static str, String)> {
    let end = r.eof_at.unwrap_or(stream.len());
    let mut bounds: Vec<usize> = r.cuts.iter().cloned().filter(|c| *c > 0 && *c < end).collect();
    bounds.push(end);
    let pipe = MemPipe::new();
    let mut conn = Connection::new("peer".to_string());
    conn.verif_with_mem(pipe.clone());
    let mut frames: Vec<Vec<u8>> = vec![];
    let mut delivered = 0usize;
    let mut ended: Option<Got> = None;

    let mut steps: Vec<Option<(usize, usize)>> = vec![];
    let mut prev = 0;
    for b in &bounds {
        if *b > prev {
            steps.push(Some((prev, *b)));
        }
        prev = *b;
    }
    if r.eof_at.is_some() {
        steps.push(None);
    }

    for step in steps {
        match step {
            Some((a, b)) => {
                pipe.feed(&stream[a..b]);
                delivered = b;
            }
            None => pipe.close(),
        }
        // drain
        loop {
            match poll_once(&mut conn) {
                Err(p) => return Some(("decoder-panic", format!("after {} bytes: {}", delivered, p))),
                Ok(Got::Frame(f)) => frames.push(f),
                Ok(Got::Pending) => break,
                Ok(other) => {
                    ended = Some(other);
                    break;
                }
            }
        }
        // reference view of the delivered prefix
        let (want, consumed, err) = refwire::decode_stream(&stream[..delivered]);
        let want_bytes: Vec<Vec<u8>> = want.iter().map(refwire::encode).collect();
        let err_due = match refwire::next(&stream[consumed..delivered]) {
            Step::Error(_, due) => delivered - consumed >= due,
            _ => false,
        };
        let closed = step.is_none();
        match &ended {
            None => {
                // the client is waiting for more bytes
                if frames != want_bytes {
                    let class = if frames.len() < want_bytes.len() && frames[..] == want_bytes[..frames.len()] {
                        "complete-message-withheld"
                    } else {
                        "wrong-frames"
                    };
                    return Some((class, format!("after {} bytes delivered {} frames, reference {} ({:?})", delivered, frames.len(), want_bytes.len(), want.iter().map(|m| m.short()).collect::<Vec<_>>())));
                }
                if err.is_some() && err_due {
                    return Some(("undecodable-stream-not-terminated", format!("after {} bytes the stream is undecodable ({}) but the client waits for more (buffer {} bytes)", delivered, err.unwrap(), conn.verif_buffer_len())));
                }
                if conn.verif_buffer_len() > 4 + refwire::MAX_FRAME {
                    return Some(("buffers-more-than-one-frame", format!("buffer holds {} bytes", conn.verif_buffer_len())));
                }
                if err.is_none() && conn.verif_buffer_len() != delivered - consumed {
                    return Some(("buffer-not-a-frame-prefix", format!("buffer {} bytes, undecoded remainder {}", conn.verif_buffer_len(), delivered - consumed)));
                }
                if closed {
                    return Some(("eof-not-noticed", format!("stream closed after {} bytes but the client keeps waiting", delivered)));
                }
            }
            Some(Got::Eof) => {
                if !closed || frames != want_bytes || consumed != delivered {
                    return Some(("spurious-eof", format!("after {} bytes: clean end reported, {} frames (reference {}), {} bytes undecoded", delivered, frames.len(), want_bytes.len(), delivered - consumed)));
                }
                return None;
            }
            Some(Got::Err(e)) => {
                // frames before the error must still be the reference's
                if frames.len() > want_bytes.len() || frames[..] != want_bytes[..frames.len()] {
                    return Some(("wrong-frames", format!("after {} bytes: {} frames then {:?}; reference {:?}", delivered, frames.len(), e, want.iter().map(|m| m.short()).collect::<Vec<_>>())));
                }
                let truncated = closed && consumed != delivered;
                if err.is_none() && !truncated {
                    return Some(("spurious-error", format!("after {} bytes: {:?} although the stream is decodable", delivered, e)));
                }
                if frames != want_bytes {
                    return Some(("complete-message-withheld", format!("after {} bytes: error {:?} raised before {} complete message(s) were delivered", delivered, e, want_bytes.len() - frames.len())));
                }
                return None;
            }
            Some(Got::Frame(_)) | Some(Got::Pending) => unreachable!(),
        }
    }
    None
}

fn cut_points(msgs: &[usize], alpha: &[(&'static str, Vec<u8>)]) -> Vec<usize> {
    let mut pts = std::collections::BTreeSet::new();
    let mut off = 0;
    for m in msgs {
        let len = alpha[*m].1.len();
        for d in 1..=6usize {
            if d < len {
                pts.insert(off + d);
            }
        }
        if len > 40 {
            pts.insert(off + len / 2);
            pts.insert(off + 20);
            pts.insert(off + 67);
        }
        if len > 1 {
            pts.insert(off + len - 1);
        }
        off += len;
        pts.insert(off);
        pts.insert(off + 1);
    }
    pts.into_iter().filter(|p| *p > 0 && *p < off).collect()
}

fn subsets_upto(points: &[usize], k: usize) -> Vec<Vec<usize>> {
    fn rec(points: &[usize], k: usize, start: usize, cur: &mut Vec<usize>, out: &mut Vec<Vec<usize>>) {
        out.push(cur.clone());
        if cur.len() == k {
            return;
        }
        for i in start..points.len() {
            cur.push(points[i]);
            rec(points, k, i + 1, cur, out);
            cur.pop();
        }
    }
    let mut out = vec![];
    rec(points, k, 0, &mut vec![], &mut out);
    out
}

pub fn runs_for(msgs: &[usize], alpha: &[(&'static str, Vec<u8>)], max_cuts: usize, all_truncations: bool) -> (Vec<u8>, Vec<Run>) {
    let stream: Vec<u8> = msgs.iter().flat_map(|m| alpha[*m].1.clone()).collect();
    let n = stream.len();
    let mut runs = vec![];
    let segs: Vec<Vec<usize>> = if n <= 16 {
        (0..(1u32 << (n.max(1) - 1))).map(|mask| (1..n).filter(|i| mask >> (i - 1) & 1 == 1).collect()).collect()
    } else {
        subsets_upto(&cut_points(msgs, alpha), max_cuts)
    };
    let pts = cut_points(msgs, alpha);
    for cuts in segs {
        runs.push(Run { msgs: msgs.to_vec(), cuts: cuts.clone(), eof_at: None });
        runs.push(Run { msgs: msgs.to_vec(), cuts, eof_at: Some(n) });
    }
    // truncated streams: cut off (then closed) at every byte / every cut point, with 0..1 cuts before
    let trunc: Vec<usize> = if all_truncations && n <= 200 { (0..n).collect() } else { std::iter::once(0).chain(pts.iter().cloned()).collect() };
    for t in trunc {
        runs.push(Run { msgs: msgs.to_vec(), cuts: vec![], eof_at: Some(t) });
        for c in pts.iter().filter(|c| **c < t) {
            runs.push(Run { msgs: msgs.to_vec(), cuts: vec![*c], eof_at: Some(t) });
        }
    }
    (stream, runs)
}

// -------------------------------------------------------------------------------------------
// Unseamed replays: the same executions over real loopback TCP sockets, hooks inactive
// -------------------------------------------------------------------------------------------

#[derive(Debug, PartialEq, Clone)]
pub enum Terminal {
    Waiting,
    Eof,
    Err(String),
}

/// Frames and ending the pipe branch produces for a run (no oracle).
fn pipe_outcome(stream: &[u8], r: &Run) -> (Vec<Vec<u8>>, Terminal) {
    let end = r.eof_at.unwrap_or(stream.len());
    let mut bounds: Vec<usize> = r.cuts.iter().cloned().filter(|c| *c > 0 && *c < end).collect();
    bounds.push(end);
    let pipe = MemPipe::new();
    let mut conn = Connection::new("peer".to_string());
    conn.verif_with_mem(pipe.clone());
    let mut frames = vec![];
    let mut prev = 0;
    let mut feeds: Vec<Option<(usize, usize)>> = bounds.iter().filter_map(|b| { let r = if *b > prev { Some(Some((prev, *b))) } else { None }; prev = *b; r }).collect();
    if r.eof_at.is_some() {
        feeds.push(None);
    }
    for f in feeds {
        match f {
            Some((a, b)) => pipe.feed(&stream[a..b]),
            None => pipe.close(),
        }
        loop {
            match poll_once(&mut conn) {
                Ok(Got::Frame(f)) => frames.push(f),
                Ok(Got::Pending) => break,
                Ok(Got::Eof) => return (frames, Terminal::Eof),
                Ok(Got::Err(e)) => return (frames, Terminal::Err(format!("{:?}", e))),
                Err(p) => return (frames, Terminal::Err(format!("panic: {}", p))),
            }
        }
    }
    (frames, Terminal::Waiting)
}

/// The same run through an unhooked `Connection` over a real loopback TCP connection.
/// `expect`: what the in-memory run of the same stream gave. It only steers how long this run waits
/// (a slow machine must not turn into a different outcome): a terminal ending is waited for up to
/// 5 s; "waiting" is concluded once as many frames as expected have arrived plus a grace period,
/// or after 5 s.
fn tcp_outcome(rt: &tokio::runtime::Runtime, stream: &[u8], r: &Run, expect: &(Vec<Vec<u8>>, Terminal)) -> Result<(Vec<Vec<u8>>, Terminal), String> {
    let expect_terminal = !matches!(expect.1, Terminal::Waiting);
    let expect_frames = expect.0.len();
    use tokio::io::AsyncWriteExt;
    let end = r.eof_at.unwrap_or(stream.len());
    let mut bounds: Vec<usize> = r.cuts.iter().cloned().filter(|c| *c > 0 && *c < end).collect();
    bounds.push(end);
    let close = r.eof_at.is_some();
    let data = stream.to_vec();
    rt.block_on(async move {
        let listener = tokio::net::TcpListener::bind("127.0.0.1:0").await.map_err(|e| e.to_string())?;
        let addr = listener.local_addr().map_err(|e| e.to_string())?;
        let writer = tokio::spawn(async move {
            let mut sock = tokio::net::TcpStream::connect(addr).await.expect("loopback connect");
            sock.set_nodelay(true).ok();
            let mut prev = 0;
            for b in bounds {
                if b > prev {
                    sock.write_all(&data[prev..b]).await.expect("loopback write");
                    sock.flush().await.ok();
                    tokio::time::sleep(std::time::Duration::from_millis(3)).await;
                }
                prev = b;
            }
            if close {
                drop(sock);
                None
            } else {
                Some(sock) // keep the connection open until the reader is done
            }
        });
        let (server, _) = listener.accept().await.map_err(|e| e.to_string())?;
        let mut conn = Connection::new("peer".to_string());
        conn.with_socket(server);
        // the receiving side runs as its own task: if it spins (never returns although the stream
        // has ended) it only exhausts its own cooperative budget and this loop still gets its turns
        enum Got2 {
            Frame(Vec<u8>),
            End(Terminal),
        }
        let (tx, mut rx) = tokio::sync::mpsc::unbounded_channel::<Got2>();
        let reader = tokio::spawn(async move {
            loop {
                match conn.recv_frame().await {
                    Ok(Some(f)) => {
                        let _ = tx.send(Got2::Frame(crate::c07::frame_bytes(&f)));
                    }
                    Ok(None) => {
                        let _ = tx.send(Got2::End(Terminal::Eof));
                        break;
                    }
                    Err(e) => {
                        let _ = tx.send(Got2::End(Terminal::Err(format!("{:?}", e))));
                        break;
                    }
                }
            }
        });
        let mut frames = vec![];
        let terminal;
        let mut keep = writer;
        let mut held_socket = None;
        let mut writer_done = false;
        let mut deadline = tokio::time::Instant::now() + std::time::Duration::from_secs(20);
        loop {
            // "waiting" is only concluded after the writer has written everything and a grace
            // period passed; the receive branch is polled first, so a stalled thread cannot turn
            // buffered data into a spurious "waiting"
            tokio::select! {
                biased;
                m = rx.recv() => match m {
                    Some(Got2::Frame(f)) => frames.push(f),
                    Some(Got2::End(t)) => {
                        terminal = t;
                        break;
                    }
                    None => {
                        terminal = Terminal::Err("panic: the receiving task died".to_string());
                        break;
                    }
                },
                s = &mut keep, if !writer_done => {
                    writer_done = true;
                    held_socket = s.ok().flatten();
                    deadline = tokio::time::Instant::now() + std::time::Duration::from_secs(5);
                }
                _ = tokio::time::sleep_until(deadline) => {
                    terminal = Terminal::Waiting;
                    break;
                }
                _ = tokio::time::sleep(std::time::Duration::from_millis(150)), if writer_done && !expect_terminal && frames.len() >= expect_frames => {
                    // everything expected has arrived and nothing more came for 150 ms
                    terminal = Terminal::Waiting;
                    break;
                }
            }
        }
        reader.abort();
        drop(held_socket);
        Ok((frames, terminal))
    })
}

/// Buffer bound on the socket path (real loopback TCP): a peer writes `lead` (nothing, or one
/// maximal-size bitfield frame) followed by a flood of `haves` Have frames while the receiving
/// side is busy for 300 ms; after every decoded frame the number of buffered, undecoded bytes is
/// recorded. Every frame must be decoded in order and the buffer must never hold more than one
/// maximal frame (4 + 65536 bytes). With `oversized` the flood is preceded by a frame header whose
/// length is MAX_FRAME + 1: the connection must end with the error while no more than one frame is
/// buffered. Returns (frames decoded, max buffered, verdict).
pub fn flood_case(lead_max_frame: bool, oversized: bool, haves: usize) -> Result<(usize, usize, Option<(&'static str, String)>), String> {
    use tokio::io::AsyncWriteExt;
    let rt = tokio::runtime::Builder::new_current_thread().enable_all().build().map_err(|e| e.to_string())?;
    let bound = 4 + refwire::MAX_FRAME;
    rt.block_on(async move {
        let listener = tokio::net::TcpListener::bind("127.0.0.1:0").await.map_err(|e| e.to_string())?;
        let addr = listener.local_addr().map_err(|e| e.to_string())?;
        let mut data: Vec<u8> = vec![];
        let mut expect = 0usize;
        if lead_max_frame {
            // bitfield message of the largest admissible length: prefix 65536 = id + 65535 bytes
            data.extend_from_slice(&(refwire::MAX_FRAME as u32).to_be_bytes());
            data.push(5);
            data.extend(std::iter::repeat(0u8).take(refwire::MAX_FRAME - 1));
            expect += 1;
        }
        if oversized {
            data.extend_from_slice(&((refwire::MAX_FRAME + 1) as u32).to_be_bytes());
            data.push(5);
        }
        for i in 0..haves {
            data.extend(refwire::encode(&Msg::Have(i as u32)));
        }
        if !oversized {
            expect += haves;
        }
        let writer = tokio::spawn(async move {
            let mut sock = tokio::net::TcpStream::connect(addr).await.expect("loopback connect");
            sock.set_nodelay(true).ok();
            let _ = sock.write_all(&data).await;
            let _ = sock.flush().await;
            // keep the connection open; the reader decides when it is done
            tokio::time::sleep(std::time::Duration::from_secs(30)).await;
            drop(sock);
        });
        let (server, _) = listener.accept().await.map_err(|e| e.to_string())?;
        let mut conn = Connection::new("peer".to_string());
        conn.with_socket(server);
        let mut frames = 0usize;
        let mut max_buffered = 0usize;
        let mut next_have = 0u32;
        let mut verdict: Option<(&'static str, String)> = None;
        let mut first = true;
        loop {
            let got = match tokio::time::timeout(std::time::Duration::from_secs(5), conn.recv_frame()).await {
                Ok(g) => g,
                Err(_) => {
                    if frames != expect || oversized {
                        verdict = Some(("socket-path-stalls", format!("after {} of {} frames (max-size lead: {}, oversized header: {}) the receiving side waits although the peer has written everything; {} bytes buffered", frames, expect, lead_max_frame, oversized, conn.verif_buffer_len())));
                    }
                    break;
                }
            };
            max_buffered = max_buffered.max(conn.verif_buffer_len());
            match got {
                Ok(Some(f)) => {
                    frames += 1;
                    let bytes = crate::c07::frame_bytes(&f);
                    if bytes.len() == 9 && bytes[4] == 4 {
                        let i = u32::from_be_bytes([bytes[5], bytes[6], bytes[7], bytes[8]]);
                        if i != next_have {
                            verdict = Some(("socket-path-decodes-differently", format!("flood of Have frames over loopback TCP: frame #{} decoded as Have {} instead of Have {}", frames, i, next_have)));
                            break;
                        }
                        next_have += 1;
                    }
                    if first {
                        // the client is busy for a moment: the kernel queues the flood meanwhile
                        first = false;
                        tokio::time::sleep(std::time::Duration::from_millis(300)).await;
                    }
                    if frames == expect && !oversized {
                        break;
                    }
                }
                Ok(None) => {
                    verdict = Some(("socket-path-decodes-differently", format!("end of stream reported after {} of {} frames although the peer keeps the connection open", frames, expect)));
                    break;
                }
                Err(e) => {
                    if !oversized {
                        verdict = Some(("socket-path-decodes-differently", format!("decodable flood refused after {} of {} frames: {:?}", frames, expect, e)));
                    }
                    break;
                }
            }
        }
        writer.abort();
        if verdict.is_none() && max_buffered > bound {
            verdict = Some(("buffers-more-than-one-frame", format!("socket path (max-size lead: {}, oversized header: {}, {} Have frames written at once, receiver busy for 300 ms): {} undecoded bytes were buffered at one time, one maximal frame is {} bytes", lead_max_frame, oversized, haves, max_buffered, bound)));
        }
        Ok((frames, max_buffered, verdict))
    })
}

fn unseamed_part(ctx: &Ctx) -> (u64, u64) {
    let alpha = alphabet();
    let mut cases: Vec<(Vec<usize>, Run)> = vec![];
    let n = alpha.len();
    let mut seqs: Vec<Vec<usize>> = (0..n).map(|a| vec![a]).collect();
    for a in 0..n {
        for b in 0..n {
            if ctx.tier == core::Tier::Thorough || (a + 2 * b) % 7 == 0 {
                seqs.push(vec![a, b]);
            }
        }
    }
    for msgs in seqs {
        let stream: Vec<u8> = msgs.iter().flat_map(|m| alpha[*m].1.clone()).collect();
        let len = stream.len();
        let first = alpha[msgs[0]].1.len();
        cases.push((msgs.clone(), Run { msgs: msgs.clone(), cuts: vec![], eof_at: None }));
        cases.push((msgs.clone(), Run { msgs: msgs.clone(), cuts: vec![3.min(len - 1).max(1), first.min(len - 1).max(1)], eof_at: Some(len) }));
        cases.push((msgs.clone(), Run { msgs: msgs.clone(), cuts: vec![5.min(len - 1).max(1)], eof_at: Some((len * 2 / 3).max(1)) }));
    }
    let res = core::par_map(
        &cases,
        |_| {
            core::set_quiet_panics(true);
            tokio::runtime::Builder::new_current_thread().enable_all().build().expect("runtime")
        },
        |rt, _, (msgs, run)| {
            let stream: Vec<u8> = msgs.iter().flat_map(|m| alpha[*m].1.clone()).collect();
            let a = pipe_outcome(&stream, run);
            // a panic of the subject inside the loopback run is an outcome like any other (the
            // in-memory run reports it as Terminal::Err("panic: ..")), never an engine failure
            let b = match core::catch(|| tcp_outcome(rt, &stream, run, &a)) {
                Ok(b) => b,
                Err(p) => {
                    if matches!(&a.1, Terminal::Err(e) if e.starts_with("panic")) {
                        return None;
                    }
                    Err(format!("the subject panicked over loopback TCP only: {}", p))
                }
            };
            match b {
                Ok(b) if a == b => None,
                Ok(b) => Some(format!("stream {:?} cuts {:?} eof_at {:?}: in-memory pipe gave {} frames / {:?}, loopback TCP gave {} frames / {:?}", msgs.iter().map(|m| alpha[*m].0).collect::<Vec<_>>(), run.cuts, run.eof_at, a.0.len(), a.1, b.0.len(), b.1)),
                Err(e) => Some(format!("loopback TCP run failed: {}", e)),
            }
        },
    );
    let mut bad = 0;
    for r in res.into_iter().flatten() {
        bad += 1;
        if r.starts_with("loopback TCP run failed") {
            ctx.machinery_error(format!("unseamed replay: {}", r));
        } else {
            // the in-memory outcome of the same run was judged against the reference decoder in
            // the E-SEG part; a different outcome over a real socket is the real path misbehaving
            ctx.violation("socket-path-decodes-differently", r.clone(), json!({"kind": "unseamed", "text": r}));
        }
    }
    // buffer bound of the socket path under a flood
    let mut extra = 0u64;
    for (lead, over) in [(false, false), (false, true), (true, false)] {
        extra += 1;
        match flood_case(lead, over, 400_000) {
            Ok((_, _, None)) => {}
            Ok((_, _, Some((class, why)))) => {
                bad += 1;
                ctx.violation(class, why, json!({"kind": "flood", "lead_max_frame": lead, "oversized": over, "haves": 400_000}));
            }
            Err(e) => ctx.machinery_error(format!("flood run over loopback TCP could not be carried out: {}", e)),
        }
    }
    (cases.len() as u64 + extra, bad)
}

// -------------------------------------------------------------------------------------------
// E-SYS part: undecodable / truncated endings inside the real connection task
// -------------------------------------------------------------------------------------------

#[derive(Clone, Debug)]
pub struct TermCase {
    pub outgoing: bool,
    pub prefix: usize,
    pub ending: usize,
    pub split: bool,
}

const PREFIXES: [&str; 3] = ["none", "handshake", "handshake+bitfield+unchoke"];
const ENDINGS: [&str; 9] = ["BAD:ChokeLen2", "BAD:HaveLen6", "BAD:Oversize", "BAD:Pstr", "BAD:Pstr5", "partial-Have-then-close", "close", "reset", "partial-Piece-then-reset"];

pub fn term_case(dir: &std::path::PathBuf, c: &TermCase, verbose: bool) -> Option<(&'static str, String)> {
    use crate::fixture::Torrent;
    use crate::world::{peer_cfg, Ev, World, WorldCfg};
    let t = Torrent::new("t", 16384, &[("f", 16389)], true);
    let cfg = WorldCfg { torrent: t.clone(), have: vec![], peers: vec![peer_cfg(0, c.outgoing)], gated: false, stale: vec![] };
    let mut w = World::new(&cfg, dir);
    let id = w.peers[0].cfg.id;
    let alpha = alphabet();
    let bytes_of = |name: &str| alpha.iter().find(|a| a.0 == name).unwrap().1.clone();
    match c.prefix {
        1 => w.feed(0, &[refwire::handshake(t.meta.info_hash(), &id)]),
        2 => w.feed(0, &[refwire::handshake(t.meta.info_hash(), &id), Msg::Bitfield(vec![0xc0]), Msg::Unchoke]),
        _ => {}
    }
    if w.peers[0].ended.get() {
        return Some(("connection-ended-during-valid-prefix", format!("{:?}", c)));
    }
    let t0 = w.now_ms();
    let mut evs: Vec<Ev> = vec![];
    let mut push_bytes = |b: Vec<u8>, evs: &mut Vec<Ev>| {
        if c.split && b.len() > 5 {
            evs.push(Ev::Feed(0, b[..5].to_vec()));
            evs.push(Ev::Feed(0, b[5..].to_vec()));
        } else {
            evs.push(Ev::Feed(0, b));
        }
    };
    match ENDINGS[c.ending] {
        "partial-Have-then-close" => {
            push_bytes(refwire::encode(&Msg::Have(0))[..7].to_vec(), &mut evs);
            evs.push(Ev::Close(0));
        }
        "partial-Piece-then-reset" => {
            push_bytes(refwire::encode(&Msg::Piece(0, 0, vec![1; 100]))[..50].to_vec(), &mut evs);
            evs.push(Ev::Reset(0));
        }
        "close" => evs.push(Ev::Close(0)),
        "reset" => evs.push(Ev::Reset(0)),
        name => push_bytes(bytes_of(name), &mut evs),
    }
    for ev in &evs {
        w.step(ev, &[]);
        if verbose {
            println!("{:?} -> manager handled {:?}; ended={}", match ev { Ev::Feed(i, b) => format!("Feed({}, {} bytes)", i, b.len()), o => format!("{:?}", o) }, w.cmds, w.peers[0].ended.get());
        }
    }
    if let Some(d) = &w.dead {
        return Some(("manager-died", format!("{:?}: {}", c, d)));
    }
    if let Some(p) = w.handler_panics.first() {
        return Some(("connection-task-panicked", format!("{:?}: {}", c, p)));
    }
    let elapsed = w.now_ms() - t0;
    let listed = w.snap().peers.iter().any(|p| p.addr == w.peers[0].cfg.addr);
    if !w.peers[0].ended.get() || listed {
        return Some((
            "undecodable-or-closed-stream-does-not-end-connection",
            format!("{:?} ({} / {} / {}): after the offending bytes were delivered the connection task is {} and the manager {} the peer ({} ms of virtual time, no timer involved)", c, if c.outgoing { "outgoing" } else { "incoming" }, PREFIXES[c.prefix], ENDINGS[c.ending], if w.peers[0].ended.get() { "ended" } else { "still running" }, if listed { "still lists" } else { "dropped" }, elapsed),
        ));
    }
    if elapsed > 1000 {
        return Some(("termination-needed-a-timer", format!("{:?}: {} ms", c, elapsed)));
    }
    None
}

fn termination_part(ctx: &Ctx) -> (u64, u64) {
    let mut cases = vec![];
    for outgoing in [true, false] {
        for prefix in 0..PREFIXES.len() {
            for ending in 0..ENDINGS.len() {
                for split in [false, true] {
                    cases.push(TermCase { outgoing, prefix, ending, split });
                }
            }
        }
    }
    let res = core::par_map(
        &cases,
        |w| {
            core::set_quiet_panics(true);
            core::private_cwd("c06", &format!("w{}", w))
        },
        |dir, _, c| term_case(dir, c, false),
    );
    let mut bad = 0;
    for (c, r) in cases.iter().zip(res) {
        if let Some((class, why)) = r {
            bad += 1;
            ctx.violation(class, why, json!({"kind": "termination", "outgoing": c.outgoing, "prefix": c.prefix, "ending": c.ending, "split": c.split}));
        }
    }
    (cases.len() as u64, bad)
}

pub fn run(ctx: &Ctx) -> Outcome {
    let alpha = alphabet();
    let k = ctx.tier.pick(2usize, 3usize);
    let max_cuts = ctx.tier.pick(2usize, 3usize);
    let mut seqs: Vec<Vec<usize>> = vec![];
    fn gen(n: usize, k: usize, cur: &mut Vec<usize>, out: &mut Vec<Vec<usize>>, alpha: &[(&'static str, Vec<u8>)]) {
        if !cur.is_empty() {
            out.push(cur.clone());
        }
        if cur.len() == k {
            return;
        }
        // nothing is decoded after an undecodable message; do not extend past one
        if let Some(last) = cur.last() {
            if alpha[*last].0.starts_with("BAD:") && cur.len() >= 2 {
                return;
            }
        }
        for i in 0..n {
            // at most one of the two 64 KiB-class messages per stream keeps runs cheap
            if i == 10 && cur.contains(&10) {
                continue;
            }
            cur.push(i);
            gen(n, k, cur, out, alpha);
            cur.pop();
        }
    }
    gen(alpha.len(), k, &mut vec![], &mut seqs, &alpha);

    let thorough = ctx.tier == core::Tier::Thorough;
    let results = core::par_map(
        &seqs,
        |_| core::set_quiet_panics(true),
        |_, _, msgs| {
            if ctx.over_budget() {
                return (0u64, 0u64, false, None);
            }
            let (stream, runs) = runs_for(msgs, &alpha, max_cuts, thorough);
            let mut n = 0u64;
            let mut first: Option<(&'static str, String, Run)> = None;
            for r in &runs {
                n += 1;
                if let Some((class, why)) = execute(&stream, r) {
                    if first.is_none() || ctx.class_count(class) == 0 {
                        ctx.violation(
                            class,
                            format!("stream [{}] cuts {:?} eof_at {:?}: {}", msgs.iter().map(|m| alpha[*m].0).collect::<Vec<_>>().join(", "), r.cuts, r.eof_at, why),
                            json!({"msgs": r.msgs, "names": msgs.iter().map(|m| alpha[*m].0).collect::<Vec<_>>(), "cuts": r.cuts, "eof_at": r.eof_at}),
                        );
                    }
                    if first.is_none() {
                        first = Some((class, why, r.clone()));
                    }
                }
            }
            (n, runs.len() as u64, true, first.map(|f| f.0))
        },
    );
    // bursts: many complete unknown-kind messages collected in one read (what the kernel gathers
    // while the task is busy), followed by a known message; whole, and cut behind the burst
    let mut burst_evals = 0u64;
    {
        let unk = alpha.iter().position(|a| a.0 == "Unknown9+0").unwrap();
        let unk2 = alpha.iter().position(|a| a.0 == "Unknown20+2").unwrap();
        let have = alpha.iter().position(|a| a.0 == "Have").unwrap();
        let ka = alpha.iter().position(|a| a.0 == "KeepAlive").unwrap();
        for n in [1usize, 8, 63, 64, 65, 70, 200, 1000] {
            for (filler, tail) in [(unk, have), (unk2, ka), (unk, ka)] {
                let mut msgs = vec![filler; n];
                msgs.push(tail);
                let mut stream = vec![];
                for m in &msgs {
                    stream.extend_from_slice(&alpha[*m].1);
                }
                let burst_end = stream.len() - alpha[tail].1.len();
                for (cuts, eof_at) in [(vec![], None), (vec![], Some(stream.len())), (vec![burst_end], None), (vec![burst_end], Some(stream.len())), (vec![5.min(burst_end)], None)] {
                    let r = Run { msgs: msgs.clone(), cuts, eof_at };
                    burst_evals += 1;
                    if let Some((class, why)) = execute(&stream, &r) {
                        ctx.violation(class, format!("stream [{} x {}, {}] cuts {:?} eof_at {:?}: {}", n, alpha[filler].0, alpha[tail].0, r.cuts, r.eof_at, why), json!({"msgs": r.msgs, "names": [format!("{} x {}", n, alpha[filler].0), alpha[tail].0.to_string()], "cuts": r.cuts, "eof_at": r.eof_at}));
                    }
                }
            }
        }
    }
    let evaluations: u64 = results.iter().map(|r| r.0).sum::<u64>() + burst_evals;
    let complete = results.iter().all(|r| r.2);
    let failing_streams = results.iter().filter(|r| r.3.is_some()).count();

    let (term_cases, term_bad) = termination_part(ctx);
    let (unseamed, unseamed_bad) = unseamed_part(ctx);

    let mut o = Outcome::new("model_checking");
    o.set("unseamed_replays", json!(unseamed));
    o.set("unseamed_replay_mismatches", json!(unseamed_bad));
    o.set("termination_cases_in_real_task", json!(term_cases));
    o.set("termination_cases_violating", json!(term_bad));
    o.set("states", json!(seqs.len()));
    o.set("transitions", json!(evaluations));
    o.set("traces_validated_against_impl", json!(evaluations));
    o.set("evaluations", json!(evaluations));
    o.set("distinct_nontrivial", json!(seqs.len()));
    o.set("rule", json!(format!("states = distinct message streams (all sequences of <= {} messages over the {}-symbol alphabet {:?}, nothing after the second undecodable message); transitions = executions = (stream, segmentation, ending) triples: all 2^(n-1) segmentations for streams of <= 16 bytes, otherwise all subsets of <= {} cuts from the cut-point set (first 6 bytes of each message, message boundaries +-1, mid-payload); each once left open and once closed at the end; plus truncations (closed at {} with 0..1 earlier cuts). Plus bursts: 1, 8, 63, 64, 65, 70, 200 and 1000 complete unknown-kind messages followed by a known one, in one read, cut behind the burst, cut after 5 bytes, open and closed at the end. Every execution drives the real Connection::recv_frame, so each is an implementation trace.", k, alpha.len(), alpha.iter().map(|a| a.0).collect::<Vec<_>>(), max_cuts, if thorough { "every byte offset of streams <= 200 bytes, every cut point otherwise" } else { "every cut point" })));
    o.set("streams_with_a_violation", json!(failing_streams));
    o.set("exhaustive", json!(complete));
    let picks = ctx.seeded_pick(seqs.len(), 4);
    o.set("samples", Value::Array(picks.iter().map(|i| {
        let (stream, runs) = runs_for(&seqs[*i], &alpha, max_cuts, false);
        json!({"stream": seqs[*i].iter().map(|m| alpha[*m].0).collect::<Vec<_>>(), "bytes": stream.len(), "executions": runs.len(), "example_cuts": runs[runs.len() / 2].cuts, "example_eof_at": runs[runs.len() / 2].eof_at})
    }).collect()));
    o.assume("an error is due once the whole undecodable message (or the 5-byte header of an oversized one, or the 68 bytes of a handshake with a wrong protocol string) has been delivered; unknown ids in the alphabet are 9, 20 and 0x54 (the fifth byte of a handshake)");
    o.assume("E-SYS part: 2 directions x 3 valid prefixes x 9 undecodable/closed/reset endings x {one read, split after 5 bytes} in a real PeerHandler::run() task with the real manager; the task must have ended and the manager must have dropped the peer in the quiescent step in which the last offending byte / EOF / RST arrived");
    o.assume("unseamed replays: a covering set of streams (every single message, pairs) in three segmentation/ending shapes is also sent over a real loopback TCP connection into an unhooked Connection::with_socket; frames and ending must equal those of the in-memory pipe branch (a mismatch is a machinery error, not a verdict)");
    o.assume("loopback conformance replays (a subset of the streams over a real socket pair, real clock) must give the same frames and ending as the in-memory run, which E-SEG judged against the reference; a difference is reported as a violation of the real-socket path, a run that cannot be set up as a machinery error");
    o.assume("reference stream decoder refwire.rs; recv_frame is polled with a no-op waker, Pending = the client asks for more bytes");
    o
}

pub fn replay(_ctx: &Ctx, r: &Value) -> i32 {
    if r["kind"] == "flood" {
        return match flood_case(r["lead_max_frame"].as_bool().unwrap(), r["oversized"].as_bool().unwrap(), r["haves"].as_u64().unwrap() as usize) {
            Ok((n, m, None)) => {
                println!("holds: {} frames decoded, at most {} bytes buffered", n, m);
                0
            }
            Ok((_, _, Some((class, why)))) => {
                println!("VIOLATION property=C06 replay=<this file>\n  class={} {}", class, why);
                1
            }
            Err(e) => {
                eprintln!("could not be carried out: {}", e);
                2
            }
        };
    }
    if r["kind"] == "unseamed" {
        println!("recorded outcome of the loopback replay: {}", r["text"].as_str().unwrap_or(""));
        println!("(a timing-dependent real-socket run; `./check C06` repeats all of them)");
        return 1;
    }
    if r["kind"] == "termination" {
        let c = TermCase { outgoing: r["outgoing"].as_bool().unwrap(), prefix: r["prefix"].as_u64().unwrap() as usize, ending: r["ending"].as_u64().unwrap() as usize, split: r["split"].as_bool().unwrap() };
        let dir = core::private_cwd("c06", "replay");
        core::set_quiet_panics(true);
        println!("{:?}: {} connection, prefix {}, ending {}", c, if c.outgoing { "outgoing" } else { "incoming" }, PREFIXES[c.prefix], ENDINGS[c.ending]);
        return match term_case(&dir, &c, true) {
            Some((class, s)) => {
                println!("VIOLATION property=C06 replay=<this file>\n  class={} {}", class, s);
                1
            }
            None => {
                println!("holds for this case");
                0
            }
        };
    }
    let alpha = alphabet();
    let msgs: Vec<usize> = r["msgs"].as_array().unwrap().iter().map(|x| x.as_u64().unwrap() as usize).collect();
    let run = Run {
        msgs: msgs.clone(),
        cuts: r["cuts"].as_array().unwrap().iter().map(|x| x.as_u64().unwrap() as usize).collect(),
        eof_at: r["eof_at"].as_u64().map(|x| x as usize),
    };
    let stream: Vec<u8> = msgs.iter().flat_map(|m| alpha[*m].1.clone()).collect();
    println!("stream {:?} ({} bytes) cuts {:?} eof_at {:?}", msgs.iter().map(|m| alpha[*m].0).collect::<Vec<_>>(), stream.len(), run.cuts, run.eof_at);
    let (want, consumed, err) = refwire::decode_stream(&stream[..run.eof_at.unwrap_or(stream.len())]);
    println!("reference: {:?}, {} bytes consumed, error {:?}", want.iter().map(|m| m.short()).collect::<Vec<_>>(), consumed, err);
    match execute(&stream, &run) {
        Some((class, s)) => {
            println!("VIOLATION property=C06 replay=<this file>\n  class={} {}", class, s);
            1
        }
        None => {
            println!("holds for this execution");
            0
        }
    }
}
