//! C07 — every peer-wire message round-trips through its BEP3 byte layout.
//! E-ENUM over boundary field alphabets per message kind and over all short bit vectors, against the
//! reference codec in refwire.rs.

use crate::core::{self, Ctx, Outcome};
use crate::refwire::{self, Msg};
use rdest::verif::*;
use serde_json::{json, Value};
use std::io::Cursor;

pub const B: [u32; 14] = [
    0, 1, 2, 255, 256, 16383, 16384, 16385, 65535, 65536, 0x7fff_ffff, 0x8000_0000, 0xffff_fffe, 0xffff_ffff,
];
const PAYLOADS: [usize; 9] = [0, 1, 2, 16383, 16384, 16385, 65526, 65527, 65528];

fn patterns20() -> Vec<[u8; 20]> {
    let mut v = vec![[0u8; 20], [0xffu8; 20], [b'T'; 20], [19u8; 20]];
    let mut seq = [0u8; 20];
    for (i, b) in seq.iter_mut().enumerate() {
        *b = i as u8;
    }
    v.push(seq);
    let mut t = [b'a'; 20];
    t[3] = b'T';
    t[4] = 0x54;
    v.push(t);
    v
}

fn payload(n: usize) -> Vec<u8> {
    (0..n).map(|i| (i % 251) as u8 ^ (i / 251) as u8).collect()
}

/// Bytes the real implementation emits for the message.
fn real_bytes(m: &Msg) -> Vec<u8> {
    match m {
        Msg::Handshake { info_hash, peer_id, .. } => Handshake::new(info_hash, peer_id).data(),
        Msg::KeepAlive => KeepAlive::new().data(),
        Msg::Choke => Choke::new().data(),
        Msg::Unchoke => Unchoke::new().data(),
        Msg::Interested => Interested::new().data(),
        Msg::NotInterested => NotInterested::new().data(),
        Msg::Have(i) => Have::new(*i as usize).data(),
        Msg::Bitfield(_) => unreachable!("bitfields are built from bit vectors"),
        Msg::Request(i, b, l) => Request::new(*i as usize, *b as usize, *l as usize).data(),
        Msg::Piece(i, b, d) => Piece::new(*i as usize, *b as usize, d.clone()).data(),
        Msg::Cancel(i, b, l) => Cancel::new(*i as usize, *b as usize, *l as usize).data(),
    }
}

pub fn frame_bytes(f: &Frame) -> Vec<u8> {
    match f {
        Frame::Handshake(m) => m.data(),
        Frame::KeepAlive(m) => m.data(),
        Frame::Choke(m) => m.data(),
        Frame::Unchoke(m) => m.data(),
        Frame::Interested(m) => m.data(),
        Frame::NotInterested(m) => m.data(),
        Frame::Have(m) => m.data(),
        Frame::Bitfield(m) => m.data(),
        Frame::Request(m) => m.data(),
        Frame::Piece(m) => m.data(),
        Frame::Cancel(m) => m.data(),
    }
}

/// Does the decoded frame carry exactly the fields of `m` (through its public accessors)?
fn frame_matches(f: &Frame, m: &Msg) -> bool {
    match (f, m) {
        (Frame::Handshake(h), Msg::Handshake { peer_id, .. }) => h.peer_id() == peer_id,
        (Frame::KeepAlive(_), Msg::KeepAlive) => true,
        (Frame::Choke(_), Msg::Choke) => true,
        (Frame::Unchoke(_), Msg::Unchoke) => true,
        (Frame::Interested(_), Msg::Interested) => true,
        (Frame::NotInterested(_), Msg::NotInterested) => true,
        (Frame::Have(h), Msg::Have(i)) => h.piece_index() == *i as usize,
        (Frame::Bitfield(_), Msg::Bitfield(_)) => true,
        (Frame::Request(r), Msg::Request(i, b, l)) => {
            r.piece_index() == *i as usize && r.block_begin() == *b as usize && r.block_length() == *l as usize
        }
        (Frame::Piece(p), Msg::Piece(i, b, d)) => {
            p.piece_index() == *i as usize && p.block_begin() == *b as usize && p.block() == d && p.block_length() == d.len()
        }
        (Frame::Cancel(_), Msg::Cancel(..)) => true,
        _ => false,
    }
}

const JUNK: [&[u8]; 3] = [b"\x00", b"\x00\x00\x00\x01\x00", b"\xff\xff\xff\xff\xff\xff\xff"];

/// Check one message given the bytes the implementation emitted for it.
pub fn check_bytes(m: &Msg, got: &[u8]) -> Option<(&'static str, String)> {
    let want = refwire::encode(m);
    if got != want.as_slice() {
        return Some((
            "encoding-differs-from-bep3",
            format!("{}: emitted {} expected {}", m.short(), core::show(&got[..got.len().min(40)]), core::show(&want[..want.len().min(40)])),
        ));
    }
    let oversized = want.len() > 4 + refwire::MAX_FRAME && !matches!(m, Msg::Handshake { .. });
    for junk in std::iter::once(&b""[..]).chain(JUNK.iter().copied()) {
        let mut buf = want.clone();
        buf.extend_from_slice(junk);
        let parsed = core::catch(|| {
            let mut crs = Cursor::new(&buf[..]);
            let r = Frame::parse(&mut crs);
            (r, crs.position() as usize)
        });
        match parsed {
            Err(p) => return Some(("parse-panic", format!("{} + {} junk bytes: {}", m.short(), junk.len(), p))),
            Ok((Ok(frame), pos)) => {
                if oversized {
                    return Some(("oversized-frame-accepted", format!("{} accepted", m.short())));
                }
                if pos != want.len() {
                    return Some((
                        "consumed-length-wrong",
                        format!("{} + {} junk bytes: consumed {} of {}", m.short(), junk.len(), pos, want.len()),
                    ));
                }
                if !frame_matches(&frame, m) {
                    return Some(("decoded-fields-differ", format!("{} decoded as {:?}", m.short(), frame)));
                }
                let re = frame_bytes(&frame);
                if re != want {
                    return Some((
                        "reserialisation-differs",
                        format!("{} re-serialised to {}", m.short(), core::show(&re[..re.len().min(40)])),
                    ));
                }
            }
            Ok((Err(e), _)) => {
                if !oversized {
                    return Some(("valid-message-rejected", format!("{} + {} junk bytes: {:?}", m.short(), junk.len(), e)));
                }
            }
        }
    }
    None
}

pub fn check_msg(m: &Msg) -> Option<(&'static str, String)> {
    match core::catch(|| real_bytes(m)) {
        Ok(b) => check_bytes(m, &b),
        Err(p) => Some(("serializer-panic", format!("{}: {}", m.short(), p))),
    }
}

pub fn check_bits(bits: &Vec<bool>) -> Option<(&'static str, String)> {
    let m = Msg::Bitfield(refwire::bitfield_bytes(bits));
    let bf = match core::catch(|| Bitfield::from_vec(bits)) {
        Ok(b) => b,
        Err(p) => return Some(("bitfield-panic", format!("from_vec({:?}): {}", bits, p))),
    };
    if let Some(v) = check_bytes(&m, &bf.data()) {
        return Some(v);
    }
    // decode direction: bytes -> bits for this piece count
    let want = refwire::encode(&m);
    let mut crs = Cursor::new(&want[..]);
    match Frame::parse(&mut crs) {
        Ok(Frame::Bitfield(b)) => match core::catch(|| b.to_vec(bits.len())) {
            Ok(Ok(v)) if &v == bits => {
                if b.validate(bits.len()).is_err() {
                    return Some(("bitfield-validate-rejects", format!("{:?}", bits)));
                }
                None
            }
            other => Some(("bitfield-bits-differ", format!("bits {:?} -> {} -> {:?}", bits, core::hex(&want), other))),
        },
        other => Some(("bitfield-not-decoded", format!("{:?}", other))),
    }
}

fn bits_of(n: usize, x: u64) -> Vec<bool> {
    (0..n).map(|i| x >> i & 1 == 1).collect()
}

pub fn run(ctx: &Ctx) -> Outcome {
    let mut msgs: Vec<Msg> = vec![Msg::KeepAlive, Msg::Choke, Msg::Unchoke, Msg::Interested, Msg::NotInterested];
    for &i in &B {
        msgs.push(Msg::Have(i));
    }
    for &i in &B {
        for &b in &B {
            for &l in &B {
                msgs.push(Msg::Request(i, b, l));
                msgs.push(Msg::Cancel(i, b, l));
            }
        }
    }
    let pats = patterns20();
    for h in &pats {
        for id in &pats {
            msgs.push(refwire::handshake(h, id));
        }
    }
    let fixed = msgs.len();
    for &i in &B {
        for &b in &B {
            for &n in &PAYLOADS {
                msgs.push(Msg::Piece(i, b, payload(n)));
            }
        }
    }
    let res = core::par_map(&msgs, |_| core::set_quiet_panics(true), |_, _, m| check_msg(m));
    for (m, r) in msgs.iter().zip(res) {
        if let Some((class, summary)) = r {
            ctx.violation(class, summary, json!({"kind": "msg", "hex": core::hex(&refwire::encode(m)[..refwire::encode(m).len().min(64)]), "msg": m.short(), "full_len": refwire::encode(m).len()}));
        }
    }

    // all bit vectors up to max_bits, walking patterns above
    let max_bits = ctx.tier.pick(19usize, 26usize);
    let mut bit_cases: u64 = 0;
    for n in 0..=max_bits {
        let total = 1u64 << n;
        let parts = core::par_ranges(total, if total < 4096 { 1 } else { core::workers() * 4 }, |_| core::set_quiet_panics(true), |_, a, b| {
            for x in a..b {
                let bits = bits_of(n, x);
                if let Some((class, summary)) = check_bits(&bits) {
                    ctx.violation(class, summary, json!({"kind": "bits", "bits": bits}));
                }
            }
            b - a
        });
        bit_cases += parts.iter().sum::<u64>();
    }
    let mut pattern_cases = 0u64;
    for n in (max_bits + 1)..=64 {
        let mut vecs: Vec<Vec<bool>> = vec![];
        for i in 0..n {
            vecs.push((0..n).map(|j| j == i).collect());
            vecs.push((0..n).map(|j| j != i).collect());
        }
        vecs.push((0..n).map(|j| j % 2 == 0).collect());
        vecs.push((0..n).map(|j| j % 2 == 1).collect());
        for bits in vecs {
            pattern_cases += 1;
            if let Some((class, summary)) = check_bits(&bits) {
                ctx.violation(class, summary, json!({"kind": "bits", "bits": bits}));
            }
        }
    }

    let mut o = Outcome::new("exploration");
    let evaluations = msgs.len() as u64 + bit_cases + pattern_cases;
    o.set("evaluations", json!(evaluations));
    o.set("distinct_nontrivial", json!(evaluations - 5));
    o.set("rule", json!(format!("field alphabet B={:?}; Have: B; Request/Cancel: B^3; Handshake: 6x6 hash/id patterns (all-0, all-FF, all-'T', all-19, 0..19, 'T' at the id position); Piece: B^2 x payload lengths {:?} (65528 exceeds the frame limit and must be refused); Bitfield: every bit vector of 0..={} bits, walking-one/zero and alternating vectors for {}..=64 bits. Each case: emitted bytes == reference bytes; Frame::parse of the bytes alone and followed by 3 junk suffixes gives the same fields, consumes exactly the message, re-serialises identically. All cases are distinct; the 5 field-less messages are the trivial ones.", B, PAYLOADS, max_bits, max_bits + 1)));
    o.set("fixed_and_have_request_cancel_handshake", json!(fixed));
    o.set("piece_cases", json!(msgs.len() - fixed));
    o.set("bitvector_cases", json!(bit_cases));
    o.set("bitvector_pattern_cases", json!(pattern_cases));
    let picks = ctx.seeded_pick(msgs.len(), 5);
    o.set("samples", Value::Array(picks.iter().map(|i| json!({"msg": msgs[*i].short(), "bytes": core::hex(&refwire::encode(&msgs[*i])[..refwire::encode(&msgs[*i]).len().min(24)])})).collect()));
    o.set("exhaustive", json!(true));
    o.assume("reference codec refwire.rs written from BEP3; nothing is claimed for field values outside B or payload lengths outside the stated list");
    o
}

pub fn replay(_ctx: &Ctx, r: &Value) -> i32 {
    let res = if r["kind"] == "bits" {
        let bits: Vec<bool> = r["bits"].as_array().unwrap().iter().map(|b| b.as_bool().unwrap()).collect();
        println!("bits {:?} reference bytes {}", bits, core::hex(&refwire::bitfield_bytes(&bits)));
        check_bits(&bits)
    } else {
        let hexs = r["hex"].as_str().unwrap_or("");
        let bytes: Vec<u8> = (0..hexs.len() / 2).map(|i| u8::from_str_radix(&hexs[2 * i..2 * i + 2], 16).unwrap()).collect();
        match refwire::next(&bytes) {
            refwire::Step::Msg(m, _) => {
                println!("message {}", m.short());
                check_msg(&m)
            }
            other => {
                println!("replay holds a truncated message ({:?}); re-run the check", other);
                return 2;
            }
        }
    };
    match res {
        Some((class, s)) => {
            println!("VIOLATION property=C07 replay=<this file>\n  class={} {}", class, s);
            1
        }
        None => {
            println!("holds for this case");
            0
        }
    }
}
