//! C08 — only peers of the same torrent (and expected identity) are served.
//! E-SYS (pumped world): one real connection task (outgoing or incoming) and the real manager that
//! owns both pieces; BFS over all histories of a 14-symbol alphabet (7 handshake variants arriving
//! at any point, 7 ordinary messages); oracle on the bytes the client writes.

use crate::core::{self, Ctx, Outcome};
use crate::explore::{self, Scenario};
use crate::fixture::Torrent;
use crate::refwire::{self, Msg};
use crate::world::{peer_cfg, Ev, World, WorldCfg, OWN_ID};
use serde_json::{json, Value};

pub struct Hs {
    pub outgoing: bool,
    /// Single-bit corruption of the info-hash used by the `HS:hash<bit>` events of this scenario.
    pub bits: Vec<usize>,
    /// A second connection D (an honest seeder) completes pieces meanwhile (event Dp): the manager
    /// then announces them to every connection task, handshaken or not. The client owns nothing at
    /// the start in this variant.
    pub downloader: bool,
    /// Ten other (manager-only) peers hold all regular upload slots and every connection has
    /// reported its rates, so a choke rotation (event R) is carried out and has to deal with the
    /// connection under test as "one of the rest".
    pub crowded: bool,
    /// Z: the manager becomes busy and the rest of the swarm fills its command queue to the last
    /// slot; W: it comes back and works the queue off. What the manager must have done (forget a
    /// rejected peer) is judged once it is back.
    pub fullqueue: bool,
}

#[derive(Default)]
pub struct Mon {
    pub d_answered: usize,
    /// Every byte fed so far; handshakes are recognised by the reference stream decoder, so a
    /// handshake that arrives misaligned (after a truncated one) does not count.
    pub fed: Vec<u8>,
    pub valid_hs_fed: bool,
    /// A well-formed handshake naming another torrent / another peer id was fed at this write count.
    pub rejected_at: Option<usize>,
    pub scanned: usize,
    pub pauses: usize,
    pub queued: Vec<String>,
    /// T events so far (one keep-alive interval of virtual time each).
    pub ticks: usize,
}

pub const PLAIN: [&str; 7] = ["Bitfield", "Interested", "NotInterested", "Unchoke", "Request", "Have", "KeepAlive"];

fn torrent() -> Torrent {
    Torrent::new("t", 5, &[("f", 10)], true)
}

impl Hs {
    fn symbols(&self) -> Vec<String> {
        let mut v: Vec<String> = vec!["HS:good".into()];
        for b in &self.bits {
            v.push(format!("HS:hash{}", b));
        }
        if self.outgoing {
            v.push("HS:otherid".into());
        }
        if self.downloader || self.crowded || self.fullqueue {
            v.extend(["KeepAlive", "Interested", "Have"].iter().map(|s| s.to_string()));
            if self.downloader {
                // choke state before any handshake: an Unchoke would flush the announcements that the
                // task holds back for a peer that chokes us
                v.extend(["Unchoke", "Choke"].iter().map(|s| s.to_string()));
            }
            if self.crowded {
                v.push("R".to_string());
            }
            return v;
        }
        v.extend(["HS:pstr", "HS:pstrlen", "HS:trunc"].iter().map(|s| s.to_string()));
        v.extend(PLAIN.iter().map(|s| s.to_string()));
        v
    }
}

fn event_bytes(w: &World, sym: &str) -> Vec<u8> {
    let t = &w.t;
    let id = w.peers[0].cfg.id;
    let good = refwire::encode(&refwire::handshake(t.meta.info_hash(), &id));
    if let Some(bit) = sym.strip_prefix("HS:hash") {
        let bit: usize = bit.parse().unwrap();
        let mut h = good.clone();
        h[28 + bit / 8] ^= 0x80 >> (bit % 8);
        return h;
    }
    match sym {
        "HS:good" => good,
        "HS:otherid" => refwire::encode(&refwire::handshake(t.meta.info_hash(), b"-XX0000-someoneelse!")),
        "HS:pstr" => {
            let mut h = good.clone();
            h[10] = b'X';
            h
        }
        "HS:pstrlen" => {
            let mut h = good.clone();
            h[0] = 18;
            h
        }
        "HS:trunc" => good[..30].to_vec(),
        "Bitfield" => refwire::encode(&Msg::Bitfield(vec![0xc0])),
        "Interested" => refwire::encode(&Msg::Interested),
        "NotInterested" => refwire::encode(&Msg::NotInterested),
        "Unchoke" => refwire::encode(&Msg::Unchoke),
        "Choke" => refwire::encode(&Msg::Choke),
        "Request" => refwire::encode(&Msg::Request(0, 0, 5)),
        "Have" => refwire::encode(&Msg::Have(0)),
        "KeepAlive" => refwire::encode(&Msg::KeepAlive),
        other => panic!("unknown symbol {}", other),
    }
}

impl Scenario for Hs {
    type Mon = Mon;
    fn name(&self) -> String {
        format!("handshake-{}-bits{:?}{}", if self.outgoing { "outgoing" } else { "incoming" }, self.bits, if self.downloader { "-while-downloading" } else if self.crowded { "-crowded" } else if self.fullqueue { "-fullqueue" } else { "" })
    }
    fn cfg(&self) -> WorldCfg {
        if self.downloader {
            return WorldCfg { torrent: torrent(), have: vec![], peers: vec![peer_cfg(0, self.outgoing), peer_cfg(1, true)], gated: false, stale: vec![] };
        }
        WorldCfg { torrent: torrent(), have: vec![0, 1], peers: vec![peer_cfg(0, self.outgoing)], gated: false, stale: vec![] }
    }
    fn setup(&self, w: &mut World, _mon: &mut Mon) {
        if self.crowded {
            for k in 0..10 {
                w.add_mgr_peer();
                w.step(&Ev::MgrStats(k, Some(100 + k as u32), Some(100 + k as u32)), &[]);
                w.step(&Ev::MgrBitfield(k, vec![false, false]), &[]);
                w.step(&Ev::MgrInterested(k), &[]);
            }
            // the connection under test reports its rates on its own (two statistics ticks)
            w.step(&Ev::AdvanceTo(20_500), &[]);
        }
        if self.fullqueue {
            w.add_mgr_peer();
        }
        if self.downloader {
            let t = w.t.clone();
            let id = w.peers[1].cfg.id;
            w.feed(1, &[refwire::handshake(t.meta.info_hash(), &id), Msg::Bitfield(vec![0xc0]), Msg::Unchoke]);
        }
    }
    fn enabled(&self, w: &World, mon: &Mon, _depth: usize) -> Vec<String> {
        let mut v = if w.peers[0].ended.get() { vec![] } else { self.symbols() };
        // T: one keep-alive interval passes (plain variants; the connection is over after three)
        if !w.peers[0].ended.get() && !(self.downloader || self.crowded || self.fullqueue) && mon.ticks < 3 {
            v.push("T".to_string());
        }
        if self.downloader && w.peers[1].msgs.iter().filter(|m| matches!(m, Msg::Request(..))).count() > mon.d_answered {
            v.push("Dp".to_string());
        }
        if self.fullqueue {
            if w.manager_paused {
                v.push("W".to_string());
            } else if mon.pauses < 1 && !w.peers[0].ended.get() {
                v.push("Z".to_string());
            }
        }
        v
    }
    fn concretize(&self, w: &World, mon: &Mon, sym: &str) -> Vec<Ev> {
        if sym == "R" {
            return vec![Ev::Rotate];
        }
        if sym == "T" {
            return vec![Ev::AdvanceTo((mon.ticks as u64 + 1) * 120_000 + 500)];
        }
        if sym == "Z" {
            return vec![Ev::PauseManager, Ev::FillQueue];
        }
        if sym == "W" {
            return vec![Ev::ResumeManager];
        }
        if sym == "Dp" {
            let req = w.peers[1].msgs.iter().filter(|m| matches!(m, Msg::Request(..))).nth(mon.d_answered).cloned();
            if let Some(Msg::Request(i, b, l)) = req {
                let data = w.t.pieces[i as usize][b as usize..(b + l) as usize].to_vec();
                return vec![Ev::Feed(1, refwire::encode(&Msg::Piece(i, b, data)))];
            }
            return vec![];
        }
        vec![Ev::Feed(0, event_bytes(w, sym))]
    }
    fn check(&self, w: &World, mon: &mut Mon, last: Option<&str>) -> Option<(&'static str, String)> {
        if let Some(d) = &w.dead {
            return Some(("manager-died", d.clone()));
        }
        if let Some(p) = w.handler_panics.first() {
            return Some(("connection-task-panicked", p.clone()));
        }
        let p = &w.peers[0];
        let before = mon.scanned;
        mon.scanned = p.msgs.len();
        // a handshake only counts when the connection is still at a message boundary; the harness
        // knows that from the handler's own buffer being empty before the step (conn_buffer_len is
        // part of the state), approximated here by: no truncated handshake was fed before
        if last == Some("Dp") {
            mon.d_answered += 1;
        }
        if last == Some("T") {
            mon.ticks += 1;
        }
        match last {
            Some("Z") => mon.pauses += 1,
            Some("W") => mon.queued.clear(),
            Some(s) if w.manager_paused => mon.queued.push(s.to_string()),
            _ => {}
        }
        if last == Some("Z") && w.queue_filled == 0 {
            return Some(("machinery", "the queue could not be filled".to_string()));
        }
        if let Some(sym) = last.filter(|s| *s != "Dp" && *s != "R" && *s != "Z" && *s != "W" && *s != "T") {
            mon.fed.extend(event_bytes(w, sym));
            let (decoded, _, _) = refwire::decode_stream(&mon.fed);
            let n_before = decoded.len();
            let _ = n_before;
            let mut valid = false;
            let mut foreign = false;
            for m in &decoded {
                if let Msg::Handshake { info_hash, peer_id, .. } = m {
                    let ok = info_hash == w.t.meta.info_hash() && (!self.outgoing || *peer_id == w.peers[0].cfg.id);
                    if ok && !foreign {
                        valid = true;
                    }
                    if !ok {
                        foreign = true;
                    }
                }
            }
            mon.valid_hs_fed = valid;
            if foreign && mon.rejected_at.is_none() {
                // fed while the manager is busy, behind a valid handshake the task is still working
                // on (it waits for the manager): what the task writes when the manager is back may
                // belong to the messages in front; only the ending is judged then
                mon.rejected_at = Some(if w.manager_paused && valid { usize::MAX } else { before });
            }
        }
        // (1) the client's first message is its own, correct handshake
        if let Some(first) = p.msgs.first() {
            match first {
                Msg::Handshake { info_hash, peer_id, .. } if info_hash == w.t.meta.info_hash() && peer_id == OWN_ID => {}
                other => return Some(("first-message-is-not-own-handshake", format!("client's first message: {}", other.short()))),
            }
        }
        if p.msgs.iter().skip(1).any(|m| matches!(m, Msg::Handshake { .. })) {
            return Some(("second-handshake-sent", format!("{:?}", p.msgs.iter().map(|m| m.short()).collect::<Vec<_>>())));
        }
        // (2) an incoming connection gets no reply before its handshake validated
        if !self.outgoing && !mon.valid_hs_fed && !p.msgs.is_empty() {
            return Some((
                "reply-before-valid-handshake",
                format!("incoming connection, no valid handshake received, but the client wrote {:?}", p.msgs.iter().map(|m| m.short()).collect::<Vec<_>>()),
            ));
        }
        // (4) no piece data without a completed valid handshake
        if !mon.valid_hs_fed && p.msgs.iter().any(|m| matches!(m, Msg::Piece(..))) {
            return Some((
                "piece-data-without-handshake",
                format!("no valid handshake was received on this {} connection, but the client wrote {:?}", if self.outgoing { "outgoing" } else { "incoming" }, p.msgs.iter().map(|m| m.short()).collect::<Vec<_>>()),
            ));
        }
        // (3) after a well-formed handshake for another torrent / identity: silence, end, forgotten
        if let Some(at) = mon.rejected_at {
            if p.msgs.len() > at {
                return Some(("wrote-after-foreign-handshake", format!("after the foreign handshake the client wrote {:?}", p.msgs[at..].iter().map(|m| m.short()).collect::<Vec<_>>())));
            }
            // (a busy manager has not seen the task's last words yet: judged when it is back)
            if !w.manager_paused && (!p.ended.get() || w.snap().peers.iter().any(|x| x.addr == p.cfg.addr)) {
                return Some(("foreign-handshake-not-closed", format!("connection task ended: {}, manager still lists the peer: {}", p.ended.get(), w.snap().peers.iter().any(|x| x.addr == p.cfg.addr))));
            }
        }
        None
    }
    fn key(&self, w: &World, mon: &Mon) -> String {
        format!("{} v={} r={:?} n={} d={} busy={} q={:?} z={} t={}", w.default_key(), mon.valid_hs_fed, mon.rejected_at.is_some(), w.peers[0].msgs.len(), mon.d_answered, w.manager_paused, mon.queued, mon.pauses, mon.ticks)
    }
}

pub fn scenarios(thorough: bool) -> Vec<Hs> {
    let mut v = vec![
        Hs { outgoing: true, bits: vec![0, 159], downloader: false, crowded: false, fullqueue: false },
        Hs { outgoing: false, bits: vec![0, 159], downloader: false, crowded: false, fullqueue: false },
        Hs { outgoing: false, bits: vec![0], downloader: true, crowded: false, fullqueue: false },
        Hs { outgoing: true, bits: vec![0], downloader: true, crowded: false, fullqueue: false },
        Hs { outgoing: false, bits: vec![0], downloader: false, crowded: true, fullqueue: false },
        Hs { outgoing: true, bits: vec![0], downloader: false, crowded: true, fullqueue: false },
        Hs { outgoing: false, bits: vec![0], downloader: false, crowded: false, fullqueue: true },
        Hs { outgoing: true, bits: vec![0], downloader: false, crowded: false, fullqueue: true },
    ];
    if thorough {
        v.push(Hs { outgoing: true, bits: vec![7, 80], downloader: false, crowded: false, fullqueue: false });
        v.push(Hs { outgoing: false, bits: vec![31, 128], downloader: false, crowded: false, fullqueue: false });
    }
    v
}

pub fn run(ctx: &Ctx) -> Outcome {
    let depth = ctx.tier.pick(6, 12);
    let mut total = explore::Stats { exhaustive: true, ..Default::default() };
    let mut per = vec![];
    for s in scenarios(ctx.tier == core::Tier::Thorough) {
        // the full-queue variants keep every event of the busy episode in the state (they sit in
        // queues), so their state space grows much faster with depth than the others'
        let depth = if s.fullqueue { ctx.tier.pick(6, 8) } else { depth };
        let st = explore::bfs(ctx, &s, depth, ctx.tier.pick(50, 20));
        per.push(json!({"scenario": s.name(), "depth": depth, "states": st.states, "transitions": st.transitions, "depth_completed": st.depth_completed, "frontier": st.frontier_sizes}));
        total.merge(&st);
    }
    // every single-bit corruption of the info-hash, as the first thing received, both directions
    let mut bit_runs = 0u64;
    for outgoing in [true, false] {
        let bits: Vec<usize> = (0..160).collect();
        let res = core::par_map(
            &bits,
            |w| {
                core::set_quiet_panics(true);
                core::private_cwd("bfs", &format!("w{}", w))
            },
            |dir, _, b| {
                let s = Hs { outgoing, bits: vec![*b], downloader: false, crowded: false, fullqueue: false };
                let r = explore::replay(&s, dir, &[(format!("HS:hash{}", b), vec![])], false);
                r.violation
            },
        );
        for (b, v) in bits.iter().zip(res) {
            bit_runs += 1;
            if let Some((class, why)) = v {
                let s = Hs { outgoing, bits: vec![*b], downloader: false, crowded: false, fullqueue: false };
                ctx.violation(class, format!("[{}] {}", s.name(), why), json!({"scenario": s.name(), "history": [format!("HS:hash{}", b)]}));
            }
        }
    }
    // which id is expected for which address is decided by the manager when it dials: tracker
    // replies that re-list a connected address next to a new one exist only in the full-session world
    for (s, depth) in crate::c02::identity_scenarios() {
        let st = explore::bfs(ctx, &s, depth, ctx.tier.pick(50, 25));
        per.push(json!({"scenario": explore::Sys::name(&s), "depth": depth, "states": st.states, "transitions": st.transitions, "depth_completed": st.depth_completed}));
        total.merge(&st);
    }
    // the accept path of the real session (listener, spawn_peer_listener, the accepted socket):
    // a peer dials in over loopback TCP and sends nothing / a foreign handshake / a good one
    let dir = core::private_cwd("c08", "dialin");
    let t = torrent();
    let good = refwire::encode(&refwire::handshake(t.meta.info_hash(), b"-HS0001-dialinpeer00"));
    let mut foreign = good.clone();
    foreign[28] ^= 0x01;
    let mut dial_rows = vec![];
    for (what, chunks) in [("silence", vec![]), ("foreign-info-hash", vec![foreign.clone()]), ("good-handshake", vec![good.clone()]), ("bitfield-before-handshake", vec![refwire::encode(&Msg::Bitfield(vec![0xc0]))])] {
        match crate::c02::dial_in_exchange(&t, &dir, chunks) {
            Err(e) => ctx.machinery_error(format!("dial-in exchange '{}' could not run: {}", what, e)),
            Ok((before, after, closed)) => {
                dial_rows.push(json!({"case": what, "bytes_before_sending": before.len(), "bytes_after": after.len(), "closed_by_client": closed}));
                let (msgs, _, _) = refwire::decode_stream(&after);
                let verdict = if !before.is_empty() {
                    Some(("reply-before-valid-handshake", format!("{} bytes arrived before the dial-in peer sent anything", before.len())))
                } else if what != "good-handshake" && !after.is_empty() {
                    Some(("reply-before-valid-handshake", format!("the dial-in peer sent {} and the client wrote {:?}", what, msgs.iter().map(|m| m.short()).collect::<Vec<_>>())))
                } else if (what == "foreign-info-hash" || what == "bitfield-before-handshake") && !closed {
                    Some(("foreign-handshake-not-closed", format!("the dial-in peer sent {} and the client kept the connection open", what)))
                } else if what == "good-handshake" {
                    match msgs.first() {
                        Some(Msg::Handshake { info_hash, peer_id, .. }) if info_hash == t.meta.info_hash() && peer_id == OWN_ID => None,
                        other => Some(("first-message-is-not-own-handshake", format!("after a good handshake the client's first message to a dial-in peer is {:?}", other.map(|m| m.short())))),
                    }
                } else {
                    None
                };
                if let Some((class, why)) = verdict {
                    ctx.violation(class, format!("[dial-in over loopback: {}] {}", what, why), json!({"scenario": "dial-in", "case": what, "history": []}));
                }
            }
        }
    }
    let mut o = Outcome::new("model_checking");
    o.set("dial_in_exchanges", Value::Array(dial_rows));
    explore::stats_outcome(&total, &mut o);
    o.set("scenarios", Value::Array(per));
    o.set("single_bit_hash_corruptions", json!(bit_runs));
    o.set("rule", json!(format!("BFS to depth {} (full-queue variants: 6, thorough 8) over the alphabet [HS:good, HS:hash0, HS:hash159, HS:otherid (outgoing only), HS:pstr, HS:pstrlen, HS:trunc, {}] on an outgoing and an incoming connection, manager owning both pieces; -crowded variants: ten manager-only peers hold all regular upload slots, every connection has reported rates, and R (one real choke rotation) may happen at any point of the handshake phase; -fullqueue variants: Z (the manager becomes busy and 64 statistics reports of the rest of the swarm fill its command queue to the last slot) and W (it comes back and works the queue off) around the handshake events, so the task's last words to the manager find no free slot; -while-downloading variants: the client owns nothing, a second connection D (honest seeder) completes pieces at any point (event Dp, so the manager announces them to every connection task) while the connection under test sends good / corrupted handshakes, KeepAlive, Interested, Have, Unchoke, Choke; a state is the canonical snapshot of manager + connection task + files + monitor; histories end when the connection task ended. Plus all 160 single-bit corruptions of the info-hash as first message, both directions. Plus three full-session scenarios borrowed from C02 (identity-*): a re-announce lists a connected address followed by a new one, whose peer presents its own announced id (must stay connected) or the id of the connected peer (must be dropped); a host re-listed under a new id. Plus four exchanges with the real session's accept path over loopback TCP (real clock): a dial-in peer stays silent / sends a handshake for another torrent / a good handshake / a Bitfield before any handshake.", depth, PLAIN.join(", "))));
    o.assume("a truncated handshake followed by other bytes is undecodable input (C06's subject); after it nothing is demanded here except (2) and (4)");
    o
}

pub fn parse_name(name: &str) -> Hs {
    let outgoing = name.contains("outgoing");
    let inner = name.split("bits[").nth(1).unwrap().split(']').next().unwrap();
    let bits: Vec<usize> = inner.split(", ").filter(|s| !s.is_empty()).map(|s| s.parse().unwrap()).collect();
    Hs { outgoing, bits, downloader: name.contains("while-downloading"), crowded: name.contains("crowded"), fullqueue: name.contains("fullqueue") }
}

pub fn replay(_ctx: &Ctx, r: &Value) -> i32 {
    if r["scenario"] == "dial-in" {
        let dir = core::private_cwd("c08", "replay");
        let t = torrent();
        let good = refwire::encode(&refwire::handshake(t.meta.info_hash(), b"-HS0001-dialinpeer00"));
        let mut foreign = good.clone();
        foreign[28] ^= 0x01;
        let chunks = match r["case"].as_str().unwrap_or("") {
            "silence" => vec![],
            "foreign-info-hash" => vec![foreign],
            "good-handshake" => vec![good],
            _ => vec![refwire::encode(&Msg::Bitfield(vec![0xc0]))],
        };
        let res = crate::c02::dial_in_exchange(&t, &dir, chunks);
        println!("dial-in exchange {:?}: {:?}", r["case"], res.as_ref().map(|(b, a, c)| (b.len(), refwire::decode_stream(a).0.iter().map(|m| m.short()).collect::<Vec<_>>(), *c)));
        println!("(bytes received before sending, messages received afterwards, closed by the client); judged as in `./check C08`");
        return if res.is_ok() { 1 } else { 2 };
    }
    for (s, _) in crate::c02::identity_scenarios() {
        if explore::Sys::name(&s) == r["scenario"].as_str().unwrap() {
            return explore::replay_verbose(&s, &explore::hist_from_json(&r["history"]), "C08");
        }
    }
    let s = parse_name(r["scenario"].as_str().unwrap());
    explore::replay_verbose(&s, &explore::hist_from_json(&r["history"]), "C08")
}
