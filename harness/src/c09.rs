//! C09 — uploads return exactly the requested stored bytes, or nothing.
//! E-SYS (pumped world, one real connection task + the real manager): every request of a 240-value
//! boundary alphabet in every choke context, pairs (and triples) of requests with choke /
//! choke+unchoke decisions of the real rotation in between; oracle on the frames the client writes.

use crate::core::{self, Ctx, Outcome};
use crate::fixture::Torrent;
use crate::refwire::{self, Msg};
use crate::world::{peer_cfg, Ev, World, WorldCfg};
use serde_json::{json, Value};
use std::collections::BTreeSet;
use std::path::PathBuf;

pub const IDX: [u32; 5] = [0, 1, 2, 3, u32::MAX];
pub const BEG: [u32; 8] = [0, 1, 3, 16384, 16386, 16387, u32::MAX - 16383, u32::MAX];
pub const LEN: [u32; 6] = [0, 1, 3, 16384, 16385, u32::MAX];
pub const PLEN: usize = 16387;

pub fn requests() -> Vec<(u32, u32, u32)> {
    let mut v = vec![];
    for i in IDX {
        for b in BEG {
            for l in LEN {
                v.push((i, b, l));
            }
        }
    }
    v
}

/// Requests that make the client load a piece it owns (valid and answered when unchoked).
pub fn loaders() -> Vec<(u32, u32, u32)> {
    vec![(0, 0, 1), (0, 3, 16384), (0, 16386, 1), (2, 0, 3), (2, 1, 1), (2, 0, 1)]
}

pub const CONTEXTS: [&str; 5] = ["never-unchoked", "unchoked", "unchoked-then-choked", "choked-then-unchoked-again", "lost-interest"];
pub const MIDS: [&str; 3] = ["nothing", "choke", "choke+unchoke"];

#[derive(Clone, Debug)]
pub struct Case {
    pub incoming: bool,
    pub ctx: usize,
    /// (request, what happens after it)
    pub seq: Vec<((u32, u32, u32), usize)>,
}

fn torrent() -> Torrent {
    Torrent::new("t", PLEN, &[("f", 2 * PLEN + 5)], true)
}

struct Wire {
    unchoked: bool,
    scanned: usize,
}

fn scan_wire(w: &World, wire: &mut Wire) {
    for m in &w.peers[0].msgs[wire.scanned..] {
        match m {
            Msg::Unchoke => wire.unchoked = true,
            Msg::Choke => wire.unchoked = false,
            _ => {}
        }
    }
    wire.scanned = w.peers[0].msgs.len();
}

pub fn run_case(dir: &PathBuf, c: &Case, verbose: bool) -> (String, u64, Option<(&'static str, String)>) {
    let t = torrent();
    let cfg = WorldCfg { torrent: t.clone(), have: vec![0, 2], peers: vec![peer_cfg(0, !c.incoming)], gated: false };
    let mut w = World::new(&cfg, dir);
    let id = w.peers[0].cfg.id;
    let mut steps = 0u64;
    let mut wire = Wire { unchoked: false, scanned: 0 };
    let mut time = 0u64;
    let mut say = |w: &World, what: &str| {
        if verbose {
            println!("== {}\n   manager handled {:?}\n   client wrote {:?}\n   {}", what, w.cmds, w.new_msgs(0).iter().map(|m| m.short()).collect::<Vec<_>>(), w.handler_key(0));
        }
    };
    w.feed(0, &[refwire::handshake(t.meta.info_hash(), &id)]);
    say(&w, "handshake");
    steps += 1;
    let mut do_choke = |w: &mut World, time: &mut u64, steps: &mut u64| {
        // rates must be known before a rotation does anything: two statistics ticks
        if *time < 20_500 {
            *time = 20_500;
            w.step(&Ev::AdvanceTo(*time), &[]);
            *steps += 1;
        }
        w.feed(0, &[Msg::NotInterested]);
        w.step(&Ev::Rotate, &[]);
        *steps += 2;
    };
    let do_unchoke = |w: &mut World, steps: &mut u64| {
        w.feed(0, &[Msg::Interested]);
        w.step(&Ev::Rotate, &[]);
        *steps += 2;
    };
    if c.ctx >= 1 {
        w.feed(0, &[Msg::Bitfield(vec![0xe0])]);
        say(&w, "bitfield");
        steps += 1;
    }
    match c.ctx {
        2 => do_choke(&mut w, &mut time, &mut steps),
        3 => {
            do_choke(&mut w, &mut time, &mut steps);
            do_unchoke(&mut w, &mut steps);
        }
        4 => {
            w.feed(0, &[Msg::Interested]);
            w.feed(0, &[Msg::NotInterested]);
            steps += 2;
        }
        _ => {}
    }
    scan_wire(&w, &mut wire);
    say(&w, &format!("context {} established; unchoked on the wire: {}", CONTEXTS[c.ctx], wire.unchoked));
    let expect_unchoked = matches!(c.ctx, 1 | 3 | 4);
    if wire.unchoked != expect_unchoked && w.dead.is_none() && w.handler_panics.is_empty() {
        // the harness could not establish the context (e.g. rotation skipped): machinery problem
        return (String::new(), steps, Some(("MACHINERY", format!("context {} not established: wire unchoked = {}", CONTEXTS[c.ctx], wire.unchoked))));
    }
    for (r, mid) in &c.seq {
        let before = w.peers[0].msgs.len();
        w.feed(0, &[Msg::Request(r.0, r.1, r.2)]);
        steps += 1;
        say(&w, &format!("Request{:?}", r));
        if let Some(d) = &w.dead {
            return (w.default_key(), steps, Some(("manager-died", format!("{:?}: {}", c, d))));
        }
        if let Some(p) = w.handler_panics.first() {
            let class = if p.contains("overflow") && (r.1 as u64 + r.2 as u64) > u32::MAX as u64 { "request-offset-plus-length-overflow-panics" } else { "connection-task-panicked" };
            return (w.default_key(), steps, Some((class, format!("Request{:?} in context {}: {}", r, CONTEXTS[c.ctx], p))));
        }
        let new: Vec<&Msg> = w.peers[0].msgs[before..].iter().collect();
        let pieces: Vec<&&Msg> = new.iter().filter(|m| matches!(m, Msg::Piece(..))).collect();
        if pieces.len() > 1 {
            return (w.default_key(), steps, Some(("more-than-one-piece-per-request", format!("Request{:?}: {:?}", r, new.iter().map(|m| m.short()).collect::<Vec<_>>()))));
        }
        if let Some(Msg::Piece(i, b, data)) = pieces.first().map(|m| **m) {
            let owned = *i == 0 || *i == 2;
            let plen = if owned { t.pieces[*i as usize].len() as u64 } else { 0 };
            let in_range = r.2 <= 16384 && (r.1 as u64 + r.2 as u64) <= plen;
            if !wire.unchoked {
                return (w.default_key(), steps, Some(("piece-sent-while-choked", format!("{:?}: Request{:?} answered with {} although the last choke-state message written on this connection was Choke (or none)", c, r, Msg::Piece(*i, *b, data.clone()).short()))));
            }
            if *i != r.0 || *b != r.1 || !owned || !in_range {
                return (w.default_key(), steps, Some(("piece-for-invalid-request", format!("Request{:?} answered with Piece({},{},{}B)", r, i, b, data.len()))));
            }
            let want = &t.pieces[*i as usize][r.1 as usize..(r.1 + r.2) as usize];
            if data.as_slice() != want {
                return (w.default_key(), steps, Some(("piece-data-wrong", format!("Request{:?}: {} bytes, expected {} bytes of the stored piece", r, data.len(), want.len()))));
            }
        }
        match mid {
            1 => {
                do_choke(&mut w, &mut time, &mut steps);
                say(&w, "rotation: choke");
            }
            2 => {
                do_choke(&mut w, &mut time, &mut steps);
                do_unchoke(&mut w, &mut steps);
                say(&w, "rotation: choke, then unchoke");
            }
            _ => {}
        }
        scan_wire(&w, &mut wire);
    }
    (w.default_key(), steps, None)
}

pub fn cases(thorough: bool) -> Vec<Case> {
    let reqs = requests();
    let mut out = vec![];
    for incoming in [false, true] {
        for ctx in 0..CONTEXTS.len() {
            for r in &reqs {
                out.push(Case { incoming, ctx, seq: vec![(*r, 0)] });
            }
        }
    }
    let firsts = if thorough { reqs.clone() } else { loaders() };
    for r1 in &firsts {
        for mid in 0..MIDS.len() {
            for r2 in &reqs {
                out.push(Case { incoming: false, ctx: 1, seq: vec![(*r1, mid), (*r2, 0)] });
            }
        }
    }
    if thorough {
        let sub: Vec<(u32, u32, u32)> = vec![(0, 0, 1), (0, 3, 16384), (2, 0, 3), (2, 1, 1), (1, 0, 1), (3, 0, 1), (0, 16386, 3), (2, 3, 3), (0, 0, 16385), (0, u32::MAX, 1), (2, 0, 0), (u32::MAX, 0, 1)];
        for a in &sub {
            for m1 in 0..MIDS.len() {
                for b in &sub {
                    for m2 in 0..MIDS.len() {
                        for c in &sub {
                            out.push(Case { incoming: true, ctx: 1, seq: vec![(*a, m1), (*b, m2), (*c, 0)] });
                        }
                    }
                }
            }
        }
    }
    out
}

pub fn run(ctx: &Ctx) -> Outcome {
    let all = cases(ctx.tier == core::Tier::Thorough);
    let res = core::par_map(
        &all,
        |w| {
            core::set_quiet_panics(true);
            core::private_cwd("c09", &format!("w{}", w))
        },
        |dir, _, c| {
            if ctx.over_budget() {
                return None;
            }
            Some(run_case(dir, c, false))
        },
    );
    let mut keys = BTreeSet::new();
    let mut steps = 0u64;
    let mut done = 0u64;
    let mut served = 0u64;
    for (c, r) in all.iter().zip(res.iter()) {
        if let Some((key, n, v)) = r {
            done += 1;
            steps += n;
            if key.contains("tx=Some") {
                served += 1;
            }
            keys.insert(core::sha1(key.as_bytes()));
            if let Some((class, why)) = v {
                if *class == "MACHINERY" {
                    ctx.machinery_error(why.clone());
                } else {
                    ctx.violation(class, why.clone(), json!({"incoming": c.incoming, "ctx": c.ctx, "seq": c.seq.iter().map(|(r, m)| json!([r.0, r.1, r.2, m])).collect::<Vec<_>>()}));
                }
            }
        }
    }
    let mut o = Outcome::new("model_checking");
    o.set("states", json!(keys.len()));
    o.set("transitions", json!(steps));
    o.set("traces_validated_against_impl", json!(done));
    o.set("histories", json!(all.len()));
    o.set("histories_ending_with_a_loaded_piece", json!(served));
    o.set("exhaustive", json!(done == all.len() as u64));
    o.set("rule", json!(format!("requests = {:?} x {:?} x {:?} (240); histories: every single request in each of the contexts {:?} on an outgoing and an incoming connection; every pair (r1, r2) with r1 from {} and one of {:?} in between{}; states = distinct final snapshots, transitions = events executed", IDX, BEG, LEN, CONTEXTS, if ctx.tier == core::Tier::Thorough { "all 240 requests" } else { "the 6 loader requests" }, MIDS, if ctx.tier == core::Tier::Thorough { "; every triple over a 12-request sub-alphabet with every pair of in-between decisions" } else { "" })));
    let picks = ctx.seeded_pick(all.len(), 4);
    o.set("samples", Value::Array(picks.iter().map(|i| json!({"connection": if all[*i].incoming { "incoming" } else { "outgoing" }, "context": CONTEXTS[all[*i].ctx], "requests": all[*i].seq.iter().map(|(r, m)| json!({"request": [r.0, r.1, r.2], "then": MIDS[*m]})).collect::<Vec<_>>()})).collect()));
    o.assume("client owns pieces 0 (16387 B) and 2 (5 B), not piece 1; choke/unchoke decisions are produced by the real rotation (timeout_change_conn_state) after the connection reported its rates; overflow checks are on, as in cargo test / cargo run builds");
    o.assume("nothing is claimed for request fields outside the alphabet");
    o
}

pub fn replay(_ctx: &Ctx, r: &Value) -> i32 {
    let c = Case {
        incoming: r["incoming"].as_bool().unwrap(),
        ctx: r["ctx"].as_u64().unwrap() as usize,
        seq: r["seq"].as_array().unwrap().iter().map(|e| ((e[0].as_u64().unwrap() as u32, e[1].as_u64().unwrap() as u32, e[2].as_u64().unwrap() as u32), e[3].as_u64().unwrap() as usize)).collect(),
    };
    let dir = core::private_cwd("c09", "replay");
    core::set_quiet_panics(true);
    println!("{:?}", c);
    match run_case(&dir, &c, true).2 {
        Some((class, s)) => {
            println!("VIOLATION property=C09 replay=<this file>\n  class={} {}", class, s);
            1
        }
        None => {
            println!("holds for this history");
            0
        }
    }
}
