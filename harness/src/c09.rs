//! C09 — uploads return exactly the requested stored bytes, or nothing.
//! E-SYS (pumped world, one real connection task + the real manager): every request of a 240-value
//! boundary alphabet in every choke context, pairs (and triples) of requests with choke /
//! choke+unchoke decisions of the real rotation in between; oracle on the frames the client writes.

use crate::core::{self, Ctx, Outcome};
use crate::fixture::Torrent;
use crate::refwire::{self, Msg};
use crate::world::{peer_cfg, Ev, World, WorldCfg};
use serde_json::{json, Value};
use std::collections::BTreeSet;
use std::path::PathBuf;

pub const IDX: [u32; 5] = [0, 1, 2, 3, u32::MAX];
pub const BEG: [u32; 8] = [0, 1, 3, 16384, 16386, 16387, u32::MAX - 16383, u32::MAX];
pub const LEN: [u32; 6] = [0, 1, 3, 16384, 16385, u32::MAX];
pub const PLEN: usize = 16387;

pub fn requests() -> Vec<(u32, u32, u32)> {
    let mut v = vec![];
    for i in IDX {
        for b in BEG {
            for l in LEN {
                v.push((i, b, l));
            }
        }
    }
    v
}

/// Requests that make the client load a piece it owns (valid and answered when unchoked).
pub fn loaders() -> Vec<(u32, u32, u32)> {
    vec![(0, 0, 1), (0, 3, 16384), (0, 16386, 1), (2, 0, 3), (2, 1, 1), (2, 0, 1)]
}

pub const CONTEXTS: [&str; 5] = ["never-unchoked", "unchoked", "unchoked-then-choked", "choked-then-unchoked-again", "lost-interest"];
pub const MIDS: [&str; 3] = ["nothing", "choke", "choke+unchoke"];

#[derive(Clone, Debug)]
pub struct Case {
    pub incoming: bool,
    pub ctx: usize,
    /// (request, what happens after it)
    pub seq: Vec<((u32, u32, u32), usize)>,
}

fn torrent() -> Torrent {
    Torrent::new("t", PLEN, &[("f", 2 * PLEN + 5)], true)
}

struct Wire {
    unchoked: bool,
    scanned: usize,
}

fn scan_wire(w: &World, wire: &mut Wire) {
    for m in &w.peers[0].msgs[wire.scanned..] {
        match m {
            Msg::Unchoke => wire.unchoked = true,
            Msg::Choke => wire.unchoked = false,
            _ => {}
        }
    }
    wire.scanned = w.peers[0].msgs.len();
}

pub fn run_case(dir: &PathBuf, c: &Case, verbose: bool) -> (String, u64, Option<(&'static str, String)>) {
    let t = torrent();
    let cfg = WorldCfg { torrent: t.clone(), have: vec![0, 2], peers: vec![peer_cfg(0, !c.incoming)], gated: false, stale: vec![] };
    let mut w = World::new(&cfg, dir);
    let id = w.peers[0].cfg.id;
    let mut steps = 0u64;
    let mut wire = Wire { unchoked: false, scanned: 0 };
    let mut time = 0u64;
    let mut say = |w: &World, what: &str| {
        if verbose {
            println!("== {}\n   manager handled {:?}\n   client wrote {:?}\n   {}", what, w.cmds, w.new_msgs(0).iter().map(|m| m.short()).collect::<Vec<_>>(), w.handler_key(0));
        }
    };
    w.feed(0, &[refwire::handshake(t.meta.info_hash(), &id)]);
    say(&w, "handshake");
    steps += 1;
    let mut do_choke = |w: &mut World, time: &mut u64, steps: &mut u64| {
        // rates must be known before a rotation does anything: two statistics ticks
        if *time < 20_500 {
            *time = 20_500;
            w.step(&Ev::AdvanceTo(*time), &[]);
            *steps += 1;
        }
        w.feed(0, &[Msg::NotInterested]);
        w.step(&Ev::Rotate, &[]);
        *steps += 2;
    };
    let do_unchoke = |w: &mut World, steps: &mut u64| {
        w.feed(0, &[Msg::Interested]);
        w.step(&Ev::Rotate, &[]);
        *steps += 2;
    };
    if c.ctx >= 1 {
        w.feed(0, &[Msg::Bitfield(vec![0xe0])]);
        say(&w, "bitfield");
        steps += 1;
    }
    match c.ctx {
        2 => do_choke(&mut w, &mut time, &mut steps),
        3 => {
            do_choke(&mut w, &mut time, &mut steps);
            do_unchoke(&mut w, &mut steps);
        }
        4 => {
            w.feed(0, &[Msg::Interested]);
            w.feed(0, &[Msg::NotInterested]);
            steps += 2;
        }
        _ => {}
    }
    scan_wire(&w, &mut wire);
    say(&w, &format!("context {} established; unchoked on the wire: {}", CONTEXTS[c.ctx], wire.unchoked));
    let expect_unchoked = matches!(c.ctx, 1 | 3 | 4);
    if wire.unchoked != expect_unchoked && w.dead.is_none() && w.handler_panics.is_empty() {
        // the harness could not establish the context (e.g. rotation skipped): machinery problem
        return (String::new(), steps, Some(("MACHINERY", format!("context {} not established: wire unchoked = {}", CONTEXTS[c.ctx], wire.unchoked))));
    }
    for (r, mid) in &c.seq {
        let before = w.peers[0].msgs.len();
        w.feed(0, &[Msg::Request(r.0, r.1, r.2)]);
        steps += 1;
        say(&w, &format!("Request{:?}", r));
        if let Some(d) = &w.dead {
            return (w.default_key(), steps, Some(("manager-died", format!("{:?}: {}", c, d))));
        }
        if let Some(p) = w.handler_panics.first() {
            let class = if p.contains("overflow") && (r.1 as u64 + r.2 as u64) > u32::MAX as u64 { "request-offset-plus-length-overflow-panics" } else { "connection-task-panicked" };
            return (w.default_key(), steps, Some((class, format!("Request{:?} in context {}: {}", r, CONTEXTS[c.ctx], p))));
        }
        let new: Vec<&Msg> = w.peers[0].msgs[before..].iter().collect();
        let pieces: Vec<&&Msg> = new.iter().filter(|m| matches!(m, Msg::Piece(..))).collect();
        if pieces.len() > 1 {
            return (w.default_key(), steps, Some(("more-than-one-piece-per-request", format!("Request{:?}: {:?}", r, new.iter().map(|m| m.short()).collect::<Vec<_>>()))));
        }
        if let Some(Msg::Piece(i, b, data)) = pieces.first().map(|m| **m) {
            let owned = *i == 0 || *i == 2;
            let plen = if owned { t.pieces[*i as usize].len() as u64 } else { 0 };
            let in_range = r.2 <= 16384 && (r.1 as u64 + r.2 as u64) <= plen;
            if !wire.unchoked {
                return (w.default_key(), steps, Some(("piece-sent-while-choked", format!("{:?}: Request{:?} answered with {} although the last choke-state message written on this connection was Choke (or none)", c, r, Msg::Piece(*i, *b, data.clone()).short()))));
            }
            if *i != r.0 || *b != r.1 || !owned || !in_range {
                return (w.default_key(), steps, Some(("piece-for-invalid-request", format!("Request{:?} answered with Piece({},{},{}B)", r, i, b, data.len()))));
            }
            let want = &t.pieces[*i as usize][r.1 as usize..(r.1 + r.2) as usize];
            if data.as_slice() != want {
                return (w.default_key(), steps, Some(("piece-data-wrong", format!("Request{:?}: {} bytes, expected {} bytes of the stored piece", r, data.len(), want.len()))));
            }
        }
        match mid {
            1 => {
                do_choke(&mut w, &mut time, &mut steps);
                say(&w, "rotation: choke");
            }
            2 => {
                do_choke(&mut w, &mut time, &mut steps);
                do_unchoke(&mut w, &mut steps);
                say(&w, "rotation: choke, then unchoke");
            }
            _ => {}
        }
        scan_wire(&w, &mut wire);
    }
    (w.default_key(), steps, None)
}

pub fn cases(thorough: bool) -> Vec<Case> {
    let reqs = requests();
    let mut out = vec![];
    for incoming in [false, true] {
        for ctx in 0..CONTEXTS.len() {
            for r in &reqs {
                out.push(Case { incoming, ctx, seq: vec![(*r, 0)] });
            }
        }
    }
    let firsts = if thorough { reqs.clone() } else { loaders() };
    for r1 in &firsts {
        for mid in 0..MIDS.len() {
            for r2 in &reqs {
                out.push(Case { incoming: false, ctx: 1, seq: vec![(*r1, mid), (*r2, 0)] });
            }
        }
    }
    if thorough {
        let sub: Vec<(u32, u32, u32)> = vec![(0, 0, 1), (0, 3, 16384), (2, 0, 3), (2, 1, 1), (1, 0, 1), (3, 0, 1), (0, 16386, 3), (2, 3, 3), (0, 0, 16385), (0, u32::MAX, 1), (2, 0, 0), (u32::MAX, 0, 1)];
        for a in &sub {
            for m1 in 0..MIDS.len() {
                for b in &sub {
                    for m2 in 0..MIDS.len() {
                        for c in &sub {
                            out.push(Case { incoming: true, ctx: 1, seq: vec![(*a, m1), (*b, m2), (*c, 0)] });
                        }
                    }
                }
            }
        }
    }
    out
}

// -------------------------------------------------------------------------------------------
// BFS over choke-relevant histories (reaches the optimistic-unchoke states of the manager)
// -------------------------------------------------------------------------------------------

use crate::explore::{self, Scenario};

pub struct Upload {
    pub incoming: bool,
    /// A second, manager-only peer P whose bitfield and interest changes (Pb, Pi, Pn) fall into
    /// the same rotations as the connection's own.
    pub second: bool,
    /// The manager's broadcasts to the connection task are held back and released by L events, so a
    /// frame of the peer can be handled between a choke decision and its arrival at the task.
    pub gated: bool,
}

#[derive(Default)]
pub struct UpMon {
    pub unchoked: bool,
    pub scanned: usize,
    pub bitfield_sent: bool,
    pub interested: bool,
    pub time: u64,
    pub p_bitfield: bool,
    pub p_interested: bool,
    pub p_unchoked: bool,
}

const UP_REQUESTS: [(&str, (u32, u32, u32)); 4] = [("Q0", (0, 0, 1)), ("Q2", (2, 1, 3)), ("Q1", (1, 0, 1)), ("Qb", (0, 16386, 3))];

impl Scenario for Upload {
    type Mon = UpMon;
    fn name(&self) -> String {
        format!("upload-{}{}", if self.incoming { "incoming" } else { "outgoing" }, if self.second { "-with-second-peer" } else if self.gated { "-gated" } else { "" })
    }
    fn cfg(&self) -> WorldCfg {
        // with the second peer: a file of the right length but other content already sits under the
        // name of piece 1, which the client lacks (a leftover of an interrupted run)
        WorldCfg { torrent: torrent(), have: vec![0, 2], peers: vec![peer_cfg(0, !self.incoming)], gated: self.gated, stale: if self.second { vec![1] } else { vec![] } }
    }
    fn explore_choices(&self) -> bool {
        true
    }
    fn setup(&self, w: &mut World, mon: &mut UpMon) {
        let t = w.t.clone();
        let id = w.peers[0].cfg.id;
        w.feed(0, &[refwire::handshake(t.meta.info_hash(), &id)]);
        w.step(&Ev::AdvanceTo(20_500), &[]); // rates reported: rotations are carried out
        mon.time = 20_500;
        if self.second {
            let k = w.add_mgr_peer();
            w.step(&Ev::MgrStats(k, Some(5), Some(5)), &[]);
        }
    }
    fn enabled(&self, w: &World, mon: &UpMon, _depth: usize) -> Vec<String> {
        if w.peers[0].ended.get() {
            return vec![];
        }
        let mut e = vec!["R".to_string(), if mon.interested { "N".to_string() } else { "I".to_string() }];
        if !mon.bitfield_sent {
            e.push("B".to_string());
        }
        e.extend(UP_REQUESTS.iter().map(|r| r.0.to_string()));
        if self.gated {
            // a reduced request alphabet keeps the gated search small
            e.retain(|x| !x.starts_with('Q') || x == "Q0" || x == "Q1");
            if !w.peers[0].pending.is_empty() {
                e.push("L".to_string());
            }
        }
        if self.second {
            e.retain(|x| x != "Qb" && x != "Q2");
            if !mon.p_bitfield {
                e.push("Pb".to_string());
            } else if !mon.p_unchoked {
                // P unchokes us: piece 1 is reserved for it (being fetched, not owned)
                e.push("Pu".to_string());
            }
            e.push(if mon.p_interested { "Pn".to_string() } else { "Pi".to_string() });
        }
        e
    }
    fn concretize(&self, _w: &World, _mon: &UpMon, sym: &str) -> Vec<Ev> {
        let m = match sym {
            "R" => return vec![Ev::Rotate],
            "L" => return vec![Ev::Release(0)],
            "Pb" => return vec![Ev::MgrBitfield(0, vec![false, true, false])],
            "Pi" => return vec![Ev::MgrInterested(0)],
            "Pu" => return vec![Ev::MgrUnchoke(0)],
            "Pn" => return vec![Ev::MgrNotInterested(0)],
            "I" => Msg::Interested,
            "N" => Msg::NotInterested,
            "B" => Msg::Bitfield(vec![0x40]), // the peer owns piece 1, which the client lacks
            q => {
                let r = UP_REQUESTS.iter().find(|r| r.0 == q).unwrap().1;
                Msg::Request(r.0, r.1, r.2)
            }
        };
        vec![Ev::Feed(0, refwire::encode(&m))]
    }
    fn check(&self, w: &World, mon: &mut UpMon, last: Option<&str>) -> Option<(&'static str, String)> {
        if let Some(d) = &w.dead {
            return Some(("manager-died", d.clone()));
        }
        if let Some(p) = w.handler_panics.first() {
            return Some(("connection-task-panicked", p.clone()));
        }
        match last {
            Some("I") => mon.interested = true,
            Some("N") => mon.interested = false,
            Some("B") => mon.bitfield_sent = true,
            Some("Pb") => mon.p_bitfield = true,
            Some("Pu") => mon.p_unchoked = true,
            Some("Pi") => mon.p_interested = true,
            Some("Pn") => mon.p_interested = false,
            _ => {}
        }
        let t = &w.t;
        let msgs = &w.peers[0].msgs;
        let req = last.and_then(|l| UP_REQUESTS.iter().find(|r| r.0 == l)).map(|r| r.1);
        let mut pieces = 0;
        for m in &msgs[mon.scanned..] {
            match m {
                Msg::Unchoke => mon.unchoked = true,
                Msg::Choke => mon.unchoked = false,
                Msg::Piece(i, b, d) => {
                    pieces += 1;
                    // "while it has that peer unchoked": with held-back broadcasts the manager's
                    // record and the frames on the wire lag behind each other; a Piece is wrong when
                    // BOTH say choked (the Choke has reached the task and the wire, and the task still
                    // serves), and no choke decision for this peer is still held back -- the windows in which a decision
                    // is in flight are nobody's fault
                    let record_choked = w.snap().peers.iter().find(|p| p.addr == w.peers[0].cfg.addr).map(|p| p.am_choked).unwrap_or(true);
                    let in_flight = w.peers[0].pending.iter().any(|b| matches!(b, rdest::verif::BroadCmd::SendOwnState { am_choked_map } if am_choked_map.contains_key(&w.peers[0].cfg.addr)));
                    let choked = if self.gated { !mon.unchoked && record_choked && !in_flight } else { !mon.unchoked };
                    if choked {
                        return Some(("piece-sent-while-choked", format!("Piece({},{},{}B) written although the last choke-state frame on this connection is Choke (or none){}", i, b, d.len(), if self.gated { " and the manager has this peer choked" } else { "" })));
                    }
                    let r = match req {
                        Some(r) => r,
                        None => return Some(("piece-without-request", format!("Piece({},{},{}B) written in a step without a request", i, b, d.len()))),
                    };
                    let owned = *i == 0 || *i == 2;
                    let ok = owned && *i == r.0 && *b == r.1 && d.len() as u32 == r.2 && (r.1 as usize + r.2 as usize) <= t.pieces[*i as usize].len() && d[..] == t.pieces[*i as usize][r.1 as usize..(r.1 + r.2) as usize];
                    if !ok {
                        return Some(("piece-for-invalid-request", format!("Request{:?} answered with Piece({},{},{}B)", r, i, b, d.len())));
                    }
                }
                _ => {}
            }
        }
        mon.scanned = msgs.len();
        if pieces > 1 {
            return Some(("more-than-one-piece-per-request", format!("{} Piece frames in one step", pieces)));
        }
        None
    }
    fn key(&self, w: &World, mon: &UpMon) -> String {
        format!("{} wire={} bf={} int={}", crate::c12::strip_counters(&w.default_key()), mon.unchoked, mon.bitfield_sent, mon.interested) + &format!(" pb={} pi={} pu={}", mon.p_bitfield, mon.p_interested, mon.p_unchoked)
    }
    fn tags(&self, w: &World, _mon: &UpMon) -> Vec<&'static str> {
        let mut t = vec![];
        let s = w.snap();
        if s.peers.iter().any(|p| p.optimistic_unchoke && !p.am_choked) {
            t.push("peer holds the optimistic unchoke");
        }
        if s.peers.iter().any(|p| p.optimistic_unchoke && p.am_choked) {
            t.push("peer choked while still flagged optimistic");
        }
        if w.new_msgs(0).iter().any(|m| matches!(m, Msg::Piece(..))) {
            t.push("block uploaded");
        }
        t
    }
}

// -------------------------------------------------------------------------------------------
// Real socket with back-pressure: a peer dials in (accept path), seeds the torrent to the client,
// stays interested, then pipelines a thousand requests without reading and only afterwards reads
// and judges every Piece frame. Single execution over loopback TCP with the real clock.
// -------------------------------------------------------------------------------------------

pub fn socket_backpressure_case(dir: &std::path::PathBuf) -> Result<(usize, Option<(&'static str, String)>), String> {
    use crate::fixture::Torrent;
    use tokio::io::{AsyncReadExt, AsyncWriteExt};
    core::wipe_dir(dir);
    rdest::verif::clear_snapshots();
    rdest::verif::set_choices(vec![]);
    rdest::verif::set_net(None);
    rdest::verif::publish_listen_addr(None);
    let t = Torrent::new("t", 65536, &[("f", 65536 * 4)], true);
    let rt = tokio::runtime::Builder::new_current_thread().enable_all().build().map_err(|e| e.to_string())?;
    let local = tokio::task::LocalSet::new();
    let meta = t.meta.clone();
    let res = local.block_on(&rt, async {
        rdest::verif::set_http(Some(Box::new(move |_req: &reqwest::Request| crate::httpfake::respond(200, crate::fullworld::tracker_body(&[])))));
        let mut session = rdest::Session::new(meta, *crate::world::OWN_ID);
        let session_task = tokio::task::spawn_local(async move { session.verif_run().await });
        let mut addr = None;
        for _ in 0..400 {
            tokio::time::sleep(std::time::Duration::from_millis(5)).await;
            if let Some(a) = rdest::verif::listen_addr() {
                addr = Some(a);
                break;
            }
        }
        let addr = addr.ok_or("the session never published its listening address".to_string())?;
        let sock = tokio::net::TcpSocket::new_v4().map_err(|e| e.to_string())?;
        let _ = sock.set_recv_buffer_size(32 * 1024);
        let mut sock = sock.connect(std::net::SocketAddr::from(([127, 0, 0, 1], addr.port()))).await.map_err(|e| format!("cannot dial the client: {}", e))?;
        sock.set_nodelay(true).ok();
        let mut buf = vec![0u8; 1 << 16];
        let mut received: Vec<u8> = vec![];
        // phase 1: seed the torrent to the client (lock step), declaring interest ourselves
        for m in [refwire::handshake(t.meta.info_hash(), b"-HS0001-backpressure"), Msg::Bitfield(vec![0xf0]), Msg::Interested, Msg::Unchoke] {
            sock.write_all(&refwire::encode(&m)).await.map_err(|e| e.to_string())?;
        }
        let started = std::time::Instant::now();
        let mut answered = 0usize;
        let mut unchoked = false;
        loop {
            if started.elapsed() > std::time::Duration::from_secs(30) {
                return Err("phase 1 (seeding the client) did not finish within 30 s".to_string());
            }
            match tokio::time::timeout(std::time::Duration::from_millis(100), sock.read(&mut buf)).await {
                Ok(Ok(0)) | Ok(Err(_)) => return Err("the client closed the connection during phase 1".to_string()),
                Ok(Ok(n)) => received.extend_from_slice(&buf[..n]),
                Err(_) => {}
            }
            let (all, _, err) = refwire::decode_stream(&received);
            if let Some(e) = err {
                return Err(format!("client wrote undecodable bytes in phase 1: {}", e));
            }
            unchoked = unchoked || all.iter().any(|m| matches!(m, Msg::Unchoke));
            let reqs: Vec<(u32, u32, u32)> = all.iter().filter_map(|m| if let Msg::Request(i, b, l) = m { Some((*i, *b, *l)) } else { None }).collect();
            while answered < reqs.len() {
                let (i, b, l) = reqs[answered];
                answered += 1;
                sock.write_all(&refwire::encode(&Msg::Piece(i, b, t.pieces[i as usize][b as usize..(b + l) as usize].to_vec()))).await.map_err(|e| e.to_string())?;
            }
            let haves = all.iter().filter(|m| matches!(m, Msg::Have(_))).count();
            if haves == 4 && unchoked {
                break;
            }
        }
        let phase1_msgs = refwire::decode_stream(&received).0.len();
        // phase 2: a thousand pipelined requests, nothing read meanwhile
        let mut wanted: Vec<(u32, u32, u32)> = vec![];
        for k in 0..1024u32 {
            let piece = (k / 8) % 4;
            let len = 16384 - (k * 37) % 9000;
            let begin = (k * 7919) % (65536 - len);
            wanted.push((piece, begin, len));
        }
        let mut out = vec![];
        for r in &wanted {
            out.extend(refwire::encode(&Msg::Request(r.0, r.1, r.2)));
        }
        sock.write_all(&out).await.map_err(|e| e.to_string())?;
        tokio::time::sleep(std::time::Duration::from_millis(500)).await;
        // now read everything and judge
        let mut tail: Vec<u8> = vec![];
        let mut pieces: Vec<Msg> = vec![];
        let begin_read = std::time::Instant::now();
        let mut verdict: Option<(&'static str, String)> = None;
        'outer: loop {
            match tokio::time::timeout(std::time::Duration::from_secs(15), sock.read(&mut buf)).await {
                Ok(Ok(0)) | Ok(Err(_)) => {
                    verdict = Some(("connection-ended-during-pipelined-requests", format!("after {} of 1024 answers the connection ended", pieces.len())));
                    break;
                }
                Ok(Ok(n)) => tail.extend_from_slice(&buf[..n]),
                Err(_) => {
                    verdict = Some(("pipelined-requests-not-all-answered", format!("{} of 1024 answers arrived, then nothing for 15 s", pieces.len())));
                    break;
                }
            }
            let (all, used, err) = refwire::decode_stream(&tail);
            for m in all {
                if let Msg::Piece(i, b, d) = &m {
                    let k = pieces.len();
                    let w = wanted[k.min(1023)];
                    let ok = k < 1024 && *i == w.0 && *b == w.1 && d.len() as u32 == w.2 && d[..] == t.pieces[*i as usize][*b as usize..(*b + w.2) as usize];
                    if !ok {
                        verdict = Some(("piece-for-invalid-request", format!("answer #{} over a real socket under back-pressure: Piece({},{},{}B) for Request{:?}{}", k + 1, i, b, d.len(), w, if *i == w.0 && *b == w.1 && d.len() as u32 == w.2 { " carries bytes that are not the stored range" } else { "" })));
                        break 'outer;
                    }
                    pieces.push(m);
                }
            }
            if let Some(e) = err {
                verdict = Some(("undecodable-bytes-after-pipelined-requests", format!("after {} answers the stream cannot be decoded: {}", pieces.len(), e)));
                break;
            }
            tail.drain(..used);
            if pieces.len() == 1024 {
                break;
            }
            if begin_read.elapsed() > std::time::Duration::from_secs(60) {
                verdict = Some(("pipelined-requests-not-all-answered", format!("{} of 1024 answers within 60 s", pieces.len())));
                break;
            }
        }
        session_task.abort();
        Ok::<_, String>((phase1_msgs + pieces.len(), verdict))
    });
    rdest::verif::set_http(None);
    res
}

/// Uploads from a piece larger than 2 MiB (tokio reads files in chunks of at most 2 MiB): requests
/// before, across and behind the 2 MiB mark and at the very end of the piece must be answered with
/// exactly the stored bytes.
pub fn big_piece_upload_case(dir: &PathBuf) -> (u64, Option<(&'static str, String)>) {
    let p = 2 * 1024 * 1024 + 2 * 16384 + 5;
    let t = Torrent::new("t", p, &[("f", p + 100)], true);
    let cfg = WorldCfg { torrent: t.clone(), have: vec![0, 1], peers: vec![peer_cfg(0, false)], gated: false, stale: vec![] };
    let mut w = World::new(&cfg, dir);
    let id = w.peers[0].cfg.id;
    w.feed(0, &[refwire::handshake(t.meta.info_hash(), &id), Msg::Bitfield(vec![0x00]), Msg::Interested]);
    let mut steps = 1u64;
    let requests: Vec<(u32, u32, u32)> = vec![(0, 0, 16384), (0, 2088960, 16384), (0, 2097152 - 1, 2), (0, 2097152, 16384), (0, 2097152 + 16384, 16384), (0, (p - 16384) as u32, 16384), (0, (p - 1) as u32, 1), (1, 0, 100), (0, 1000, 1)];
    for r in &requests {
        let before = w.peers[0].msgs.len();
        w.feed(0, &[Msg::Request(r.0, r.1, r.2)]);
        steps += 1;
        if let Some(d) = &w.dead {
            return (steps, Some(("manager-died", d.clone())));
        }
        if let Some(pn) = w.handler_panics.first() {
            return (steps, Some(("connection-task-panicked", format!("Request{:?} on a piece of {} bytes: {}", r, p, pn))));
        }
        let answers: Vec<&Msg> = w.peers[0].msgs[before..].iter().filter(|m| matches!(m, Msg::Piece(..))).collect();
        let want = &t.pieces[r.0 as usize][r.1 as usize..(r.1 + r.2) as usize];
        match answers.as_slice() {
            [Msg::Piece(i, b, d)] if *i == r.0 && *b == r.1 && d.as_slice() == want => {}
            [Msg::Piece(i, b, d)] => {
                let first_diff = d.iter().zip(want.iter()).position(|(x, y)| x != y);
                return (steps, Some(("piece-for-invalid-request", format!("piece of {} bytes (more than one 2 MiB file-read chunk): Request{:?} answered with Piece({},{},{}B) whose bytes are not the stored range (first difference at byte {:?} of the block)", p, r, i, b, d.len(), first_diff))));
            }
            other => return (steps, Some(("MACHINERY", format!("Request{:?} on the big piece got {} Piece frames", r, other.len())))),
        }
    }
    (steps, None)
}

pub fn run(ctx: &Ctx) -> Outcome {
    let all = cases(ctx.tier == core::Tier::Thorough);
    let res = core::par_map(
        &all,
        |w| {
            core::set_quiet_panics(true);
            core::private_cwd("c09", &format!("w{}", w))
        },
        |dir, _, c| {
            if ctx.over_budget() {
                return None;
            }
            Some(run_case(dir, c, false))
        },
    );
    let mut keys = BTreeSet::new();
    let mut steps = 0u64;
    let mut done = 0u64;
    let mut served = 0u64;
    for (c, r) in all.iter().zip(res.iter()) {
        if let Some((key, n, v)) = r {
            done += 1;
            steps += n;
            if key.contains("tx=Some") {
                served += 1;
            }
            keys.insert(core::sha1(key.as_bytes()));
            if let Some((class, why)) = v {
                if *class == "MACHINERY" {
                    ctx.machinery_error(why.clone());
                } else {
                    ctx.violation(class, why.clone(), json!({"incoming": c.incoming, "ctx": c.ctx, "seq": c.seq.iter().map(|(r, m)| json!([r.0, r.1, r.2, m])).collect::<Vec<_>>()}));
                }
            }
        }
    }
    // BFS part
    let mut bfs_total = explore::Stats { exhaustive: true, ..Default::default() };
    let mut per = vec![];
    for (incoming, second, gated) in [(true, false, false), (false, false, false), (false, true, false), (false, false, true)] {
        let sc = Upload { incoming, second, gated };
        let depth = if second { ctx.tier.pick(13, 16) } else if gated { ctx.tier.pick(7, 10) } else { ctx.tier.pick(8, 13) };
        let st = explore::bfs(ctx, &sc, depth, ctx.tier.pick(40, 20));
        per.push(json!({"scenario": Scenario::name(&sc), "depth": depth, "states": st.states, "transitions": st.transitions, "depth_completed": st.depth_completed}));
        bfs_total.merge(&st);
    }
    // uploads from a piece of more than 2 MiB
    {
        let dir = core::private_cwd("c09", "bigpiece");
        let (n, v) = big_piece_upload_case(&dir);
        steps += n;
        if let Some((class, why)) = v {
            if class == "MACHINERY" {
                ctx.machinery_error(why);
            } else {
                ctx.violation(class, why, json!({"kind": "bigpiece"}));
            }
        }
    }
    // real socket under back-pressure (single execution)
    let bp_dir = core::private_cwd("c09", "backpressure");
    let mut bp_row = json!(null);
    match socket_backpressure_case(&bp_dir) {
        Ok((n, None)) => bp_row = json!({"messages_judged": n, "answers_correct": 1024}),
        Ok((n, Some((class, why)))) => {
            bp_row = json!({"messages_judged": n, "violation": class});
            ctx.violation(class, why, json!({"kind": "backpressure"}));
        }
        Err(e) => ctx.machinery_error(format!("real-socket back-pressure run could not be carried out: {}", e)),
    }
    let mut o = Outcome::new("model_checking");
    o.set("real_socket_backpressure_run", bp_row);
    o.set("states", json!(keys.len() as u64 + bfs_total.states));
    o.set("transitions", json!(steps + bfs_total.transitions));
    o.set("traces_validated_against_impl", json!(done + bfs_total.executions));
    o.set("bfs_scenarios", Value::Array(per));
    o.set("bfs_transitions_in_which_situation_occurred", json!(bfs_total.tags));
    o.set("bfs_exhaustive", json!(bfs_total.exhaustive));
    o.set("histories", json!(all.len()));
    o.set("histories_ending_with_a_loaded_piece", json!(served));
    o.set("exhaustive", json!(done == all.len() as u64));
    o.set("rule", json!(format!("requests = {:?} x {:?} x {:?} (240); histories: every single request in each of the contexts {:?} on an outgoing and an incoming connection; every pair (r1, r2) with r1 from {} and one of {:?} in between{}; states = distinct final snapshots, transitions = events executed. BFS part: one connection (both directions), events I/N interest, B bitfield, R real rotation (optimistic choice enumerated), Q0/Q2/Qb valid requests for owned pieces, Q1 request for the piece the client lacks, to the stated depth - this reaches the manager states in which the peer holds, or held, the optimistic unchoke; plus one real-socket run under back-pressure: a peer dials in over loopback TCP (accept path), seeds 4 x 64 KiB to the client, stays interested, then pipelines 1024 requests (varying piece, offset, length) without reading and judges all 1024 Piece frames afterwards; -with-second-peer: a manager-only peer P next to the connection (Pb bitfield, Pu unchoke = piece 1 gets reserved for it, Pi/Pn interest) whose changes fall into the same rotations; a leftover file of the right length sits under the name of piece 1; requests Q0 (owned) and Q1 (lacked, possibly reserved)", IDX, BEG, LEN, CONTEXTS, if ctx.tier == core::Tier::Thorough { "all 240 requests" } else { "the 6 loader requests" }, MIDS, if ctx.tier == core::Tier::Thorough { "; every triple over a 12-request sub-alphabet with every pair of in-between decisions" } else { "" })));
    let picks = ctx.seeded_pick(all.len(), 4);
    o.set("samples", Value::Array(picks.iter().map(|i| json!({"connection": if all[*i].incoming { "incoming" } else { "outgoing" }, "context": CONTEXTS[all[*i].ctx], "requests": all[*i].seq.iter().map(|(r, m)| json!({"request": [r.0, r.1, r.2], "then": MIDS[*m]})).collect::<Vec<_>>()})).collect()));
    o.assume("client owns pieces 0 (16387 B) and 2 (5 B), not piece 1; choke/unchoke decisions are produced by the real rotation (timeout_change_conn_state) after the connection reported its rates; overflow checks are on, as in cargo test / cargo run builds");
    o.assume("nothing is claimed for request fields outside the alphabet");
    o
}

pub fn replay(_ctx: &Ctx, r: &Value) -> i32 {
    if r["kind"] == "bigpiece" {
        let dir = core::private_cwd("c09", "replay");
        return match big_piece_upload_case(&dir).1 {
            Some((class, why)) => {
                println!("VIOLATION property=C09 replay=<this file>\n  class={} {}", class, why);
                1
            }
            None => {
                println!("holds for this case");
                0
            }
        };
    }
    if r["kind"] == "backpressure" {
        let dir = core::private_cwd("c09", "replay");
        let res = socket_backpressure_case(&dir);
        println!("real-socket back-pressure run: {:?}", res);
        return match res {
            Ok((_, None)) => 0,
            Ok((_, Some((class, why)))) => {
                println!("VIOLATION property=C09 replay=<this file>\n  class={} {}", class, why);
                1
            }
            Err(_) => 2,
        };
    }
    if let Some(name) = r["scenario"].as_str() {
        return explore::replay_verbose(&Upload { incoming: name.contains("incoming"), second: name.contains("second-peer"), gated: name.contains("-gated") }, &explore::hist_from_json(&r["history"]), "C09");
    }
    let c = Case {
        incoming: r["incoming"].as_bool().unwrap(),
        ctx: r["ctx"].as_u64().unwrap() as usize,
        seq: r["seq"].as_array().unwrap().iter().map(|e| ((e[0].as_u64().unwrap() as u32, e[1].as_u64().unwrap() as u32, e[2].as_u64().unwrap() as u32), e[3].as_u64().unwrap() as usize)).collect(),
    };
    let dir = core::private_cwd("c09", "replay");
    core::set_quiet_panics(true);
    println!("{:?}", c);
    match run_case(&dir, &c, true).2 {
        Some((class, s)) => {
            println!("VIOLATION property=C09 replay=<this file>\n  class={} {}", class, s);
            1
        }
        None => {
            println!("holds for this history");
            0
        }
    }
}
