//! C10 — block requests tile each assigned piece exactly once.
//! E-ENUM: the block list for every piece length 1..=81921. E-SYS: one real connection task, piece
//! lengths around the 16 KiB block size and a short last piece; the scripted peer answers the
//! outstanding requests in every order, may duplicate an answered block, may stop answering.

use crate::core::{self, Ctx, Outcome};
use crate::explore::{self, Scenario};
use crate::fixture::Torrent;
use crate::refwire::{self, Msg};
use crate::world::{peer_cfg, Ev, World, WorldCfg};
use rdest::verif::verif_blocks;
use serde_json::{json, Value};
use std::collections::BTreeSet;

pub struct Tiling {
    pub len: usize,
}

#[derive(Default)]
pub struct Mon {
    /// Requests the peer has seen and not answered yet, in arrival order.
    pub outstanding: Vec<(u32, u32, u32)>,
    /// Per piece: blocks requested so far.
    pub requested: Vec<BTreeSet<(u32, u32)>>,
    pub answered: Vec<(u32, u32, u32)>,
    pub scanned: usize,
    pub dups: usize,
}

impl Tiling {
    fn torrent(&self) -> Torrent {
        let total = if self.len == 1 { 2 } else { self.len + 5 };
        Torrent::new("t", self.len, &[("f", total)], true)
    }
}

fn block_bytes(t: &Torrent, r: &(u32, u32, u32)) -> Vec<u8> {
    let p = &t.pieces[r.0 as usize];
    p[r.1 as usize..(r.1 + r.2) as usize].to_vec()
}

impl Scenario for Tiling {
    type Mon = Mon;
    fn name(&self) -> String {
        format!("tiling-{}", self.len)
    }
    fn cfg(&self) -> WorldCfg {
        WorldCfg { torrent: self.torrent(), have: vec![], peers: vec![peer_cfg(0, true)], gated: false }
    }
    fn setup(&self, w: &mut World, _mon: &mut Mon) {
        let t = w.t.clone();
        let id = w.peers[0].cfg.id;
        let all = vec![true; t.hashes.len()];
        w.feed(0, &[refwire::handshake(t.meta.info_hash(), &id), Msg::Bitfield(refwire::bitfield_bytes(&all)), Msg::Unchoke]);
    }
    fn enabled(&self, _w: &World, mon: &Mon, _depth: usize) -> Vec<String> {
        let mut e: Vec<String> = (0..mon.outstanding.len()).map(|k| format!("A{}", k)).collect();
        if !mon.answered.is_empty() && mon.dups < 2 {
            e.push("D".to_string());
        }
        e
    }
    fn concretize(&self, w: &World, mon: &Mon, sym: &str) -> Vec<Ev> {
        let r = if sym == "D" { *mon.answered.last().unwrap() } else { mon.outstanding[sym[1..].parse::<usize>().unwrap()] };
        vec![Ev::Feed(0, refwire::encode(&Msg::Piece(r.0, r.1, block_bytes(&w.t, &r))))]
    }
    fn check(&self, w: &World, mon: &mut Mon, last: Option<&str>) -> Option<(&'static str, String)> {
        if let Some(d) = &w.dead {
            return Some(("manager-died", d.clone()));
        }
        if let Some(p) = w.handler_panics.first() {
            return Some(("connection-task-panicked", p.clone()));
        }
        let t = &w.t;
        if mon.requested.is_empty() {
            mon.requested = vec![BTreeSet::new(); t.pieces.len()];
        }
        // which block was answered in this step (before looking at the client's reaction)
        let mut accepted: Option<(u32, u32, u32)> = None;
        if let Some(sym) = last {
            if sym == "D" {
                mon.dups += 1;
            } else {
                let k: usize = sym[1..].parse().unwrap();
                let r = mon.outstanding.remove(k);
                mon.answered.push(r);
                accepted = Some(r);
            }
        }
        // requests written in this step
        let msgs = &w.peers[0].msgs;
        let mut new_requests = 0;
        for m in &msgs[mon.scanned..] {
            if let Msg::Request(i, b, l) = m {
                new_requests += 1;
                if *i as usize >= t.pieces.len() {
                    return Some(("request-for-unknown-piece", format!("{:?}", m)));
                }
                let plen = t.pieces[*i as usize].len() as u32;
                if *l == 0 || *l > 16384 || b.checked_add(*l).map(|e| e > plen).unwrap_or(true) {
                    return Some(("request-outside-piece-or-too-long", format!("{:?} for a piece of {} bytes", m, plen)));
                }
                // pieces are fetched one at a time: an earlier piece must be completely requested
                for (j, set) in mon.requested.iter().enumerate() {
                    if j != *i as usize && !set.is_empty() {
                        let covered: u32 = set.iter().map(|x| x.1).sum();
                        if covered != t.pieces[j].len() as u32 {
                            return Some(("request-names-another-piece", format!("{:?} while piece {} is only partly requested ({:?})", m, j, set)));
                        }
                    }
                }
                for (b2, l2) in mon.requested[*i as usize].iter() {
                    if *b < b2 + l2 && *b2 < b + l {
                        return Some(("overlapping-or-repeated-request", format!("{:?} overlaps ({}, {})", m, b2, l2)));
                    }
                }
                mon.requested[*i as usize].insert((*b, *l));
                mon.outstanding.push((*i, *b, *l));
            }
        }
        mon.scanned = msgs.len();
        if let Some(r) = accepted {
            let i = r.0 as usize;
            let covered: u32 = mon.requested[i].iter().map(|x| x.1).sum();
            let plen = t.pieces[i].len() as u32;
            let answered_i: u32 = mon.answered.iter().filter(|a| a.0 == r.0).map(|a| a.2).sum();
            if answered_i < plen {
                // blocks of this piece are still missing
                let still_unrequested_before_step = plen - (covered - new_requests_for(msgs, mon, r.0, new_requests));
                if still_unrequested_before_step > 0 && new_requests == 0 {
                    return Some(("accepted-block-not-followed-by-request", format!("block {:?} accepted, {} bytes of the piece were never requested, no request written", r, still_unrequested_before_step)));
                }
                if w.has_piece_file(i) {
                    return Some(("piece-completed-early", format!("piece {} stored although only {} of {} bytes were answered", i, answered_i, plen)));
                }
            } else {
                // that was the last outstanding block of the piece
                if covered != plen {
                    return Some(("piece-not-tiled", format!("piece {} of {} bytes: requests cover {} bytes: {:?}", i, plen, covered, mon.requested[i])));
                }
                let mut pos = 0;
                for (k, (b, l)) in mon.requested[i].iter().enumerate() {
                    if *b != pos || (*l != 16384 && k + 1 != mon.requested[i].len()) {
                        return Some(("piece-not-tiled", format!("piece {}: blocks {:?}", i, mon.requested[i])));
                    }
                    pos += l;
                }
                if !w.has_piece_file(i) {
                    return Some(("piece-not-completed-on-last-block", format!("all {} bytes of piece {} were answered but it is not stored", plen, i)));
                }
            }
        }
        None
    }
    fn key(&self, w: &World, mon: &Mon) -> String {
        format!("{} out={:?} ans={} dups={}", w.default_key(), mon.outstanding, mon.answered.len(), mon.dups)
    }
}

/// Bytes of piece `piece` requested by the requests written in the current step.
fn new_requests_for(msgs: &[Msg], _mon: &Mon, piece: u32, new_requests: usize) -> u32 {
    msgs.iter()
        .rev()
        .filter_map(|m| if let Msg::Request(i, _, l) = m { Some((*i, *l)) } else { None })
        .take(new_requests)
        .filter(|(i, _)| *i == piece)
        .map(|(_, l)| l)
        .sum()
}

fn enum_blocks(ctx: &Ctx) -> u64 {
    let max = 5 * 16384 + 1;
    let parts = core::par_ranges(max as u64, core::workers() * 4, |_| core::set_quiet_panics(true), |_, a, b| {
        for n in (a as usize + 1)..=(b as usize) {
            let blocks = match core::catch(|| verif_blocks(n)) {
                Ok(b) => b,
                Err(p) => {
                    ctx.violation("block-list-panic", format!("piece length {}: {}", n, p), json!({"kind": "blocks", "len": n}));
                    continue;
                }
            };
            let mut pos = 0;
            let mut ok = !blocks.is_empty();
            for (k, (b, l)) in blocks.iter().enumerate() {
                if *b != pos || *l == 0 || *l > 16384 || (*l != 16384 && k + 1 != blocks.len()) {
                    ok = false;
                }
                pos += l;
            }
            if !ok || pos != n {
                ctx.violation("block-list-does-not-tile", format!("piece length {}: blocks {:?}", n, &blocks[blocks.len().saturating_sub(3)..]), json!({"kind": "blocks", "len": n}));
            }
        }
        b - a
    });
    parts.iter().sum()
}

pub const LENGTHS: [usize; 7] = [1, 16383, 16384, 16385, 32768, 32769, 49153];

pub fn run(ctx: &Ctx) -> Outcome {
    let enumerated = enum_blocks(ctx);
    let mut total = explore::Stats { exhaustive: true, ..Default::default() };
    let mut per = vec![];
    for len in LENGTHS {
        let s = Tiling { len };
        let st = explore::bfs(ctx, &s, 14, ctx.tier.pick(7, 1));
        per.push(json!({"scenario": s.name(), "states": st.states, "transitions": st.transitions, "depth_completed": st.depth_completed, "frontier": st.frontier_sizes}));
        total.merge(&st);
    }
    let mut o = Outcome::new("model_checking");
    explore::stats_outcome(&total, &mut o);
    o.set("block_lists_enumerated", json!(enumerated));
    o.set("scenarios", Value::Array(per));
    o.set("rule", json!("E-ENUM: PieceRx::left(n) for every n in 1..=81921. E-SYS: per piece length in [1,16383,16384,16385,32768,32769,49153] a 2-piece torrent (second piece = short last piece of 5 bytes); events A<k> = correct answer to the k-th outstanding request, D = duplicate of the last answered block; BFS over all histories until both pieces are complete (depth <= 14); a state = canonical snapshot of manager + handler + files + outstanding set."));
    o.assume("one connection, honest payloads (corrupt ones are C01's subject), tie-breaks of the piece chooser fixed to the identity shuffle");
    o
}

pub fn replay(_ctx: &Ctx, r: &Value) -> i32 {
    if r["kind"] == "blocks" {
        let n = r["len"].as_u64().unwrap() as usize;
        println!("verif_blocks({}) = {:?}", n, core::catch(|| verif_blocks(n)));
        return 1;
    }
    let name = r["scenario"].as_str().unwrap();
    let len: usize = name.trim_start_matches("tiling-").parse().unwrap();
    explore::replay_verbose(&Tiling { len }, &explore::hist_from_json(&r["history"]), "C10")
}
