//! C10 — block requests tile each assigned piece exactly once.
//! E-ENUM: the block list for every piece length 1..=81921. E-SYS: one real connection task, piece
//! lengths around the 16 KiB block size and a short last piece; the scripted peer answers the
//! outstanding requests in every order, may duplicate an answered block, may stop answering.

use crate::core::{self, Ctx, Outcome};
use crate::explore::{self, Scenario};
use crate::fixture::Torrent;
use crate::refwire::{self, Msg};
use crate::world::{peer_cfg, Ev, World, WorldCfg};
use rdest::verif::verif_blocks;
use serde_json::{json, Value};
use std::collections::BTreeSet;

pub struct Tiling {
    pub len: usize,
    /// 0 = the two-piece torrent whose peer owns everything. n > 0: a torrent of n pieces (n >= 11:
    /// outside end game) whose peer advertises piece 0 only and may change its mind while it is
    /// being fetched: B = the same Bitfield again, H = Have(1).
    pub mind_pieces: usize,
}

#[derive(Default)]
pub struct Mon {
    /// Requests the peer has seen and not answered yet, in arrival order.
    pub outstanding: Vec<(u32, u32, u32)>,
    /// Per piece: blocks requested so far.
    pub requested: Vec<BTreeSet<(u32, u32)>>,
    pub answered: Vec<(u32, u32, u32)>,
    pub scanned: usize,
    pub dups: usize,
    pub rebitfield: bool,
    pub have_sent: bool,
    pub asked_us: bool,
}

impl Tiling {
    fn torrent(&self) -> Torrent {
        if self.mind_pieces > 0 {
            return Torrent::new("t", self.len, &[("f", self.len * (self.mind_pieces - 1) + 5)], true);
        }
        let total = if self.len == 1 { 2 } else { self.len + 5 };
        Torrent::new("t", self.len, &[("f", total)], true)
    }
}

fn block_bytes(t: &Torrent, r: &(u32, u32, u32)) -> Vec<u8> {
    let p = &t.pieces[r.0 as usize];
    p[r.1 as usize..(r.1 + r.2) as usize].to_vec()
}

impl Scenario for Tiling {
    type Mon = Mon;
    fn name(&self) -> String {
        if self.mind_pieces > 0 {
            return format!("tiling-{}-mind{}", self.len, self.mind_pieces);
        }
        format!("tiling-{}", self.len)
    }
    fn cfg(&self) -> WorldCfg {
        WorldCfg { torrent: self.torrent(), have: vec![], peers: vec![peer_cfg(0, true)], gated: false, stale: vec![] }
    }
    fn setup(&self, w: &mut World, _mon: &mut Mon) {
        let t = w.t.clone();
        let id = w.peers[0].cfg.id;
        let mut all = vec![true; t.hashes.len()];
        if self.mind_pieces > 0 {
            all = (0..t.hashes.len()).map(|i| i == 0).collect();
        }
        w.feed(0, &[refwire::handshake(t.meta.info_hash(), &id), Msg::Bitfield(refwire::bitfield_bytes(&all)), Msg::Unchoke]);
    }
    fn enabled(&self, _w: &World, mon: &Mon, _depth: usize) -> Vec<String> {
        let mut e: Vec<String> = (0..mon.outstanding.len()).map(|k| format!("A{}", k)).collect();
        if self.mind_pieces > 0 {
            if !mon.rebitfield {
                e.push("B".to_string());
            }
            if !mon.have_sent {
                e.push("H".to_string());
            }
            // the peer asks US for a block in the middle of its upload to us (a piece we lack: refused)
            if !mon.asked_us {
                e.push("Q".to_string());
            }
        }
        if !mon.answered.is_empty() && mon.dups < 2 {
            e.push("D".to_string());
        }
        e
    }
    fn concretize(&self, w: &World, mon: &Mon, sym: &str) -> Vec<Ev> {
        if sym == "B" {
            let bits: Vec<bool> = (0..w.t.hashes.len()).map(|i| i == 0).collect();
            return vec![Ev::Feed(0, refwire::encode(&Msg::Bitfield(refwire::bitfield_bytes(&bits))))];
        }
        if sym == "H" {
            return vec![Ev::Feed(0, refwire::encode(&Msg::Have(1)))];
        }
        if sym == "Q" {
            return vec![Ev::Feed(0, refwire::encode(&Msg::Request(2, 0, 1)))];
        }
        let r = if sym == "D" { *mon.answered.last().unwrap() } else { mon.outstanding[sym[1..].parse::<usize>().unwrap()] };
        vec![Ev::Feed(0, refwire::encode(&Msg::Piece(r.0, r.1, block_bytes(&w.t, &r))))]
    }
    fn check(&self, w: &World, mon: &mut Mon, last: Option<&str>) -> Option<(&'static str, String)> {
        if let Some(d) = &w.dead {
            return Some(("manager-died", d.clone()));
        }
        if let Some(p) = w.handler_panics.first() {
            return Some(("connection-task-panicked", p.clone()));
        }
        let t = &w.t;
        if mon.requested.is_empty() {
            mon.requested = vec![BTreeSet::new(); t.pieces.len()];
        }
        // which block was answered in this step (before looking at the client's reaction)
        let mut accepted: Option<(u32, u32, u32)> = None;
        if let Some(sym) = last {
            if sym == "D" {
                mon.dups += 1;
            } else if sym == "B" {
                mon.rebitfield = true;
            } else if sym == "H" {
                mon.have_sent = true;
            } else if sym == "Q" {
                mon.asked_us = true;
            } else {
                let k: usize = sym[1..].parse().unwrap();
                let r = mon.outstanding.remove(k);
                mon.answered.push(r);
                accepted = Some(r);
            }
        }
        // requests written in this step
        let msgs = &w.peers[0].msgs;
        let mut new_requests = 0;
        for m in &msgs[mon.scanned..] {
            if let Msg::Request(i, b, l) = m {
                new_requests += 1;
                if *i as usize >= t.pieces.len() {
                    return Some(("request-for-unknown-piece", format!("{:?}", m)));
                }
                let plen = t.pieces[*i as usize].len() as u32;
                if *l == 0 || *l > 16384 || b.checked_add(*l).map(|e| e > plen).unwrap_or(true) {
                    return Some(("request-outside-piece-or-too-long", format!("{:?} for a piece of {} bytes", m, plen)));
                }
                // pieces are fetched one at a time: an earlier piece must be completely requested
                for (j, set) in mon.requested.iter().enumerate() {
                    if j != *i as usize && !set.is_empty() {
                        let covered: u32 = set.iter().map(|x| x.1).sum();
                        if covered != t.pieces[j].len() as u32 {
                            return Some(("request-names-another-piece", format!("{:?} while piece {} is only partly requested ({:?})", m, j, set)));
                        }
                    }
                }
                for (b2, l2) in mon.requested[*i as usize].iter() {
                    if *b < b2 + l2 && *b2 < b + l {
                        return Some(("overlapping-or-repeated-request", format!("{:?} overlaps ({}, {})", m, b2, l2)));
                    }
                }
                mon.requested[*i as usize].insert((*b, *l));
                mon.outstanding.push((*i, *b, *l));
            }
        }
        mon.scanned = msgs.len();
        if let Some(r) = accepted {
            let i = r.0 as usize;
            let covered: u32 = mon.requested[i].iter().map(|x| x.1).sum();
            let plen = t.pieces[i].len() as u32;
            let answered_i: u32 = mon.answered.iter().filter(|a| a.0 == r.0).map(|a| a.2).sum();
            if answered_i < plen {
                // blocks of this piece are still missing
                let still_unrequested_before_step = plen - (covered - new_requests_for(msgs, mon, r.0, new_requests));
                if still_unrequested_before_step > 0 && new_requests == 0 {
                    return Some(("accepted-block-not-followed-by-request", format!("block {:?} accepted, {} bytes of the piece were never requested, no request written", r, still_unrequested_before_step)));
                }
                if w.has_piece_file(i) {
                    return Some(("piece-completed-early", format!("piece {} stored although only {} of {} bytes were answered", i, answered_i, plen)));
                }
            } else {
                // that was the last outstanding block of the piece
                if covered != plen {
                    return Some(("piece-not-tiled", format!("piece {} of {} bytes: requests cover {} bytes: {:?}", i, plen, covered, mon.requested[i])));
                }
                let mut pos = 0;
                for (k, (b, l)) in mon.requested[i].iter().enumerate() {
                    if *b != pos || (*l != 16384 && k + 1 != mon.requested[i].len()) {
                        return Some(("piece-not-tiled", format!("piece {}: blocks {:?}", i, mon.requested[i])));
                    }
                    pos += l;
                }
                if !w.has_piece_file(i) {
                    return Some(("piece-not-completed-on-last-block", format!("all {} bytes of piece {} were answered but it is not stored", plen, i)));
                }
            }
        }
        None
    }
    fn key(&self, w: &World, mon: &Mon) -> String {
        format!("{} out={:?} ans={} dups={} b={} h={} q={}", w.default_key(), mon.outstanding, mon.answered.len(), mon.dups, mon.rebitfield, mon.have_sent, mon.asked_us)
    }
}

/// Bytes of piece `piece` requested by the requests written in the current step.
fn new_requests_for(msgs: &[Msg], _mon: &Mon, piece: u32, new_requests: usize) -> u32 {
    msgs.iter()
        .rev()
        .filter_map(|m| if let Msg::Request(i, _, l) = m { Some((*i, *l)) } else { None })
        .take(new_requests)
        .filter(|(i, _)| *i == piece)
        .map(|(_, l)| l)
        .sum()
}

// -------------------------------------------------------------------------------------------
// One connection whose peer chokes in the middle of a piece: a choke ends the fetch (BEP3: the
// choking peer discards our requests); blocks still in flight arrive behind the Choke
// -------------------------------------------------------------------------------------------

pub struct TilingChoke {
    pub len: usize,
}

#[derive(Default)]
pub struct MonC {
    pub outstanding: Vec<(u32, u32, u32)>,
    /// Requests that were outstanding when the peer choked: their answers may still arrive (L<k>).
    pub late: Vec<(u32, u32, u32)>,
    pub cur: Option<u32>,
    pub requested: BTreeSet<(u32, u32)>,
    pub answered_bytes: u32,
    pub scanned: usize,
    pub choked: bool,
    pub chokes: usize,
    pub stored: Vec<bool>,
    /// The peer's own interest in us: I (Interested) and N (NotInterested), once each, at any point.
    pub said_i: bool,
    pub said_n: bool,
}

impl Scenario for TilingChoke {
    type Mon = MonC;
    fn name(&self) -> String {
        format!("tiling-choke-{}", self.len)
    }
    fn cfg(&self) -> WorldCfg {
        WorldCfg { torrent: Torrent::new("t", self.len, &[("f", self.len + 5)], true), have: vec![], peers: vec![peer_cfg(0, true)], gated: false, stale: vec![] }
    }
    fn setup(&self, w: &mut World, _mon: &mut MonC) {
        let t = w.t.clone();
        let id = w.peers[0].cfg.id;
        w.feed(0, &[refwire::handshake(t.meta.info_hash(), &id), Msg::Bitfield(refwire::bitfield_bytes(&vec![true; t.hashes.len()])), Msg::Unchoke]);
    }
    fn enabled(&self, w: &World, mon: &MonC, _depth: usize) -> Vec<String> {
        if w.peers[0].ended.get() {
            return vec![];
        }
        let mut e = vec![];
        if !mon.said_i {
            e.push("I".to_string());
        }
        if !mon.said_n {
            e.push("N".to_string());
        }
        if mon.choked {
            e.push("U".to_string());
            e.extend((0..mon.late.len()).map(|k| format!("L{}", k)));
        } else {
            e.extend((0..mon.outstanding.len()).map(|k| format!("A{}", k)));
            if mon.chokes < 2 {
                e.push("C".to_string());
            }
        }
        e
    }
    fn concretize(&self, w: &World, mon: &MonC, sym: &str) -> Vec<Ev> {
        match &sym[..1] {
            "U" => vec![Ev::Feed(0, refwire::encode(&Msg::Unchoke))],
            "C" => vec![Ev::Feed(0, refwire::encode(&Msg::Choke))],
            "I" => vec![Ev::Feed(0, refwire::encode(&Msg::Interested))],
            "N" => vec![Ev::Feed(0, refwire::encode(&Msg::NotInterested))],
            "A" => {
                let r = mon.outstanding[sym[1..].parse::<usize>().unwrap()];
                vec![Ev::Feed(0, refwire::encode(&Msg::Piece(r.0, r.1, block_bytes(&w.t, &r))))]
            }
            _ => {
                let r = mon.late[sym[1..].parse::<usize>().unwrap()];
                vec![Ev::Feed(0, refwire::encode(&Msg::Piece(r.0, r.1, block_bytes(&w.t, &r))))]
            }
        }
    }
    fn check(&self, w: &World, mon: &mut MonC, last: Option<&str>) -> Option<(&'static str, String)> {
        if let Some(d) = &w.dead {
            return Some(("manager-died", d.clone()));
        }
        if let Some(p) = w.handler_panics.first() {
            return Some(("connection-task-panicked", p.clone()));
        }
        let t = &w.t;
        if mon.stored.is_empty() {
            mon.stored = vec![false; t.pieces.len()];
        }
        let mut accepted: Option<(u32, u32, u32)> = None;
        let mut late_fed: Option<(u32, u32, u32)> = None;
        match last.map(|s| (&s[..1], s)) {
            Some(("C", _)) => {
                mon.late = std::mem::take(&mut mon.outstanding);
                mon.choked = true;
                mon.chokes += 1;
                mon.cur = None;
                mon.requested.clear();
                mon.answered_bytes = 0;
            }
            Some(("U", _)) => {
                mon.choked = false;
                mon.late.clear();
            }
            Some(("A", s)) => {
                let r = mon.outstanding.remove(s[1..].parse::<usize>().unwrap());
                mon.answered_bytes += r.2;
                accepted = Some(r);
            }
            Some(("L", s)) => late_fed = Some(mon.late.remove(s[1..].parse::<usize>().unwrap())),
            Some(("I", _)) => mon.said_i = true,
            Some(("N", _)) => mon.said_n = true,
            _ => {}
        }
        // the last outstanding block of the piece arrived: judged before the requests for the next piece
        if let (Some(r), Some(cur)) = (accepted, mon.cur) {
            let plen = t.pieces[cur as usize].len() as u32;
            if r.0 == cur && mon.answered_bytes == plen {
                let covered: u32 = mon.requested.iter().map(|x| x.1).sum();
                let mut pos = 0;
                let n = mon.requested.len();
                for (k, (b, l)) in mon.requested.iter().enumerate() {
                    if *b != pos || (*l != 16384 && k + 1 != n) {
                        return Some(("piece-not-tiled", format!("piece {}: blocks {:?}", cur, mon.requested)));
                    }
                    pos += l;
                }
                if covered != plen {
                    return Some(("piece-not-tiled", format!("piece {} of {} bytes: requests cover {} bytes: {:?}", cur, plen, covered, mon.requested)));
                }
                if !w.has_piece_file(cur as usize) {
                    return Some(("piece-not-completed-on-last-block", format!("all {} bytes of piece {} were answered but it is not stored", plen, cur)));
                }
                mon.cur = None;
                mon.requested.clear();
                mon.answered_bytes = 0;
                accepted = None;
            }
        }
        let covered_before: u32 = mon.requested.iter().map(|x| x.1).sum();
        let msgs = &w.peers[0].msgs;
        let mut new_requests = 0;
        for m in &msgs[mon.scanned..] {
            if let Msg::Request(i, b, l) = m {
                new_requests += 1;
                if mon.choked {
                    return Some(("request-while-choked", format!("{:?} written while the peer chokes us (after {:?}): it belongs to no decision to fetch a piece, the choke ended the last one", m, last)));
                }
                if *i as usize >= t.pieces.len() {
                    return Some(("request-for-unknown-piece", format!("{:?}", m)));
                }
                let plen = t.pieces[*i as usize].len() as u32;
                if *l == 0 || *l > 16384 || b.checked_add(*l).map(|e| e > plen).unwrap_or(true) {
                    return Some(("request-outside-piece-or-too-long", format!("{:?} for a piece of {} bytes", m, plen)));
                }
                match mon.cur {
                    None => mon.cur = Some(*i),
                    Some(j) if j != *i => return Some(("request-names-another-piece", format!("{:?} while piece {} is only partly requested ({:?})", m, j, mon.requested))),
                    _ => {}
                }
                for (b2, l2) in mon.requested.iter() {
                    if *b < b2 + l2 && *b2 < b + l {
                        return Some(("overlapping-or-repeated-request", format!("{:?} overlaps ({}, {})", m, b2, l2)));
                    }
                }
                mon.requested.insert((*b, *l));
                mon.outstanding.push((*i, *b, *l));
            }
        }
        mon.scanned = msgs.len();
        if let (Some(r), Some(cur)) = (accepted, mon.cur) {
            let plen = t.pieces[cur as usize].len() as u32;
            if covered_before < plen && new_requests == 0 {
                return Some(("accepted-block-not-followed-by-request", format!("block {:?} accepted, {} bytes of the piece were never requested, no request written", r, plen - covered_before)));
            }
        }
        for i in 0..t.pieces.len() {
            let has = w.has_piece_file(i);
            if has && !mon.stored[i] {
                if let Some(r) = late_fed {
                    return Some(("piece-completed-by-blocks-after-choke", format!("piece {} was stored when block {:?} arrived behind the peer's Choke: the choke had ended that fetch, nothing was outstanding", i, r)));
                }
            }
            mon.stored[i] = has;
        }
        None
    }
    fn key(&self, w: &World, mon: &MonC) -> String {
        format!("{} out={:?} late={:?} cur={:?} req={:?} ans={} choked={} chokes={}", w.default_key(), mon.outstanding, mon.late, mon.cur, mon.requested, mon.answered_bytes, mon.choked, mon.chokes) + &format!(" i={} n={}", mon.said_i, mon.said_n)
    }
}

// -------------------------------------------------------------------------------------------
// Two connections in end game: assignments get cancelled when the other connection finishes first
// -------------------------------------------------------------------------------------------

pub struct Tiling2 {
    pub len: usize,
}

#[derive(Default, Clone)]
pub struct ConnMon {
    pub outstanding: Vec<(u32, u32, u32)>,
    /// Piece the connection is currently asked for, and the blocks requested for it so far.
    pub cur: Option<u32>,
    pub requested: BTreeSet<(u32, u32)>,
    pub answered_bytes: u32,
    pub scanned: usize,
    pub extra_unchokes: usize,
    pub closed: bool,
}

#[derive(Default)]
pub struct Mon2 {
    pub c: Vec<ConnMon>,
}

impl Scenario for Tiling2 {
    type Mon = Mon2;
    fn name(&self) -> String {
        format!("tiling2-{}", self.len)
    }
    fn cfg(&self) -> WorldCfg {
        WorldCfg { torrent: Torrent::new("t", self.len, &[("f", 3 * self.len)], true), have: vec![], peers: vec![peer_cfg(0, true), peer_cfg(1, false)], gated: false, stale: vec![] }
    }
    fn explore_choices(&self) -> bool {
        true
    }
    fn setup(&self, w: &mut World, mon: &mut Mon2) {
        let t = w.t.clone();
        mon.c = vec![ConnMon::default(); 2];
        for k in 0..2 {
            let id = w.peers[k].cfg.id;
            w.feed(k, &[refwire::handshake(t.meta.info_hash(), &id), Msg::Bitfield(vec![0xe0])]);
        }
    }
    fn enabled(&self, w: &World, mon: &Mon2, _depth: usize) -> Vec<String> {
        let mut e = vec![];
        for k in 0..2 {
            if w.peers[k].ended.get() {
                continue;
            }
            // the unchoke comes at any point (so the two connections start in any order)
            if mon.c[k].closed {
                continue;
            }
            if w.handler(k).map(|h| h.choked).unwrap_or(false) {
                e.push(format!("U{}", k));
            } else if mon.c[k].extra_unchokes < 1 {
                e.push(format!("V{}", k)); // a repeated Unchoke while already unchoked
            }
            if !mon.c[1 - k].closed {
                e.push(format!("X{}", k)); // this connection is lost (the other one stays)
            }
            for j in 0..mon.c[k].outstanding.len() {
                e.push(format!("A{}:{}", k, j));
            }
        }
        e
    }
    fn concretize(&self, w: &World, mon: &Mon2, sym: &str) -> Vec<Ev> {
        let k: usize = sym[1..2].parse().unwrap();
        if sym.starts_with('U') || sym.starts_with('V') {
            return vec![Ev::Feed(k, refwire::encode(&Msg::Unchoke))];
        }
        if sym.starts_with('X') {
            return vec![Ev::Close(k)];
        }
        let j: usize = sym[3..].parse().unwrap();
        let r = mon.c[k].outstanding[j];
        vec![Ev::Feed(k, refwire::encode(&Msg::Piece(r.0, r.1, block_bytes(&w.t, &r))))]
    }
    fn check(&self, w: &World, mon: &mut Mon2, last: Option<&str>) -> Option<(&'static str, String)> {
        if let Some(d) = &w.dead {
            return Some(("manager-died", d.clone()));
        }
        if let Some(p) = w.handler_panics.first() {
            return Some(("connection-task-panicked", p.clone()));
        }
        let t = &w.t;
        let mut accepted: Option<(usize, (u32, u32, u32))> = None;
        if let Some(sym) = last {
            if sym.starts_with('V') {
                mon.c[sym[1..2].parse::<usize>().unwrap()].extra_unchokes += 1;
            }
            if sym.starts_with('X') {
                let k: usize = sym[1..2].parse().unwrap();
                mon.c[k].closed = true;
                mon.c[k].outstanding.clear();
            }
            if sym.starts_with('A') {
                let k: usize = sym[1..2].parse().unwrap();
                let j: usize = sym[3..].parse().unwrap();
                let r = mon.c[k].outstanding.remove(j);
                mon.c[k].answered_bytes += r.2;
                accepted = Some((k, r));
            }
        }
        for k in 0..2 {
            if mon.c[k].closed {
                continue;
            }
            let msgs = &w.peers[k].msgs;
            let mut new_requests_cur = 0u32;
            let mut cancelled = false;
            let before_requested: u32 = mon.c[k].requested.iter().map(|x| x.1).sum();
            let cur_before = mon.c[k].cur;
            for m in &msgs[mon.c[k].scanned..] {
                match m {
                    Msg::Cancel(i, b, l) => {
                        mon.c[k].outstanding.retain(|r| r != &(*i, *b, *l));
                        cancelled = true;
                    }
                    Msg::Request(i, b, l) => {
                        let plen = match t.pieces.get(*i as usize) {
                            Some(p) => p.len() as u32,
                            None => return Some(("request-for-unknown-piece", format!("{:?}", m))),
                        };
                        if *l == 0 || *l > 16384 || b.checked_add(*l).map(|e| e > plen).unwrap_or(true) {
                            return Some(("request-outside-piece-or-too-long", format!("connection {}: {:?} for a piece of {} bytes", k, m, plen)));
                        }
                        let c = &mut mon.c[k];
                        let cur_done = c.cur.map(|p| c.answered_bytes >= t.pieces[p as usize].len() as u32).unwrap_or(true);
                        if c.cur != Some(*i) {
                            if !(cur_done || cancelled) {
                                return Some(("request-names-another-piece", format!("connection {}: {:?} while piece {:?} is neither finished nor cancelled (requested {:?})", k, m, c.cur, c.requested)));
                            }
                            c.cur = Some(*i);
                            c.requested.clear();
                            c.answered_bytes = 0;
                        } else if cancelled && cur_before == Some(*i) && c.requested.iter().any(|x| x.0 == *b) {
                            // the same piece may be assigned again after a cancel: a fresh tiling
                            c.requested.clear();
                            c.answered_bytes = 0;
                        }
                        for (b2, l2) in c.requested.iter() {
                            if *b < b2 + l2 && *b2 < b + l {
                                return Some(("overlapping-or-repeated-request", format!("connection {}: {:?} overlaps ({}, {})", k, m, b2, l2)));
                            }
                        }
                        c.requested.insert((*b, *l));
                        c.outstanding.push((*i, *b, *l));
                        new_requests_cur += 1;
                    }
                    _ => {}
                }
            }
            mon.c[k].scanned = msgs.len();
            if cancelled && mon.c[k].cur == cur_before && new_requests_cur == 0 {
                mon.c[k].cur = None;
                mon.c[k].requested.clear();
                mon.c[k].answered_bytes = 0;
            }
            if let Some((ak, r)) = accepted {
                if ak == k && !cancelled && cur_before == Some(r.0) && !w.peers[k].ended.get() {
                    let plen = t.pieces[r.0 as usize].len() as u32;
                    if before_requested < plen && new_requests_cur == 0 && !w.has_piece_file(r.0 as usize) {
                        return Some(("accepted-block-not-followed-by-request", format!("connection {}: block {:?} was a correct answer to an outstanding request, {} bytes of the piece were never requested, and no request was written", k, r, plen - before_requested)));
                    }
                    if mon.c[k].answered_bytes >= plen && mon.c[k].cur == Some(r.0) && !w.has_piece_file(r.0 as usize) {
                        return Some(("piece-not-completed-on-last-block", format!("connection {}: every block of piece {} was answered but it is not stored", k, r.0)));
                    }
                }
            }
            // no connection waits for a block that was already delivered
            if let Some(h) = w.handler(k) {
                if let Some(rx) = &h.piece_rx {
                    for (b, l) in &rx.requested {
                        if !mon.c[k].outstanding.iter().any(|o| o.0 as usize == rx.piece_index && o.1 as usize == *b && o.2 as usize == *l) {
                            return Some(("connection-waits-for-a-block-already-delivered", format!("connection {} waits for ({}, {}) of piece {} but the peer owes only {:?}", k, b, l, rx.piece_index, mon.c[k].outstanding)));
                        }
                    }
                } else if !mon.c[k].outstanding.is_empty() {
                    return Some(("requested-blocks-not-tracked", format!("connection {} asked its peer for {:?} but holds no assembly buffer: the answers will be dropped", k, mon.c[k].outstanding)));
                }
            }
        }
        None
    }
    fn key(&self, w: &World, mon: &Mon2) -> String {
        let c: Vec<String> = mon.c.iter().map(|c| format!("{:?}/{:?}/{:?}/{}/{}/{}", c.outstanding, c.cur, c.requested, c.answered_bytes, c.extra_unchokes, c.closed)).collect();
        format!("{} mon={:?}", crate::c12::strip_counters(&w.default_key()), c)
    }
    fn tags(&self, w: &World, _mon: &Mon2) -> Vec<&'static str> {
        let mut t = vec![];
        if (0..2).any(|k| w.new_msgs(k).iter().any(|m| matches!(m, Msg::Cancel(..)))) {
            t.push("assignment cancelled because the other connection finished the piece");
        }
        if w.cmds.iter().any(|c| c.starts_with("PieceDone")) {
            t.push("piece completed");
        }
        t
    }
}

fn enum_blocks(ctx: &Ctx) -> u64 {
    let max = 5 * 16384 + 1;
    let parts = core::par_ranges(max as u64, core::workers() * 4, |_| core::set_quiet_panics(true), |_, a, b| {
        for n in (a as usize + 1)..=(b as usize) {
            let blocks = match core::catch(|| verif_blocks(n)) {
                Ok(b) => b,
                Err(p) => {
                    ctx.violation("block-list-panic", format!("piece length {}: {}", n, p), json!({"kind": "blocks", "len": n}));
                    continue;
                }
            };
            let mut pos = 0;
            let mut ok = !blocks.is_empty();
            for (k, (b, l)) in blocks.iter().enumerate() {
                if *b != pos || *l == 0 || *l > 16384 || (*l != 16384 && k + 1 != blocks.len()) {
                    ok = false;
                }
                pos += l;
            }
            if !ok || pos != n {
                ctx.violation("block-list-does-not-tile", format!("piece length {}: blocks {:?}", n, &blocks[blocks.len().saturating_sub(3)..]), json!({"kind": "blocks", "len": n}));
            }
        }
        b - a
    });
    parts.iter().sum()
}

pub const LENGTHS: [usize; 7] = [1, 16383, 16384, 16385, 32768, 32769, 49153];

pub fn run(ctx: &Ctx) -> Outcome {
    let enumerated = enum_blocks(ctx);
    let mut total = explore::Stats { exhaustive: true, ..Default::default() };
    let mut per = vec![];
    for len in LENGTHS {
        let s = Tiling { len, mind_pieces: 0 };
        let st = explore::bfs(ctx, &s, 14, ctx.tier.pick(7, 1));
        per.push(json!({"scenario": s.name(), "states": st.states, "transitions": st.transitions, "depth_completed": st.depth_completed, "frontier": st.frontier_sizes}));
        total.merge(&st);
    }
    // a peer that changes its mind while a piece is being fetched from it (12 pieces: outside end game)
    for len in ctx.tier.pick(vec![40000usize], vec![40000usize, 16385, 65536]) {
        let s = Tiling { len, mind_pieces: 12 };
        let depth = ctx.tier.pick(8, 12);
        let st = explore::bfs(ctx, &s, depth, ctx.tier.pick(7, 1));
        per.push(json!({"scenario": s.name(), "depth": depth, "states": st.states, "transitions": st.transitions, "depth_completed": st.depth_completed}));
        total.merge(&st);
    }
    // the Have path with a choice (borrowed from C12): record, reservation, request and completion
    // must speak of the piece the manager chose, what is owned or announced must be stored
    {
        let (s, depth) = crate::c12::have_path_scenario(ctx.tier == core::Tier::Thorough);
        let st = explore::bfs(ctx, &s, depth, ctx.tier.pick(50, 25));
        per.push(json!({"scenario": Scenario::name(&s), "depth": depth, "states": st.states, "transitions": st.transitions, "depth_completed": st.depth_completed}));
        total.merge(&st);
    }
    // the peer chokes (at most twice) in the middle of a piece; blocks in flight arrive behind the Choke
    for len in ctx.tier.pick(vec![40000usize], vec![40000usize, 16385, 65541]) {
        let s = TilingChoke { len };
        let depth = ctx.tier.pick(9, 13);
        let st = explore::bfs(ctx, &s, depth, ctx.tier.pick(7, 1));
        per.push(json!({"scenario": Scenario::name(&s), "depth": depth, "states": st.states, "transitions": st.transitions, "depth_completed": st.depth_completed}));
        total.merge(&st);
    }
    for len in ctx.tier.pick(vec![40000usize], vec![40000usize, 16385, 49152]) {
        let s = Tiling2 { len };
        let depth = ctx.tier.pick(9, 14);
        let st = explore::bfs(ctx, &s, depth, ctx.tier.pick(25, 10));
        per.push(json!({"scenario": Scenario::name(&s), "depth": depth, "states": st.states, "transitions": st.transitions, "depth_completed": st.depth_completed}));
        total.merge(&st);
    }
    let mut o = Outcome::new("model_checking");
    explore::stats_outcome(&total, &mut o);
    o.set("block_lists_enumerated", json!(enumerated));
    o.set("scenarios", Value::Array(per));
    o.set("rule", json!("E-ENUM: PieceRx::left(n) for every n in 1..=81921. E-SYS: per piece length in [1,16383,16384,16385,32768,32769,49153] a 2-piece torrent (second piece = short last piece of 5 bytes); events A<k> = correct answer to the k-th outstanding request, D = duplicate of the last answered block; BFS over all histories until both pieces are complete (depth <= 14); a state = canonical snapshot of manager + handler + files + outstanding set. Mind-changing peer (tiling-<len>-mind12): 12 pieces (outside end game), the peer advertises piece 0 only and may, while it is being fetched, send the same Bitfield again (B), Have(1) (H) and a Request of its own for a piece the client lacks (Q, refused): requests must not name another piece while the current one is only partly requested. Choking peer (tiling-choke-<len>): one connection, 2 pieces; C = the peer chokes (at most twice, at any point of the piece), U = it unchokes again, A<k> as above, L<k> = the answer to a request that was outstanding when it choked arrives behind the Choke, in any order, I / N = the peer declares / withdraws its own interest in us (once each, at any point); a choke ends the fetch (the manager gives the piece free), so while choked no request may be written and no late block may complete a piece; after the unchoke the newly assigned piece is tiled from the start, same obligations. Two-connection scenarios (tiling2-<len>): 3 pieces of <len> bytes, two connections (end game, so both may be asked for the same piece and the slower one is cancelled and re-assigned), events U<k> unchoke, V<k> one repeated unchoke, X<k> loss of a connection, A<k>:<j> correct answer to the j-th outstanding request of connection k, every chooser tie-break; the same tiling / follow-up / completion obligations per assignment, plus: no connection waits for a block already delivered, requested blocks are tracked."));
    o.assume("one connection, honest payloads (corrupt ones are C01's subject), tie-breaks of the piece chooser fixed to the identity shuffle");
    o
}

pub fn replay(_ctx: &Ctx, r: &Value) -> i32 {
    if r["kind"] == "blocks" {
        let n = r["len"].as_u64().unwrap() as usize;
        println!("verif_blocks({}) = {:?}", n, core::catch(|| verif_blocks(n)));
        return 1;
    }
    let name = r["scenario"].as_str().unwrap();
    if name.starts_with("resv-") {
        for thorough in [false, true] {
            let (s, _) = crate::c12::have_path_scenario(thorough);
            if Scenario::name(&s) == name {
                return explore::replay_verbose(&s, &explore::hist_from_json(&r["history"]), "C10");
            }
        }
    }
    if let Some(len) = name.strip_prefix("tiling-choke-") {
        return explore::replay_verbose(&TilingChoke { len: len.parse().unwrap() }, &explore::hist_from_json(&r["history"]), "C10");
    }
    if let Some(len) = name.strip_prefix("tiling2-") {
        return explore::replay_verbose(&Tiling2 { len: len.parse().unwrap() }, &explore::hist_from_json(&r["history"]), "C10");
    }
    let rest = name.trim_start_matches("tiling-");
    let (len, mind) = match rest.split_once("-mind") {
        Some((l, m)) => (l.parse().unwrap(), m.parse().unwrap()),
        None => (rest.parse().unwrap(), 0),
    };
    explore::replay_verbose(&Tiling { len, mind_pieces: mind }, &explore::hist_from_json(&r["history"]), "C10")
}
