//! C11 — the client never advertises a piece it has not verified.
//! E-SYS (pumped world, gated broadcasts): one honest downloading connection D that completes
//! pieces, one outgoing observer O1 (connected at any point) and one incoming observer O2
//! (handshaking at any point); BFS over all interleavings of completions, broadcast releases,
//! handshakes, chokes and unchokes.

use crate::c12::strip_counters;
use crate::core::{self, Ctx, Outcome};
use crate::explore::{self, Scenario};
use crate::fixture::Torrent;
use crate::refwire::{self, Msg};
use crate::world::{peer_cfg, Ev, World, WorldCfg};
use rdest::verif::BroadCmd;
use serde_json::{json, Value};

pub struct Adv {
    pub pieces: usize,
    pub preowned: Vec<usize>,
    /// A second downloading connection D2 whose manager broadcasts are held back too: it can choke
    /// us or finish a piece before its task has seen that D completed the same piece.
    pub second_downloader: bool,
    /// The manager may be busy once per history (Z ... G): commands queue up and are worked off in
    /// arrival order without any task running in between.
    pub busy: bool,
    /// The incoming observer has handshaken and sent an (empty) bitfield before the search starts,
    /// so it holds one of our upload slots; every connection has reported its rates; R = one real
    /// choke rotation (it chokes the observer, which is not interested).
    pub rotate: bool,
}

#[derive(Default, Clone)]
pub struct Obs {
    pub world_index: Option<usize>,
    pub handshaken: bool,
    pub choking_us: bool,
    /// Completions whose broadcast was released to this connection task, in release order.
    pub released: Vec<usize>,
    pub scanned: usize,
    pub bitfield_seen: bool,
}

#[derive(Default)]
pub struct Mon {
    pub d_outstanding: Vec<(u32, u32, u32)>,
    pub d_scanned: usize,
    pub o: [Obs; 2],
    pub completed: Vec<usize>,
    pub d2_outstanding: Vec<(u32, u32, u32)>,
    pub d2_scanned: usize,
    pub d2_choking: bool,
    pub pause_used: bool,
    pub rotations: usize,
    /// Events that happened while the manager was busy (their commands are still queued).
    pub queued: Vec<String>,
}

impl Scenario for Adv {
    type Mon = Mon;
    fn name(&self) -> String {
        format!("advertise-{}-pre{:?}{}{}", self.pieces, self.preowned, if self.second_downloader { "-d2" } else { "" }, if self.busy { "-busy" } else if self.rotate { "-rotate" } else { "" })
    }
    fn cfg(&self) -> WorldCfg {
        let mut d = peer_cfg(0, true);
        d.ungated = true;
        // O2 (incoming) exists from the start, O1 (outgoing) is connected by an event
        let mut peers = vec![d, peer_cfg(2, false)];
        if self.second_downloader {
            peers.push(peer_cfg(3, true));
        }
        WorldCfg { torrent: Torrent::new("t", 5, &[("f", 5 * self.pieces)], true), have: self.preowned.clone(), peers, gated: true, stale: vec![] }
    }
    fn explore_choices(&self) -> bool {
        true
    }
    fn setup(&self, w: &mut World, mon: &mut Mon) {
        let t = w.t.clone();
        let id = w.peers[0].cfg.id;
        let all = vec![true; self.pieces];
        w.feed(0, &[refwire::handshake(t.meta.info_hash(), &id), Msg::Bitfield(refwire::bitfield_bytes(&all)), Msg::Unchoke]);
        if self.second_downloader {
            let id2 = w.peers[2].cfg.id;
            w.feed(2, &[refwire::handshake(t.meta.info_hash(), &id2), Msg::Bitfield(refwire::bitfield_bytes(&all)), Msg::Unchoke]);
        }
        mon.o[0] = Obs { choking_us: true, ..Default::default() };
        mon.o[1] = Obs { world_index: Some(1), choking_us: true, ..Default::default() };
        if self.rotate {
            let id2 = w.peers[1].cfg.id;
            w.feed(1, &[refwire::handshake(t.meta.info_hash(), &id2), Msg::Bitfield(refwire::bitfield_bytes(&vec![false; self.pieces]))]);
            mon.o[1].handshaken = true;
            w.step(&Ev::AdvanceTo(20_500), &[]);
        }
        mon.completed = self.preowned.clone();
    }
    fn enabled(&self, w: &World, mon: &Mon, _depth: usize) -> Vec<String> {
        let mut out = vec![];
        if !mon.d_outstanding.is_empty() && !w.peers[0].ended.get() {
            out.push("P".to_string());
        }
        if mon.o[0].world_index.is_none() {
            out.push("A1".to_string());
        }
        // the manager is busy for a while (once per history): commands of the tasks queue up and are
        // then worked off in arrival order without any task running in between
        if self.rotate && mon.rotations < 2 {
            out.push("R".to_string());
        }
        if w.manager_paused {
            out.push("G".to_string());
        } else if self.busy && !mon.pause_used {
            out.push("Z".to_string());
        }
        if self.second_downloader && !w.peers[2].ended.get() {
            if !mon.d2_outstanding.is_empty() && !mon.d2_choking {
                out.push("P2".to_string());
            }
            out.push(if mon.d2_choking { "M2".to_string() } else { "K2".to_string() });
            if !w.peers[2].pending.is_empty() {
                out.push("R2".to_string());
            }
        }
        for j in 0..2 {
            let o = &mon.o[j];
            let n = j + 1;
            if let Some(wi) = o.world_index {
                if w.peers[wi].ended.get() {
                    continue;
                }
                if !o.handshaken {
                    out.push(format!("S{}", n));
                } else {
                    out.push(if o.choking_us { format!("U{}", n) } else { format!("C{}", n) });
                }
                if !w.peers[wi].pending.is_empty() {
                    out.push(format!("L{}", n));
                }
            }
        }
        out
    }
    fn concretize(&self, w: &World, mon: &Mon, sym: &str) -> Vec<Ev> {
        if sym == "P" {
            let r = mon.d_outstanding[0];
            return vec![Ev::Feed(0, refwire::encode(&Msg::Piece(r.0, r.1, w.t.pieces[r.0 as usize][r.1 as usize..(r.1 + r.2) as usize].to_vec())))];
        }
        if sym == "A1" {
            // while the manager is busy the new connection receives broadcasts directly (ungated):
            // what matters there is what reaches its receiver before it resumes
            let mut cfg = peer_cfg(1, true);
            cfg.ungated = w.manager_paused;
            return vec![Ev::AddPeer(cfg)];
        }
        if sym == "Z" {
            return vec![Ev::PauseManager];
        }
        if sym == "R" {
            return vec![Ev::Rotate];
        }
        if sym == "G" {
            return vec![Ev::ResumeManager];
        }
        match sym {
            "P2" => {
                let r = mon.d2_outstanding[0];
                return vec![Ev::Feed(2, refwire::encode(&Msg::Piece(r.0, r.1, w.t.pieces[r.0 as usize][r.1 as usize..(r.1 + r.2) as usize].to_vec())))];
            }
            "K2" => return vec![Ev::Feed(2, refwire::encode(&Msg::Choke))],
            "M2" => return vec![Ev::Feed(2, refwire::encode(&Msg::Unchoke))],
            "R2" => return vec![Ev::Release(2)],
            _ => {}
        }
        let j: usize = sym[1..].parse::<usize>().unwrap() - 1;
        let wi = mon.o[j].world_index.unwrap();
        match &sym[..1] {
            "S" => vec![Ev::Feed(wi, refwire::encode(&refwire::handshake(w.t.meta.info_hash(), &w.peers[wi].cfg.id)))],
            "U" => vec![Ev::Feed(wi, refwire::encode(&Msg::Unchoke))],
            "C" => vec![Ev::Feed(wi, refwire::encode(&Msg::Choke))],
            "L" => vec![Ev::Release(wi)],
            _ => panic!("bad symbol {}", sym),
        }
    }
    fn check(&self, w: &World, mon: &mut Mon, last: Option<&str>) -> Option<(&'static str, String)> {
        if let Some(d) = &w.dead {
            return Some(("manager-died", d.clone()));
        }
        if let Some(p) = w.handler_panics.first() {
            return Some(("connection-task-panicked", p.clone()));
        }
        // what was released in this step (before the event the queue head was the released one)
        if let Some(sym) = last {
            match sym {
                "P" => {
                    mon.d_outstanding.remove(0);
                }
                "A1" => mon.o[0].world_index = Some(w.peers.len() - 1),
                "Z" => mon.pause_used = true,
                "G" => {}
                "R" => mon.rotations += 1,
                "P2" => {
                    mon.d2_outstanding.remove(0);
                }
                "K2" => {
                    mon.d2_choking = true;
                    mon.d2_outstanding.clear();
                }
                "M2" => mon.d2_choking = false,
                "R2" => {}
                _ => {
                    let j: usize = sym[1..].parse::<usize>().unwrap() - 1;
                    match &sym[..1] {
                        "S" => mon.o[j].handshaken = true,
                        "U" => mon.o[j].choking_us = false,
                        "C" => mon.o[j].choking_us = true,
                        _ => {}
                    }
                }
            }
        }
        // D's requests
        for m in &w.peers[0].msgs[mon.d_scanned..] {
            match m {
                Msg::Request(i, b, l) => mon.d_outstanding.push((*i, *b, *l)),
                Msg::Cancel(i, b, l) => mon.d_outstanding.retain(|r| r != &(*i, *b, *l)),
                _ => {}
            }
        }
        mon.d_scanned = w.peers[0].msgs.len();
        if self.second_downloader {
            for m in &w.peers[2].msgs[mon.d2_scanned..] {
                match m {
                    Msg::Request(i, b, l) => mon.d2_outstanding.push((*i, *b, *l)),
                    Msg::Cancel(i, b, l) => mon.d2_outstanding.retain(|r| r != &(*i, *b, *l)),
                    _ => {}
                }
            }
            mon.d2_scanned = w.peers[2].msgs.len();
        }
        if let Some(sym) = last {
            if sym == "G" {
                mon.queued.clear();
            } else if w.manager_paused && sym != "Z" {
                mon.queued.push(sym.to_string());
            }
        }
        let known_before: Vec<usize> = mon.completed.clone();
        // completions in this step, from the manager's broadcasts
        for b in &w.broadcasts {
            if let BroadCmd::SendHave { piece_index } = b {
                mon.completed.push(*piece_index);
            }
        }
        let stored: Vec<bool> = (0..self.pieces).map(|i| w.has_piece_file(i)).collect();
        for j in 0..2 {
            let wi = match mon.o[j].world_index {
                Some(wi) => wi,
                None => continue,
            };
            let side = &w.peers[wi];
            for (i, cmd) in &w.released {
                if *i == wi {
                    if let BroadCmd::SendHave { piece_index } = cmd {
                        mon.o[j].released.push(*piece_index);
                    }
                }
            }
            if side.cfg.ungated {
                // no gate: every announcement of this step reached the task's receiver directly
                for b in &w.broadcasts {
                    if let BroadCmd::SendHave { piece_index } = b {
                        mon.o[j].released.push(*piece_index);
                    }
                }
            }
            for m in &side.msgs[mon.o[j].scanned..] {
                match m {
                    Msg::Bitfield(b) => {
                        let bits = refwire::bitfield_bits(b, self.pieces);
                        // "at that moment" = when the manager built it: every piece it had been told
                        // about before this step is marked, nothing is marked that is not stored;
                        // a piece whose completion the manager worked off in this very step (after a
                        // busy phase) may be missing — it must then be announced (checked below)
                        let ok = match &bits {
                            Some(bits) => (0..self.pieces).all(|i| (!known_before.contains(&i) || bits[i]) && (!bits[i] || stored[i])),
                            None => false,
                        };
                        if !ok {
                            return Some(("bitfield-differs-from-verified-set", format!("observer {}: bitfield {:?}; verified and stored pieces are {:?}, the manager had been told about {:?} before this step", j + 1, bits, stored, known_before)));
                        }
                        mon.o[j].bitfield_seen = true;
                    }
                    Msg::Have(i) => {
                        if !stored.get(*i as usize).cloned().unwrap_or(false) {
                            return Some(("have-for-unverified-piece", format!("observer {}: Have({}) written, stored pieces {:?}", j + 1, i, stored)));
                        }
                    }
                    _ => {}
                }
            }
            mon.o[j].scanned = side.msgs.len();
            // nothing held back is lost or reordered: once the observer does not choke us, every
            // completion released to its connection task has been announced, in completion order
            if mon.o[j].handshaken && !mon.o[j].choking_us && !side.ended.get() && !w.manager_paused {
                let haves: Vec<usize> = side.msgs.iter().filter_map(|m| if let Msg::Have(i) = m { Some(*i as usize) } else { None }).collect();
                let mut it = haves.iter();
                for r in &mon.o[j].released {
                    if !it.any(|h| h == r) {
                        return Some((
                            "held-back-announcement-lost-or-reordered",
                            format!("observer {} is not choking us; completions released to its connection task: {:?}; Have frames written: {:?}", j + 1, mon.o[j].released, haves),
                        ));
                    }
                }
            }
        }
        None
    }
    fn tags(&self, w: &World, mon: &Mon) -> Vec<&'static str> {
        let mut t = vec![];
        for j in 0..2 {
            if let Some(wi) = mon.o[j].world_index {
                if w.handler(wi).map(|h| !h.msg_buff.is_empty()).unwrap_or(false) {
                    t.push("announcement held back while the observer chokes us");
                }
                if w.peers[wi].msgs[w.peers[wi].new_from..].iter().filter(|m| matches!(m, Msg::Have(_))).count() >= 2 {
                    t.push("several held-back announcements flushed at unchoke");
                }
                if w.peers[wi].msgs[w.peers[wi].new_from..].iter().any(|m| matches!(m, Msg::Bitfield(b) if b.iter().any(|x| *x != 0))) {
                    t.push("non-empty bitfield sent");
                }
            }
        }
        t
    }
    fn key(&self, w: &World, mon: &Mon) -> String {
        let o: Vec<String> = mon.o.iter().map(|o| format!("{:?}/{}/{}/{:?}", o.world_index, o.handshaken, o.choking_us, o.released)).collect();
        let haves: Vec<Vec<u32>> = mon.o.iter().map(|o| o.world_index.map(|wi| w.peers[wi].msgs.iter().filter_map(|m| if let Msg::Have(i) = m { Some(*i) } else { None }).collect()).unwrap_or_default()).collect();
        format!("{} d={:?} d2={:?}/{} o={:?} haves={:?} done={:?}  busy={}/{} rot={} q={:?}", strip_counters(&w.default_key()), mon.d_outstanding, mon.d2_outstanding, mon.d2_choking, o, haves, mon.completed, w.manager_paused, mon.pause_used, mon.rotations, mon.queued)
    }
}

pub fn scenarios(thorough: bool) -> Vec<(Adv, usize)> {
    if thorough {
        vec![(Adv { pieces: 3, preowned: vec![], second_downloader: false, busy: false, rotate: false }, 17), (Adv { pieces: 3, preowned: vec![1], second_downloader: false, busy: false, rotate: false }, 15), (Adv { pieces: 4, preowned: vec![], second_downloader: false, busy: false, rotate: false }, 14), (Adv { pieces: 3, preowned: vec![], second_downloader: true, busy: false, rotate: false }, 9), (Adv { pieces: 3, preowned: vec![], second_downloader: false, busy: true, rotate: false }, 11), (Adv { pieces: 3, preowned: vec![], second_downloader: false, busy: false, rotate: true }, 12)]
    } else {
        vec![(Adv { pieces: 3, preowned: vec![], second_downloader: false, busy: false, rotate: false }, 9), (Adv { pieces: 2, preowned: vec![], second_downloader: false, busy: false, rotate: false }, 11), (Adv { pieces: 2, preowned: vec![], second_downloader: true, busy: false, rotate: false }, 7), (Adv { pieces: 2, preowned: vec![], second_downloader: false, busy: true, rotate: false }, 8), (Adv { pieces: 2, preowned: vec![], second_downloader: false, busy: false, rotate: true }, 8)]
    }
}

/// A connection whose peer stops reading (so its task sits in a socket write) while the session
/// completes `later` more pieces: the announcements pile up in the task's broadcast queue. When the
/// peer reads again and unchokes, every announcement held back must be delivered -- or the
/// connection must be over (nothing is owed on a connection the client has ended).
/// Real session (`verif_run`), accept path, two loopback TCP connections, real clock.
pub fn socket_lag_case(dir: &std::path::PathBuf, later: usize) -> Result<(usize, Option<(&'static str, String)>), String> {
    use crate::fixture::Torrent;
    use tokio::io::{AsyncReadExt, AsyncWriteExt};
    use std::time::{Duration, Instant};
    core::wipe_dir(dir);
    rdest::verif::clear_snapshots();
    rdest::verif::set_choices(vec![]);
    rdest::verif::set_net(None);
    rdest::verif::publish_listen_addr(None);
    let first = 4usize;
    let n = first + later;
    let t = Torrent::new("t", 16384, &[("f", 16384 * n)], true);
    let rt = tokio::runtime::Builder::new_current_thread().enable_all().build().map_err(|e| e.to_string())?;
    let local = tokio::task::LocalSet::new();
    let meta = t.meta.clone();
    let res = local.block_on(&rt, async {
        rdest::verif::set_http(Some(Box::new(move |_req: &reqwest::Request| crate::httpfake::respond(200, crate::fullworld::tracker_body(&[])))));
        let mut session = rdest::Session::new(meta, *crate::world::OWN_ID);
        let session_task = tokio::task::spawn_local(async move { session.verif_run().await });
        let mut addr = None;
        for _ in 0..400 {
            tokio::time::sleep(Duration::from_millis(5)).await;
            if let Some(a) = rdest::verif::listen_addr() {
                addr = Some(a);
                break;
            }
        }
        let addr = addr.ok_or("the session never published its listening address".to_string())?;
        let target = std::net::SocketAddr::from(([127, 0, 0, 1], addr.port()));
        let mut buf = vec![0u8; 1 << 16];
        // D: the seeder
        let mut d = tokio::net::TcpStream::connect(target).await.map_err(|e| format!("cannot dial the client: {}", e))?;
        d.set_nodelay(true).ok();
        let mut all_bits = vec![true; n];
        all_bits.truncate(n);
        for m in [refwire::handshake(t.meta.info_hash(), b"-HS0001-lagseeder000"), Msg::Bitfield(refwire::bitfield_bytes(&all_bits)), Msg::Unchoke] {
            d.write_all(&refwire::encode(&m)).await.map_err(|e| e.to_string())?;
        }
        let mut d_in: Vec<u8> = vec![];
        let mut d_answered = 0usize;
        // seed until the client owns `want` pieces (told by its Have frames to D)
        async fn seed_until(d: &mut tokio::net::TcpStream, d_in: &mut Vec<u8>, d_answered: &mut usize, t: &Torrent, want: usize, buf: &mut Vec<u8>) -> Result<(), String> {
            let started = Instant::now();
            loop {
                let (all, _, err) = refwire::decode_stream(d_in);
                if let Some(e) = err {
                    return Err(format!("client wrote undecodable bytes to the seeder: {}", e.to_string()));
                }
                let haves = all.iter().filter(|m| matches!(m, Msg::Have(_))).count();
                let owned = rdest::verif::session_snapshot().map(|s| s.statuses.iter().filter(|x| **x == rdest::verif::Status::Have).count()).unwrap_or(0);
                if haves >= want || owned >= want {
                    return Ok(());
                }
                let reqs: Vec<(u32, u32, u32)> = all.iter().filter_map(|m| if let Msg::Request(i, b, l) = m { Some((*i, *b, *l)) } else { None }).collect();
                // one piece at a time beyond what is wanted is not answered (the seeder pauses)
                while *d_answered < reqs.len() && *d_answered < want {
                    let (i, b, l) = reqs[*d_answered];
                    *d_answered += 1;
                    d.write_all(&refwire::encode(&Msg::Piece(i, b, t.pieces[i as usize][b as usize..(b + l) as usize].to_vec()))).await.map_err(|e| e.to_string())?;
                }
                if started.elapsed() > Duration::from_secs(40) {
                    return Err(format!("seeding did not reach {} pieces within 40 s ({} Have frames seen)", want, haves));
                }
                match tokio::time::timeout(Duration::from_millis(100), d.read(buf)).await {
                    Ok(Ok(0)) | Ok(Err(_)) => {
                        // a client that owns everything ends the connection to a seeder
                        let haves = refwire::decode_stream(d_in).0.iter().filter(|m| matches!(m, Msg::Have(_))).count();
                        tokio::time::sleep(Duration::from_millis(50)).await;
                        let owned = rdest::verif::session_snapshot().map(|s| s.statuses.iter().filter(|x| **x == rdest::verif::Status::Have).count()).unwrap_or(0);
                        if haves >= want || owned >= want {
                            return Ok(());
                        }
                        return Err(format!("the client closed the seeder's connection after {} Have frames", haves));
                    }
                    Ok(Ok(k)) => d_in.extend_from_slice(&buf[..k]),
                    Err(_) => {}
                }
            }
        }
        seed_until(&mut d, &mut d_in, &mut d_answered, &t, first, &mut buf).await?;
        // P: a leecher that chokes us throughout, declares interest and gets unchoked
        let sock = tokio::net::TcpSocket::new_v4().map_err(|e| e.to_string())?;
        let _ = sock.set_recv_buffer_size(32 * 1024);
        let mut p = sock.connect(target).await.map_err(|e| format!("cannot dial the client: {}", e))?;
        p.set_nodelay(true).ok();
        // (the client hands out free upload slots when the bitfield arrives)
        for m in [refwire::handshake(t.meta.info_hash(), b"-HS0001-lagleecher00"), Msg::Bitfield(refwire::bitfield_bytes(&vec![false; n])), Msg::Interested] {
            p.write_all(&refwire::encode(&m)).await.map_err(|e| e.to_string())?;
        }
        let mut p_in: Vec<u8> = vec![];
        let started = Instant::now();
        loop {
            let (all, _, _) = refwire::decode_stream(&p_in);
            if all.iter().any(|m| matches!(m, Msg::Unchoke)) {
                break;
            }
            if started.elapsed() > Duration::from_secs(15) {
                return Err("the client did not unchoke the interested leecher within 15 s".to_string());
            }
            match tokio::time::timeout(Duration::from_millis(100), p.read(&mut buf)).await {
                Ok(Ok(0)) | Ok(Err(_)) => return Err("the client closed the leecher's connection at once".to_string()),
                Ok(Ok(k)) => p_in.extend_from_slice(&buf[..k]),
                Err(_) => {}
            }
        }
        // P floods requests for a piece the client owns and stops reading: its task ends up in a
        // socket write that cannot proceed
        let flood = 1024usize;
        let mut out = vec![];
        for _ in 0..flood {
            out.extend(refwire::encode(&Msg::Request(0, 0, 16384)));
        }
        p.write_all(&out).await.map_err(|e| e.to_string())?;
        tokio::time::sleep(Duration::from_millis(400)).await;
        // meanwhile the download goes on: `later` more pieces are completed and announced
        seed_until(&mut d, &mut d_in, &mut d_answered, &t, n, &mut buf).await?;
        // P reads again, unchokes, and collects the announcements
        p.write_all(&refwire::encode(&Msg::Unchoke)).await.map_err(|e| e.to_string())?;
        let started = Instant::now();
        let mut ended = false;
        let mut haves: std::collections::BTreeSet<u32> = Default::default();
        let mut order: Vec<u32> = vec![];
        let mut quiet_since = Instant::now();
        let mut pieces_seen = 0usize;
        loop {
            match tokio::time::timeout(Duration::from_millis(200), p.read(&mut buf)).await {
                Ok(Ok(0)) | Ok(Err(_)) => {
                    ended = true;
                }
                Ok(Ok(k)) => {
                    p_in.extend_from_slice(&buf[..k]);
                    quiet_since = Instant::now();
                }
                Err(_) => {}
            }
            let (all, used, err) = refwire::decode_stream(&p_in);
            for m in &all {
                match m {
                    Msg::Have(i) => {
                        if haves.insert(*i) {
                            order.push(*i);
                        }
                    }
                    Msg::Piece(..) => pieces_seen += 1,
                    // what the client owned when P connected is in its bitfield
                    Msg::Bitfield(bytes) => {
                        for i in 0..n {
                            if bytes.get(i / 8).map(|b| b >> (7 - i % 8) & 1 == 1).unwrap_or(false) {
                                haves.insert(i as u32);
                            }
                        }
                    }
                    _ => {}
                }
            }
            if let Some(e) = err {
                return Ok((haves.len(), Some(("undecodable-bytes-on-lagging-connection", e.to_string()))));
            }
            p_in.drain(..used);
            // done: everything announced, or the connection is over, or answers stopped coming
            if haves.len() == n || ended {
                break;
            }
            if pieces_seen >= flood && quiet_since.elapsed() > Duration::from_secs(3) || started.elapsed() > Duration::from_secs(60) {
                break;
            }
        }
        session_task.abort();
        let verdict = if haves.len() == n || ended {
            None
        } else {
            let missing: Vec<u32> = (0..n as u32).filter(|i| !haves.contains(i)).collect();
            Some(("held-back-announcements-lost", format!("a leecher that chokes us stopped reading after {} requests (its connection task sat in a socket write) while the client completed {} more pieces; when it read again ({} answers) and unchoked, it knew of {} of {} pieces (bitfield at connect + announcements) and the connection stayed open: never announced {:?} (announced, in order: {:?})", flood, later, pieces_seen, haves.len(), n, missing, order)))
        };
        Ok::<_, String>((haves.len() + pieces_seen, verdict))
    });
    rdest::verif::set_http(None);
    res
}

/// Announcements held back for a peer that chokes us, flushed into a socket that cannot take them
/// at once (real loopback TCP, real clock; the harness plays the manager and the remote peer). The
/// real connection task runs over a TcpStream whose send buffer is 4 KiB and whose peer has a 4 KiB
/// receive buffer and does not read while it chokes us; `held_back` pieces complete elsewhere
/// (SendHave broadcasts, never allowed to lag), then the peer unchokes, reads, and one more piece
/// completes. The peer must decode Have 0, 1, .., held_back and nothing else.
pub fn held_back_flush_case(held_back: usize) -> Result<(usize, Option<(&'static str, String)>), String> {
    use rdest::verif::{handler_snapshot, Bitfield, BroadCmd, InitCmd, PeerCmd, PeerHandler, UnchokeCmd};
    use std::cell::RefCell;
    use std::rc::Rc;
    use std::time::{Duration, Instant};
    use tokio::io::{AsyncReadExt, AsyncWriteExt};
    use tokio::sync::{broadcast, mpsc};
    rdest::verif::clear_snapshots();
    rdest::verif::set_choices(vec![]);
    rdest::verif::set_net(None);
    core::set_quiet_panics(true);
    let info_hash = [7u8; 20];
    let peer_id = *b"-HS0001-heldbackpeer";
    let pieces_num = held_back + 1;
    let rt = tokio::runtime::Builder::new_current_thread().enable_all().build().map_err(|e| e.to_string())?;
    let local = tokio::task::LocalSet::new();
    local.block_on(&rt, async {
        let lsock = tokio::net::TcpSocket::new_v4().map_err(|e| e.to_string())?;
        lsock.set_recv_buffer_size(4096).map_err(|e| e.to_string())?;
        lsock.bind("127.0.0.1:0".parse().unwrap()).map_err(|e| e.to_string())?;
        let listener = lsock.listen(4).map_err(|e| e.to_string())?;
        let peer_addr = listener.local_addr().map_err(|e| e.to_string())?;
        let csock = tokio::net::TcpSocket::new_v4().map_err(|e| e.to_string())?;
        csock.set_send_buffer_size(4096).map_err(|e| e.to_string())?;
        let (ours, accepted) = tokio::join!(csock.connect(peer_addr), listener.accept());
        let ours = ours.map_err(|e| e.to_string())?;
        let (mut peer, _) = accepted.map_err(|e| e.to_string())?;
        let addr = peer_addr.to_string();
        let (peer_tx, mut peer_rx) = mpsc::channel(64);
        let (broad, broad_rx) = broadcast::channel(32);
        let killed: Rc<RefCell<Option<String>>> = Rc::new(RefCell::new(None));
        let killed2 = killed.clone();
        // the manager's side: bitfield without pieces, nothing to ask this peer for
        tokio::task::spawn_local(async move {
            while let Some(cmd) = peer_rx.recv().await {
                match cmd {
                    PeerCmd::Init { resp_ch, .. } => {
                        let _ = resp_ch.send(InitCmd::SendBitfield { bitfield: Bitfield::from_vec(&vec![false; pieces_num]) });
                    }
                    PeerCmd::RecvUnchoke { resp_ch, .. } => {
                        let _ = resp_ch.send(UnchokeCmd::Ignore);
                    }
                    PeerCmd::KillReq { reason, .. } => *killed2.borrow_mut() = Some(reason),
                    _ => (),
                }
            }
        });
        let mut handler = PeerHandler::new(addr.clone(), *crate::world::OWN_ID, None, info_hash, pieces_num, peer_tx, broad_rx);
        let task = tokio::task::spawn_local(async move { handler.run_outgoing(ours).await });
        peer.write_all(&refwire::encode(&refwire::handshake(&info_hash, &peer_id))).await.map_err(|e| e.to_string())?;
        let mut hello = vec![0u8; 68 + 4 + 1 + (pieces_num + 7) / 8];
        tokio::time::timeout(Duration::from_secs(10), peer.read_exact(&mut hello)).await.map_err(|_| "no handshake and bitfield from the client within 10 s".to_string())?.map_err(|e| e.to_string())?;
        if hello[68 + 4] != 5 || hello[68 + 5..].iter().any(|b| *b != 0) {
            return Err("the client's first frame after its handshake is not the empty bitfield the manager handed out".to_string());
        }
        // pieces complete elsewhere; the broadcast queue (32, the session's size) never lags
        for piece_index in 0..held_back {
            broad.send(BroadCmd::SendHave { piece_index }).map_err(|_| "the connection task is gone".to_string())?;
            while broad.len() >= 16 {
                tokio::task::yield_now().await;
            }
        }
        let started = Instant::now();
        while broad.len() > 0 || handler_snapshot(&addr).map(|s| s.msg_buff.len()) != Some(held_back) {
            if started.elapsed() > Duration::from_secs(20) {
                // a client that does not hold announcements back writes them at once: nothing to flush
                break;
            }
            tokio::time::sleep(Duration::from_millis(1)).await;
        }
        peer.write_all(&refwire::encode(&Msg::Unchoke)).await.map_err(|e| e.to_string())?;
        let mut stream: Vec<u8> = vec![];
        let mut buf = vec![0u8; 65536];
        let read_quiet = |want: usize| (want, ());
        let _ = read_quiet;
        async fn drain(peer: &mut tokio::net::TcpStream, stream: &mut Vec<u8>, buf: &mut Vec<u8>, want: usize) {
            while stream.len() < want {
                match tokio::time::timeout(Duration::from_secs(2), peer.read(buf)).await {
                    Ok(Ok(0)) | Ok(Err(_)) | Err(_) => break,
                    Ok(Ok(n)) => stream.extend_from_slice(&buf[..n]),
                }
            }
        }
        drain(&mut peer, &mut stream, &mut buf, held_back * 9).await;
        let _ = broad.send(BroadCmd::SendHave { piece_index: held_back });
        drain(&mut peer, &mut stream, &mut buf, (held_back + 1) * 9).await;
        let (msgs, _, err) = refwire::decode_stream(&stream);
        let haves: Vec<u32> = msgs.iter().filter_map(|m| if let Msg::Have(i) = m { Some(*i) } else { None }).collect();
        let others = msgs.iter().filter(|m| !matches!(m, Msg::Have(_) | Msg::KeepAlive)).count();
        let expected: Vec<u32> = (0..=held_back as u32).collect();
        let reason = killed.borrow().clone();
        drop(peer);
        drop(broad);
        let _ = tokio::time::timeout(Duration::from_secs(2), task).await;
        if haves == expected && err.is_none() && others == 0 {
            return Ok((msgs.len(), None));
        }
        let first_bad = haves.iter().zip(expected.iter()).position(|(a, b)| a != b).unwrap_or(haves.len().min(expected.len()));
        Ok((msgs.len(), Some(("held-back-announcements-lost-or-garbled-on-a-full-socket", format!("{} pieces completed while the peer choked us (send buffer 4 KiB, peer's receive buffer 4 KiB, peer not reading), then it unchoked and read everything, then one more piece completed: the peer decoded {} announcements instead of {} (in completion order up to #{}, then {:?}); {} other frames; stream error {:?}; {} bytes received; connection task ended: {:?}", held_back, haves.len(), expected.len(), first_bad, haves.get(first_bad), others, err, stream.len(), reason)))))
    })
}

/// A peer dials in from the very address (ip:port) under which the client already holds an outgoing
/// connection (a client that makes its outgoing connections from its listening port, restarted
/// under a new id). Real session and real accept path (loopback TCP, source port bound to X); the
/// outgoing connection to X ends in a MemPipe (connect seam). The two connections must not get
/// mixed up: every piece counted as owned is stored and verified, every Have / bitfield bit names
/// such a piece, nothing panics.
pub fn known_address_dial_in_case(dir: &std::path::PathBuf) -> Result<(usize, Option<(&'static str, String)>), String> {
    use crate::fixture::Torrent;
    use rdest::verif::{MemPipe, Status};
    use std::cell::RefCell;
    use std::rc::Rc;
    use std::time::{Duration, Instant};
    use tokio::io::{AsyncReadExt, AsyncWriteExt};
    core::wipe_dir(dir);
    rdest::verif::clear_snapshots();
    rdest::verif::set_choices(vec![]);
    rdest::verif::publish_listen_addr(None);
    core::set_quiet_panics(true);
    let t = Torrent::new("t", 16384, &[("f", 16384 * 3)], true);
    let rt = tokio::runtime::Builder::new_current_thread().enable_all().build().map_err(|e| e.to_string())?;
    let local = tokio::task::LocalSet::new();
    let meta = t.meta.clone();
    let port_x = std::net::TcpListener::bind("127.0.0.1:0").map_err(|e| e.to_string())?.local_addr().map_err(|e| e.to_string())?.port();
    let addr_x = format!("127.0.0.1:{}", port_x);
    let id_a = *b"-HS0001-knownaddr-A0";
    let id_b = *b"-HS0001-knownaddr-B0";
    let pipes: Rc<RefCell<Vec<(String, MemPipe)>>> = Rc::new(RefCell::new(vec![]));
    let p2 = pipes.clone();
    rdest::verif::set_net(Some(Box::new(move |addr: &str| {
        let pipe = MemPipe::new();
        p2.borrow_mut().push((addr.to_string(), pipe.clone()));
        Some(pipe)
    })));
    let listed = crate::world::PeerCfg { addr: addr_x.clone(), id: id_a, outgoing: true, ungated: true };
    let first = Rc::new(RefCell::new(true));
    rdest::verif::set_http(Some(Box::new(move |_req: &reqwest::Request| {
        let was_first = std::mem::replace(&mut *first.borrow_mut(), false);
        if was_first {
            crate::httpfake::respond(200, crate::fullworld::tracker_body(&[&listed]))
        } else {
            crate::httpfake::respond(200, crate::fullworld::tracker_body(&[]))
        }
    })));
    let dir2 = dir.clone();
    let res = local.block_on(&rt, async {
        let mut session = rdest::Session::new(meta, *crate::world::OWN_ID);
        let session_task = tokio::task::spawn_local(async move { session.verif_run().await });
        let wait = |what: &'static str, cond: &dyn Fn() -> bool| {
            let _ = what;
            cond()
        };
        let _ = wait;
        macro_rules! wait_for {
            ($what:expr, $cond:expr) => {{
                let started = Instant::now();
                loop {
                    if $cond {
                        break Ok(());
                    }
                    if started.elapsed() > Duration::from_secs(10) {
                        break Err(format!("timed out waiting for {}", $what));
                    }
                    tokio::time::sleep(Duration::from_millis(5)).await;
                }
            }};
        }
        wait_for!("the listener and the outgoing connection to X", rdest::verif::listen_addr().is_some() && pipes.borrow().iter().any(|(a, _)| *a == addr_x))?;
        let listen = rdest::verif::listen_addr().unwrap();
        let a = pipes.borrow().iter().find(|(a, _)| *a == addr_x).map(|(_, p)| p.clone()).unwrap();
        let wire_a = |a: &MemPipe| refwire::decode_writes(&a.writes()).unwrap_or_default();
        // A (the peer the client dialled under X): handshake, all pieces, unchoke
        a.feed(&[refwire::encode(&refwire::handshake(t.meta.info_hash(), &id_a)), refwire::encode(&Msg::Bitfield(vec![0xe0])), refwire::encode(&Msg::Unchoke)].concat());
        wait_for!("a request on the connection to A", wire_a(&a).iter().any(|m| matches!(m, Msg::Request(..))))?;
        let (pa, ba, la) = wire_a(&a).iter().find_map(|m| if let Msg::Request(i, b, l) = m { Some((*i, *b, *l)) } else { None }).unwrap();
        // B dials in FROM X's port: handshake under another id, every piece but the one A is asked for, unchoke
        let sock = tokio::net::TcpSocket::new_v4().map_err(|e| e.to_string())?;
        sock.set_reuseaddr(true).map_err(|e| e.to_string())?;
        sock.bind(addr_x.parse().unwrap()).map_err(|e| format!("cannot bind the source port: {}", e))?;
        let mut b = sock.connect(std::net::SocketAddr::from(([127, 0, 0, 1], listen.port()))).await.map_err(|e| format!("cannot dial the client: {}", e))?;
        b.set_nodelay(true).ok();
        let bits_b: Vec<bool> = (0..3).map(|i| i != pa as usize).collect();
        for m in [refwire::handshake(t.meta.info_hash(), &id_b), Msg::Bitfield(refwire::bitfield_bytes(&bits_b)), Msg::Unchoke] {
            b.write_all(&refwire::encode(&m)).await.map_err(|e| e.to_string())?;
        }
        // let the client work on B's messages (or refuse the connection)
        let mut b_in: Vec<u8> = vec![];
        let mut b_closed = false;
        let mut buf = vec![0u8; 1 << 16];
        let started = Instant::now();
        while started.elapsed() < Duration::from_millis(1500) {
            match tokio::time::timeout(Duration::from_millis(50), b.read(&mut buf)).await {
                Ok(Ok(0)) | Ok(Err(_)) => {
                    b_closed = true;
                    break;
                }
                Ok(Ok(k)) => b_in.extend_from_slice(&buf[..k]),
                Err(_) => {}
            }
            if refwire::decode_stream(&b_in).0.iter().any(|m| matches!(m, Msg::Request(..))) {
                break;
            }
        }
        // A delivers the block it was asked for
        a.feed(&refwire::encode(&Msg::Piece(pa, ba, t.pieces[pa as usize][ba as usize..(ba + la) as usize].to_vec())));
        tokio::time::sleep(Duration::from_millis(600)).await;
        // drain B once more
        while let Ok(Ok(k)) = tokio::time::timeout(Duration::from_millis(50), b.read(&mut buf)).await {
            if k == 0 {
                b_closed = true;
                break;
            }
            b_in.extend_from_slice(&buf[..k]);
        }
        let died = session_task.is_finished();
        let snap = rdest::verif::session_snapshot();
        session_task.abort();
        let msgs_b = refwire::decode_stream(&b_in).0;
        let msgs_a = wire_a(&a);
        let stored = |i: usize| std::fs::read(dir2.join(t.piece_file(i))).map(|d| core::sha1(&d) == t.hashes[i]).unwrap_or(false);
        let mut frames = 0;
        if died {
            return Ok((0, Some(("manager-died", format!("a peer dialled in from {} (an address the client holds an outgoing connection to): the session's event loop ended; {:?}", addr_x, core::take_last_panic())))));
        }
        if let Some(p) = core::take_last_panic() {
            return Ok((0, Some(("connection-task-panicked", format!("a peer dialled in from a connected address: {}", p)))));
        }
        let snap = snap.ok_or("no session snapshot".to_string())?;
        for (i, st) in snap.statuses.iter().enumerate() {
            if *st == Status::Have && !stored(i) {
                return Ok((frames, Some(("piece-counted-as-done-without-stored-data", format!("the client holds an outgoing connection to {x} (peer A, asked for piece {pa}); a second peer dials in FROM {x} (handshake under another id, bitfield without piece {pa}, unchoke; connection closed by the client: {bc}); A then delivers piece {pa}: the manager counts piece {i} as owned, but no verified file of it is stored (statuses {st:?}; frames to the dial-in peer {mb:?}; to A {ma:?})", x = addr_x, pa = pa, i = i, bc = b_closed, st = snap.statuses, mb = msgs_b.iter().map(|m| m.short()).collect::<Vec<_>>(), ma = msgs_a.iter().map(|m| m.short()).collect::<Vec<_>>())))));
            }
        }
        for (who, msgs) in [("the dial-in peer", &msgs_b), ("A", &msgs_a)] {
            for m in msgs.iter() {
                frames += 1;
                if let Msg::Have(i) = m {
                    if !stored(*i as usize) {
                        return Ok((frames, Some(("have-for-unverified-piece", format!("Have({}) was sent to {} but that piece is not stored and verified (a peer dialled in from the address of a connected peer)", i, who)))));
                    }
                }
            }
        }
        if !stored(pa as usize) || snap.statuses[pa as usize] != Status::Have {
            return Ok((frames, Some(("delivered-piece-not-owned", format!("A delivered piece {} correctly but it is {:?} / stored={} after a second peer dialled in from A's address", pa, snap.statuses[pa as usize], stored(pa as usize))))));
        }
        Ok::<_, String>((frames, None))
    });
    rdest::verif::set_http(None);
    rdest::verif::set_net(None);
    res
}

pub fn run(ctx: &Ctx) -> Outcome {
    let thorough = ctx.tier == core::Tier::Thorough;
    let mut total = explore::Stats { exhaustive: true, ..Default::default() };
    let mut per = vec![];
    for (s, depth) in scenarios(thorough) {
        let st = explore::bfs(ctx, &s, depth, ctx.tier.pick(50, 25));
        per.push(json!({"scenario": s.name(), "depth": depth, "states": st.states, "transitions": st.transitions, "depth_completed": st.depth_completed, "choice_points": st.choice_points, "frontier": st.frontier_sizes}));
        total.merge(&st);
    }
    // the Have path with a choice (borrowed from C12): record, reservation, request and completion
    // must speak of the piece the manager chose, what is owned or announced must be stored
    {
        let (s, depth) = crate::c12::have_path_scenario(thorough);
        let st = explore::bfs(ctx, &s, depth, ctx.tier.pick(50, 25));
        per.push(json!({"scenario": Scenario::name(&s), "depth": depth, "states": st.states, "transitions": st.transitions, "depth_completed": st.depth_completed}));
        total.merge(&st);
    }
    // what is announced across tracker-driven reconnects exists only in the full-session world
    for (s, depth) in crate::c02::announce_scenarios() {
        let st = explore::bfs(ctx, &s, depth, ctx.tier.pick(50, 25));
        per.push(json!({"scenario": explore::Sys::name(&s), "depth": depth, "states": st.states, "transitions": st.transitions, "depth_completed": st.depth_completed}));
        total.merge(&st);
    }
    // a connection task that falls behind the broadcast queue (real sockets, real clock)
    let mut lag_rows = vec![];
    for later in ctx.tier.pick(vec![20usize, 44], vec![8usize, 20, 31, 32, 33, 44, 100]) {
        let dir = core::private_cwd("c11", "lag");
        match socket_lag_case(&dir, later) {
            Ok((n, None)) => lag_rows.push(json!({"pieces_completed_during_the_stall": later, "frames_judged": n, "ok": true})),
            Ok((n, Some((class, why)))) => {
                lag_rows.push(json!({"pieces_completed_during_the_stall": later, "frames_judged": n, "violation": class}));
                ctx.violation(class, why, json!({"kind": "lag", "later": later}));
            }
            Err(e) => ctx.machinery_error(format!("real-socket lag run ({} pieces) could not be carried out: {}", later, e)),
        }
    }
    // a peer dialling in from the address of a connected peer (real accept path)
    let ka_dir = core::private_cwd("c11", "knownaddr");
    let ka_row = match known_address_dial_in_case(&ka_dir) {
        Ok((n, None)) => json!({"frames_judged": n, "ok": true}),
        Ok((n, Some((class, why)))) => {
            ctx.violation(class, why, json!({"kind": "knownaddr"}));
            json!({"frames_judged": n, "violation": class})
        }
        Err(e) => {
            ctx.machinery_error(format!("known-address dial-in run could not be carried out: {}", e));
            json!(null)
        }
    };
    // held-back announcements flushed into a socket that cannot take them at once
    let hb = ctx.tier.pick(3000usize, 6000usize);
    let hb_row = match held_back_flush_case(hb) {
        Ok((n, None)) => json!({"held_back": hb, "frames_judged": n, "ok": true}),
        Ok((n, Some((class, why)))) => {
            ctx.violation(class, why, json!({"kind": "heldback", "held_back": hb}));
            json!({"held_back": hb, "frames_judged": n, "violation": class})
        }
        Err(e) => {
            ctx.machinery_error(format!("held-back flush run could not be carried out: {}", e));
            json!(null)
        }
    };
    let mut o = Outcome::new("model_checking");
    explore::stats_outcome(&total, &mut o);
    o.set("scenarios", Value::Array(per));
    o.set("held_back_flush_run", hb_row);
    o.set("real_socket_lag_runs", Value::Array(lag_rows));
    o.set("known_address_dial_in_run", ka_row);
    o.set("rule", json!("single-block pieces; D (honest, outgoing, broadcasts ungated): P = correct answer to the oldest outstanding request (completes a piece); O1: A1 the client connects (writes handshake + bitfield), S1 peer handshake, U1/C1 unchoke/choke us, L1 release the oldest held-back broadcast to its connection task; O2 (incoming, present from the start): S2, U2/C2, L2; BFS over all interleavings, every tie-break of the chooser enumerated; states = canonical snapshots + monitor (released lists, Have frames per connection). Plus three full-session scenarios borrowed from C02 (announce-*: a host re-listed under a new peer id while its old connection is live, two seeders with held-back broadcasts, a connected address re-listed in front of a new one): every Have frame and every bitfield bit the client writes names a stored, verified piece. Plus real-socket runs (lag, dial-in from a connected address)."));
    o.assume("the property does not demand that announcements are held back while choked, only that holding back loses nothing; completion order = order of the manager's SendHave broadcasts");
    o
}

pub fn replay(_ctx: &Ctx, r: &Value) -> i32 {
    if r["kind"] == "knownaddr" {
        let dir = core::private_cwd("c11", "replay");
        return match known_address_dial_in_case(&dir) {
            Ok((_, Some((class, why)))) => {
                println!("VIOLATION property=C11 replay=<this file>\n  class={} {}", class, why);
                1
            }
            Ok((n, None)) => {
                println!("holds for this run ({} frames judged)", n);
                0
            }
            Err(e) => {
                eprintln!("could not be carried out: {}", e);
                2
            }
        };
    }
    if r["kind"] == "heldback" {
        return match held_back_flush_case(r["held_back"].as_u64().unwrap() as usize) {
            Ok((_, Some((class, why)))) => {
                println!("VIOLATION property=C11 replay=<this file>\n  class={} {}", class, why);
                1
            }
            Ok((n, None)) => {
                println!("holds for this run ({} frames judged)", n);
                0
            }
            Err(e) => {
                eprintln!("could not be carried out: {}", e);
                2
            }
        };
    }
    if r["kind"] == "lag" {
        let dir = core::private_cwd("c11", "replay");
        return match socket_lag_case(&dir, r["later"].as_u64().unwrap() as usize) {
            Ok((_, Some((class, why)))) => {
                println!("VIOLATION property=C11 replay=<this file>\n  class={} {}", class, why);
                1
            }
            Ok((n, None)) => {
                println!("holds for this run ({} frames judged)", n);
                0
            }
            Err(e) => {
                eprintln!("could not be carried out: {}", e);
                2
            }
        };
    }
    let name = r["scenario"].as_str().unwrap();
    if name.starts_with("resv-") {
        for thorough in [false, true] {
            let (s, _) = crate::c12::have_path_scenario(thorough);
            if Scenario::name(&s) == name {
                return explore::replay_verbose(&s, &explore::hist_from_json(&r["history"]), "C11");
            }
        }
    }
    for (s, _) in crate::c02::announce_scenarios() {
        if explore::Sys::name(&s) == name {
            return explore::replay_verbose(&s, &explore::hist_from_json(&r["history"]), "C11");
        }
    }
    for thorough in [false, true] {
        for (s, _) in scenarios(thorough) {
            if s.name() == name {
                return explore::replay_verbose(&s, &explore::hist_from_json(&r["history"]), "C11");
            }
        }
    }
    eprintln!("unknown scenario {}", name);
    2
}
