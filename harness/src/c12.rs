//! C12 — no missing piece is ever withheld by a stale reservation.
//! E-SYS (pumped world): the real manager and 2..3 real connection tasks, so the manager sees
//! exactly the command sequences connection tasks can produce; BFS over all peer-event histories
//! (bitfield, have, choke, unchoke — also repeated —, interest changes, completing the requested
//! piece — also while choking —, disconnect), every tie-break of the piece chooser enumerated.

use crate::core::{self, Ctx, Outcome};
use crate::explore::{self, Scenario};
use crate::fixture::Torrent;
use crate::refwire::{self, Msg};
use crate::world::{peer_cfg, Ev, World, WorldCfg};
use rdest::verif::Status;
use serde_json::{json, Value};

pub struct Resv {
    pub peers: usize,
    pub pieces: usize,
    pub gated: bool,
    /// Bitfield masks (over the first three pieces) a peer may announce.
    pub masks: Vec<u8>,
    pub with_close: bool,
    pub with_interest: bool,
    pub repeat_bitfield: bool,
    /// Z: the manager becomes busy and the rest of the swarm fills its command queue to the last
    /// slot; R: it comes back and works the queue off. Judged once it is back.
    pub busy: bool,
    /// Two manager-only peers that advertise this mask (over the first three pieces) and keep
    /// choking us: they make some pieces more common than others.
    pub crowd: Option<u8>,
    /// Bitfields (masks) the real peers send during setup; no Bitfield events in the search then.
    pub preset: Option<Vec<u8>>,
    /// Every store attempted by connection 0 fails (a directory sits where it writes a piece aside).
    pub store_fails: bool,
}

#[derive(Default, Clone)]
pub struct PeerMon {
    pub advertised: Vec<bool>,
    pub spoke: bool,
    pub bitfields: usize,
    pub outstanding: Vec<(u32, u32, u32)>,
    /// Requests the client cancelled (their answers may already be on the wire).
    pub cancelled: Vec<(u32, u32, u32)>,
    pub scanned: usize,
    pub closed: bool,
}

#[derive(Default)]
pub struct Mon {
    pub p: Vec<PeerMon>,
    pub had: Vec<bool>,
    /// Events since the manager became busy (part of the state: they sit in queues).
    pub queued: Vec<String>,
    pub pauses: usize,
}

impl Scenario for Resv {
    type Mon = Mon;
    fn name(&self) -> String {
        format!("resv-p{}-n{}-{}-m{:?}{}{}", self.peers, self.pieces, if self.gated { "gated" } else { "direct" }, self.masks, if self.with_close { "-close" } else { "" }, if self.with_interest { "-int" } else { "" }) + if self.repeat_bitfield { "-rebf" } else { "" } + if self.busy { "-fullqueue" } else { "" } + &match (&self.crowd, &self.preset) { (Some(c), Some(p)) => format!("-crowd{}-preset{:?}", c, p), _ => String::new() } + if self.store_fails { "-store-of-conn0-fails" } else { "" }
    }
    fn cfg(&self) -> WorldCfg {
        WorldCfg { torrent: Torrent::new("t", 5, &[("f", 5 * self.pieces)], true), have: vec![], peers: (0..self.peers).map(|k| peer_cfg(k, k % 2 == 0)).collect(), gated: self.gated, stale: vec![] }
    }
    fn explore_choices(&self) -> bool {
        true
    }
    fn setup(&self, w: &mut World, mon: &mut Mon) {
        let t = w.t.clone();
        for k in 0..self.peers {
            let id = w.peers[k].cfg.id;
            w.feed(k, &[refwire::handshake(t.meta.info_hash(), &id)]);
        }
        mon.p = vec![PeerMon { advertised: vec![false; self.pieces], ..Default::default() }; self.peers];
        mon.had = vec![false; self.pieces];
        if self.busy {
            w.add_mgr_peer();
        }
        if self.store_fails {
            let addr: String = w.peers[0].cfg.addr.chars().map(|c| if c.is_ascii_alphanumeric() { c } else { '_' }).collect();
            for i in 0..t.pieces.len() {
                std::fs::create_dir_all(w.dir.join(format!("{}.{}.part", t.piece_file(i), addr))).expect("cannot block the part path");
            }
        }
        if let Some(c) = self.crowd {
            for _ in 0..2 {
                let k = w.add_mgr_peer();
                w.step(&Ev::MgrBitfield(k, (0..self.pieces).map(|i| i < 3 && c >> i & 1 == 1).collect()), &[]);
            }
        }
        if let Some(pre) = &self.preset {
            for k in 0..self.peers {
                let bits: Vec<bool> = (0..self.pieces).map(|i| i < 3 && pre[k] >> i & 1 == 1).collect();
                w.feed(k, &[Msg::Bitfield(refwire::bitfield_bytes(&bits))]);
                mon.p[k].spoke = true;
                mon.p[k].bitfields = 2;
                for i in 0..3.min(self.pieces) {
                    mon.p[k].advertised[i] = pre[k] >> i & 1 == 1;
                }
            }
        }
    }
    fn enabled(&self, w: &World, mon: &Mon, _depth: usize) -> Vec<String> {
        let mut out = vec![];
        if self.busy {
            if w.manager_paused {
                out.push("R0".to_string());
            } else if mon.pauses < 1 {
                out.push("Z0".to_string());
            }
        }
        for k in 0..self.peers {
            if w.peers[k].ended.get() || mon.p[k].closed {
                continue;
            }
            let pm = &mon.p[k];
            // BEP3 peers send the bitfield first and once; the connection task forwards it whenever
            // it arrives, so repeated / late bitfields are command sequences the manager can see
            if !pm.spoke || (self.repeat_bitfield && pm.bitfields < 2) {
                for m in &self.masks {
                    out.push(format!("B{}:{}", k, m));
                }
            }
            for i in 0..3.min(self.pieces) {
                if !pm.advertised[i] {
                    out.push(format!("H{}:{}", k, i));
                }
            }
            out.push(format!("C{}", k));
            out.push(format!("U{}", k));
            if self.with_interest {
                out.push(format!("I{}", k));
                out.push(format!("N{}", k));
            }
            if !pm.outstanding.is_empty() {
                out.push(format!("P{}", k));
            }
            // the answer to a request that crossed our Cancel on the wire
            if self.gated && !pm.cancelled.is_empty() {
                out.push(format!("Q{}", k));
            }
            if self.with_close {
                out.push(format!("X{}", k));
            }
            if !w.peers[k].pending.is_empty() {
                out.push(format!("L{}", k));
            }
        }
        out
    }
    fn concretize(&self, w: &World, mon: &Mon, sym: &str) -> Vec<Ev> {
        let (head, rest) = sym.split_at(1);
        let (k, arg) = match rest.split_once(':') {
            Some((k, a)) => (k.parse::<usize>().unwrap(), Some(a.parse::<usize>().unwrap())),
            None => (rest.parse::<usize>().unwrap(), None),
        };
        let msg = match head {
            "B" => {
                let mask = arg.unwrap();
                let bits: Vec<bool> = (0..self.pieces).map(|i| i < 3 && mask >> i & 1 == 1).collect();
                Msg::Bitfield(refwire::bitfield_bytes(&bits))
            }
            "H" => Msg::Have(arg.unwrap() as u32),
            "C" => Msg::Choke,
            "U" => Msg::Unchoke,
            "I" => Msg::Interested,
            "N" => Msg::NotInterested,
            "P" => {
                let r = mon.p[k].outstanding[0];
                Msg::Piece(r.0, r.1, w.t.pieces[r.0 as usize][r.1 as usize..(r.1 + r.2) as usize].to_vec())
            }
            "Q" => {
                let r = mon.p[k].cancelled[0];
                Msg::Piece(r.0, r.1, w.t.pieces[r.0 as usize][r.1 as usize..(r.1 + r.2) as usize].to_vec())
            }
            "X" => return vec![Ev::Close(k)],
            "L" => return vec![Ev::Release(k)],
            "Z" => return vec![Ev::PauseManager, Ev::FillQueue],
            "R" => return vec![Ev::ResumeManager],
            _ => panic!("bad symbol {}", sym),
        };
        vec![Ev::Feed(k, refwire::encode(&msg))]
    }
    fn check(&self, w: &World, mon: &mut Mon, last: Option<&str>) -> Option<(&'static str, String)> {
        if let Some(d) = &w.dead {
            let class = if d.contains("Piece downloaded but not requested") { "manager-panic-piece-done-without-assignment" } else if d.contains("Piece cancelled but not requested") { "manager-panic-piece-cancel-without-assignment" } else { "manager-died" };
            return Some((class, d.clone()));
        }
        if let Some(p) = w.handler_panics.first() {
            return Some(("connection-task-panicked", p.clone()));
        }
        // monitor update from the event
        if let Some(sym) = last {
            let (head, rest) = sym.split_at(1);
            let (k, arg) = match rest.split_once(':') {
                Some((k, a)) => (k.parse::<usize>().unwrap(), Some(a.parse::<usize>().unwrap())),
                None => (rest.parse::<usize>().unwrap(), None),
            };
            match head {
                "B" => {
                    mon.p[k].spoke = true;
                    mon.p[k].bitfields += 1;
                    for i in 0..3.min(self.pieces) {
                        mon.p[k].advertised[i] = arg.unwrap() >> i & 1 == 1;
                    }
                }
                "H" => {
                    mon.p[k].spoke = true;
                    mon.p[k].advertised[arg.unwrap()] = true;
                }
                "P" => {
                    mon.p[k].outstanding.remove(0);
                }
                "Q" => {
                    mon.p[k].cancelled.remove(0);
                }
                "X" => mon.p[k].closed = true,
                "C" | "U" | "I" | "N" => mon.p[k].spoke = true,
                "Z" => mon.pauses += 1,
                _ => {}
            }
            if head == "R" {
                mon.queued.clear();
            } else if w.manager_paused && head != "Z" {
                mon.queued.push(sym.to_string());
            }
            if head == "Z" && w.queue_filled == 0 {
                return Some(("machinery", "the queue could not be filled".to_string()));
            }
        }
        let snap = w.snap();
        // (c) assignments: requests written in this step
        for k in 0..self.peers {
            let msgs = &w.peers[k].msgs;
            for m in &msgs[mon.p[k].scanned..] {
                match m {
                    Msg::Request(i, b, l) => {
                        let i_us = *i as usize;
                        if i_us >= self.pieces || !mon.p[k].advertised[i_us] {
                            return Some(("asked-for-piece-the-peer-did-not-advertise", format!("peer {} was asked for piece {} but advertised {:?}", k, i, mon.p[k].advertised)));
                        }
                        if snap.statuses[i_us] == Status::Have && mon.had[i_us] {
                            return Some(("asked-for-piece-already-owned", format!("peer {} was asked for piece {} which the client already owned", k, i)));
                        }
                        mon.p[k].outstanding.push((*i, *b, *l));
                    }
                    Msg::Cancel(i, b, l) => {
                        if mon.p[k].outstanding.contains(&(*i, *b, *l)) {
                            mon.p[k].cancelled.push((*i, *b, *l));
                        }
                        mon.p[k].outstanding.retain(|r| r != &(*i, *b, *l))
                    }
                    _ => {}
                }
            }
            mon.p[k].scanned = msgs.len();
        }
        // (a) owned stays owned
        for i in 0..self.pieces {
            let have = snap.statuses[i] == Status::Have;
            if mon.had[i] && !have {
                return Some(("owned-piece-forgotten", format!("piece {} was Have, now {:?}", i, snap.statuses[i])));
            }
            mon.had[i] = have;
        }
        // (a') what the manager counts as owned is stored and verified, and so is what it announces
        for i in 0..self.pieces {
            if snap.statuses[i] == Status::Have && !w.has_piece_file(i) {
                return Some(("piece-counted-as-done-without-stored-data", format!("piece {} is Have but no verified piece file exists", i)));
            }
        }
        for k in 0..self.peers {
            for m in w.new_msgs(k) {
                if let Msg::Have(i) = m {
                    if !w.has_piece_file(*i as usize) {
                        return Some(("have-for-unverified-piece", format!("Have({}) was written to peer {} but no verified file of that piece is stored", i, k)));
                    }
                }
            }
        }
        // (b) a reservation is backed by a connected, unchoking peer that was asked for the piece
        // (while the manager is busy its records lag behind by what is queued: judged when it is back)
        if w.manager_paused {
            return None;
        }
        if let Some(v) = reservation_backing(w) {
            return Some(v);
        }
        None
    }
    fn key(&self, w: &World, mon: &Mon) -> String {
        let pm: Vec<String> = mon.p.iter().map(|p| format!("{:?}/{}/{}/{:?}/{:?}/{}", p.advertised.iter().map(|b| *b as u8).collect::<Vec<_>>(), p.spoke, p.bitfields.min(2), p.outstanding, p.cancelled, p.closed)).collect();
        // byte counters do not influence anything without timer events
        let k = w.default_key();
        let k = strip_counters(&k);
        format!("{} mon={:?} busy={} q={:?} z={}", k, pm, w.manager_paused, mon.queued, mon.pauses)
    }
}

/// Every `Reserved` status must be backed by a connected peer that is not choking us, to which the
/// manager assigned that piece and whose connection task is fetching it.
pub fn reservation_backing(w: &World) -> Option<(&'static str, String)> {
    let snap = w.snap();
    // whether a peer chokes us is decided by its Choke/Unchoke frames; the connection task sees them
    // first and tells the manager: once the step is quiescent both must agree (a manager that
    // believes a choking peer to be unchoking asks it for pieces it will never send)
    if !w.manager_paused {
        for k in 0..w.peers.len() {
            let side = &w.peers[k];
            if side.ended.get() {
                continue;
            }
            if let (Some(mp), Some(h)) = (snap.peers.iter().find(|p| p.addr == side.cfg.addr), w.handler(k)) {
                if mp.choked != h.choked {
                    return Some(("manager-and-connection-task-disagree-on-choke", format!("peer {}: the connection task (which follows the peer's Choke/Unchoke frames) says choking us = {}, the manager says {}", k, h.choked, mp.choked)));
                }
            }
        }
    }
    for i in 0..snap.statuses.len() {
        if let Status::Reserved(n) = snap.statuses[i] {
            let mut backed = false;
            let mut why = vec![];
            for k in 0..w.peers.len() {
                let side = &w.peers[k];
                let mp = snap.peers.iter().find(|p| p.addr == side.cfg.addr);
                let h = w.handler(k);
                match (mp, h) {
                    (Some(mp), Some(h)) => {
                        let fetching = h.piece_rx.as_ref().map(|rx| rx.piece_index == i).unwrap_or(false);
                        if mp.piece_index == Some(i) && !mp.choked && !h.choked && fetching {
                            backed = true;
                        }
                        why.push(format!("peer {}: assigned {:?}, choking us {}, connection task fetching {:?}", k, mp.piece_index, mp.choked, h.piece_rx.as_ref().map(|rx| rx.piece_index)));
                    }
                    _ => why.push(format!("peer {}: gone", k)),
                }
            }
            if !backed {
                let class = if snap.peers.iter().any(|p| p.piece_index == Some(i) && p.choked) {
                    "reserved-for-a-peer-that-chokes-us"
                } else if snap.peers.iter().all(|p| p.piece_index != Some(i)) {
                    "reservation-leaked-nobody-assigned"
                } else {
                    "reserved-but-not-being-fetched"
                };
                return Some((class, format!("piece {} is Reserved({}) but no connected, unchoking peer is fetching it: {}", i, n, why.join("; "))));
            }
        }
    }
    None
}

/// Remove the rate-statistics counters (dl=[..] ul=[..] ub=..) from a state key: no timer event
/// exists in these scenarios, so they are never read.
pub fn strip_counters(k: &str) -> String {
    let mut out = String::new();
    let mut rest = k;
    while let Some(pos) = rest.find(" dl=[") {
        out.push_str(&rest[..pos]);
        let after = &rest[pos..];
        let end = after.find(" cb=").unwrap_or(after.len());
        rest = &after[end..];
    }
    out.push_str(rest);
    out
}

/// The Have path with a choice: A and B hold piece 0, two choking manager-only peers hold piece 1;
/// A is asked for 0 and chokes (or leaves), B idles and then announces piece 1: the rarer piece 0
/// is chosen for B, and record, reservation, request and completion must all speak of that piece.
/// Borrowed by C01, C10 and C11 (same invariants, reported under their ids).
pub fn have_path_scenario(thorough: bool) -> (Resv, usize) {
    (Resv { peers: 2, pieces: 13, gated: false, masks: vec![], with_close: true, with_interest: false, repeat_bitfield: false, busy: false, crowd: Some(2), preset: Some(vec![1, 1]), store_fails: false }, if thorough { 8 } else { 6 })
}

pub fn scenarios(thorough: bool) -> Vec<(Resv, usize)> {
    if thorough {
        vec![
            (Resv { peers: 2, pieces: 3, gated: false, masks: vec![7, 1, 3], with_close: true, with_interest: true, repeat_bitfield: false, busy: false, crowd: None, preset: None, store_fails: false }, 9),
            (Resv { peers: 2, pieces: 13, gated: false, masks: vec![7, 1], with_close: true, with_interest: false, repeat_bitfield: false, busy: false, crowd: None, preset: None, store_fails: false }, 9),
            (Resv { peers: 3, pieces: 3, gated: false, masks: vec![7], with_close: false, with_interest: false, repeat_bitfield: false, busy: false, crowd: None, preset: None, store_fails: false }, 8),
            (Resv { peers: 2, pieces: 3, gated: true, masks: vec![7, 3], with_close: false, with_interest: false, repeat_bitfield: false, busy: false, crowd: None, preset: None, store_fails: false }, 9),
            (Resv { peers: 2, pieces: 13, gated: false, masks: vec![1, 3, 6], with_close: false, with_interest: false, repeat_bitfield: true, busy: false, crowd: None, preset: None, store_fails: false }, 7),
            (Resv { peers: 2, pieces: 3, gated: false, masks: vec![1, 6], with_close: false, with_interest: true, repeat_bitfield: true, busy: false, crowd: None, preset: None, store_fails: false }, 8),
            (Resv { peers: 2, pieces: 1, gated: true, masks: vec![1], with_close: false, with_interest: true, repeat_bitfield: false, busy: false, crowd: None, preset: None, store_fails: false }, 11),
            (Resv { peers: 2, pieces: 3, gated: false, masks: vec![3], with_close: true, with_interest: false, repeat_bitfield: false, busy: true, crowd: None, preset: None, store_fails: false }, 8),
        ]
    } else {
        vec![
            (Resv { peers: 2, pieces: 3, gated: false, masks: vec![7, 1], with_close: true, with_interest: false, repeat_bitfield: false, busy: false, crowd: None, preset: None, store_fails: false }, 6),
            (Resv { peers: 2, pieces: 13, gated: false, masks: vec![7], with_close: false, with_interest: false, repeat_bitfield: false, busy: false, crowd: None, preset: None, store_fails: false }, 6),
            (Resv { peers: 2, pieces: 13, gated: false, masks: vec![1, 3], with_close: false, with_interest: false, repeat_bitfield: true, busy: false, crowd: None, preset: None, store_fails: false }, 5),
            (Resv { peers: 1, pieces: 3, gated: false, masks: vec![1, 6], with_close: false, with_interest: true, repeat_bitfield: true, busy: false, crowd: None, preset: None, store_fails: false }, 7),
            // held-back broadcasts: a peer can leave, choke or finish before its task saw SendHave
            (Resv { peers: 2, pieces: 3, gated: true, masks: vec![7], with_close: true, with_interest: false, repeat_bitfield: false, busy: false, crowd: None, preset: None, store_fails: false }, 6),
            // both peers offer the same single piece (end game: both are asked for it), interest of the
            // peers keeps them connected after the client lost interest; answers to cancelled requests
            (Resv { peers: 2, pieces: 1, gated: true, masks: vec![1], with_close: false, with_interest: true, repeat_bitfield: false, busy: false, crowd: None, preset: None, store_fails: false }, 8),
            // a storage fault at the moment a piece completes: the reservation must not outlive it
            (Resv { peers: 1, pieces: 13, gated: false, masks: vec![1, 3], with_close: false, with_interest: false, repeat_bitfield: false, busy: false, crowd: None, preset: None, store_fails: true }, 6),
            // a busy manager whose command queue is full when the peer's next message arrives
            (Resv { peers: 1, pieces: 3, gated: false, masks: vec![3], with_close: true, with_interest: false, repeat_bitfield: false, busy: true, crowd: None, preset: None, store_fails: false }, 6),
        ]
    }
}

pub fn run(ctx: &Ctx) -> Outcome {
    let thorough = ctx.tier == core::Tier::Thorough;
    let mut total = explore::Stats { exhaustive: true, ..Default::default() };
    let mut per = vec![];
    // the small scenarios and the real-socket exchanges run first: if the wall-clock cap of the tier is
    // ever reached (a loaded machine), it is the big searches at the end that are cut short
    {
        let (s, depth) = have_path_scenario(thorough);
        let st = explore::bfs(ctx, &s, depth, ctx.tier.pick(50, 25));
        per.push(json!({"scenario": s.name(), "depth": depth, "states": st.states, "transitions": st.transitions, "depth_completed": st.depth_completed}));
        total.merge(&st);
    }
    // reservations across tracker-driven reconnects (replies longer than the dial budget, the same
    // address listed twice, a host re-listed under a new id) exist only in the full-session world
    for (s, depth) in crate::c02::reservation_scenarios() {
        let st = explore::bfs(ctx, &s, depth, ctx.tier.pick(50, 25));
        per.push(json!({"scenario": explore::Sys::name(&s), "depth": depth, "states": st.states, "transitions": st.transitions, "depth_completed": st.depth_completed}));
        total.merge(&st);
    }
    // a holder that goes away over a REAL socket: a seeder dials in (accept path, loopback TCP),
    // is asked for its piece, and then ends its stream at a message boundary / in the middle of the
    // Piece message / in the middle of a length prefix: the manager must forget it and make the
    // piece assignable again
    {
        use crate::refwire::{self as rw, Msg as M};
        let dir = core::private_cwd("c12", "dialin");
        let t = crate::fixture::Torrent::new("t", 16384, &[("f", 16384 * 12)], true);
        let hs = rw::encode(&rw::handshake(t.meta.info_hash(), b"-HS0001-dialinholder"));
        let mut bits = vec![false; 12];
        bits[3] = true;
        let bf = rw::encode(&M::Bitfield(rw::bitfield_bytes(&bits)));
        let un = rw::encode(&M::Unchoke);
        let piece = rw::encode(&M::Piece(3, 0, t.pieces[3].clone()));
        for (what, tail) in [("at a message boundary", vec![]), ("in the middle of a Piece message", piece[..1000].to_vec()), ("inside a length prefix", piece[..2].to_vec())] {
            let mut chunks = vec![hs.clone(), bf.clone(), un.clone()];
            if !tail.is_empty() {
                chunks.push(tail);
            }
            match crate::c02::dial_in_exchange_fin(&t, &dir, chunks, true) {
                Err(e) => ctx.machinery_error(format!("dial-in holder '{}' could not run: {}", what, e)),
                Ok((_, after, _closed, snap)) => {
                    let asked = rw::decode_stream(&after).0.iter().any(|m| matches!(m, M::Request(3, _, _)));
                    per.push(json!({"scenario": format!("dial-in holder leaves {}", what), "was_asked_for_its_piece": asked}));
                    if !asked {
                        ctx.machinery_error(format!("dial-in holder '{}': the client never asked for the piece", what));
                    }
                    if let Some(s) = snap {
                        if !s.peers.is_empty() || s.statuses.iter().any(|x| *x != Status::Missing) {
                            ctx.violation("reservation-survives-holder-over-real-socket", format!("a peer that dialled in, was asked for piece 3 and ended its stream {} is still listed / its piece still reserved 4 s later: peers {:?}, statuses {:?}", what, s.peers.iter().map(|p| p.addr.clone()).collect::<Vec<_>>(), s.statuses), json!({"scenario": "dial-in-holder", "case": what, "history": []}));
                        }
                    }
                }
            }
        }
    }
    // the special-purpose scenarios (storage fault, full queue) are small: they go before the big generic searches
    let mut table = scenarios(thorough);
    if !thorough {
        table.sort_by_key(|(s, _)| !(s.store_fails || s.busy));
    }
    for (s, depth) in table {
        let st = explore::bfs(ctx, &s, depth, ctx.tier.pick(50, 25));
        per.push(json!({"scenario": s.name(), "depth": depth, "states": st.states, "transitions": st.transitions, "depth_completed": st.depth_completed, "choice_points": st.choice_points, "frontier": st.frontier_sizes}));
        total.merge(&st);
    }
    let mut o = Outcome::new("model_checking");
    explore::stats_outcome(&total, &mut o);
    o.set("scenarios", Value::Array(per));
    o.set("rule", json!("events per peer k: B<k>:<mask> bitfield over the first three pieces (first message; in the -rebf scenarios also repeated/late, at most twice), H<k>:<i> have, C<k> choke, U<k> unchoke (repeatable), I<k>/N<k> interest, P<k> correct answer to the oldest outstanding request (also while choking), Q<k> answer to a request the client has cancelled (it crossed the Cancel on the wire; gated scenarios), X<k> disconnect, L<k> release of a held-back broadcast (gated scenarios); in the -fullqueue scenario Z (the manager becomes busy and 64 statistics reports of the rest of the swarm fill its command queue to the last slot, so a task's next command finds no room) and R (the manager comes back and works the queue off; judged from then on); single-block pieces; torrents of 3 pieces (end game) and 13 pieces of which only 3 are ever advertised (no end game); every Fisher-Yates tie-break of the chooser is a choice point; states = canonical snapshots of manager + all connection tasks + piece files + monitor (rate counters dropped: no timer event). Plus a scenario in which every store of connection 0 fails (-store-of-conn0-fails: a directory sits where it writes a piece aside): a completed piece that cannot be stored must not stay reserved. Plus the Have-path scenario (-crowd2-preset[1, 1]: two real peers hold piece 0, two choking manager-only peers hold piece 1, bitfields sent during setup, 13 pieces): a piece freed by a choking / leaving holder competes with a more common piece that the idle holder announces; record, reservation, request and completion must speak of the chosen piece, what is counted as owned or announced must be stored. Plus three full-session scenarios borrowed from C02 (reservation-*): a 12-entry tracker reply naming one address twice, a host re-listed under a new peer id, a seeder plus a peer that leaves and is offered again; there only the manager's reservation records are judged (a Reserved piece has a connected, unchoking holder; no task panics)."));
    o.assume("invariants are evaluated in quiescent states (every queued command handled); reduction argument in DESIGN.md 0.2");
    o
}

pub fn replay(_ctx: &Ctx, r: &Value) -> i32 {
    let name = r["scenario"].as_str().unwrap();
    if name == "dial-in-holder" {
        println!("a real-socket exchange ({}); `./check C12` repeats it", r["case"]);
        return 1;
    }
    for (s, _) in crate::c02::reservation_scenarios() {
        if explore::Sys::name(&s) == name {
            return explore::replay_verbose(&s, &explore::hist_from_json(&r["history"]), "C12");
        }
    }
    for thorough in [false, true] {
        for (s, _) in scenarios(thorough).into_iter().chain(std::iter::once(have_path_scenario(thorough))) {
            if s.name() == name {
                return explore::replay_verbose(&s, &explore::hist_from_json(&r["history"]), "C12");
            }
        }
    }
    eprintln!("unknown scenario {}", name);
    2
}
