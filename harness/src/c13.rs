//! C13 — piece choice is rarest-first among what the peer can give.
//! E-MGR: states of the real manager are built directly (statuses, peers, advertised sets), the
//! real `choose_piece_index` is called with every tie-break (every Fisher-Yates digit vector of the
//! real shuffle) and compared with the statement's definition.

use crate::core::{self, Ctx, Outcome};
use crate::fixture::Torrent;
use crate::httpfake;
use crate::world::OWN_ID;
use rdest::verif::Status;
use rdest::Session;
use serde_json::{json, Value};

const END_GAME: usize = 10;

#[derive(Clone, Debug)]
pub struct State {
    pub statuses: Vec<u8>, // 0 Missing, 1 Reserved(1), 2 Reserved(2), 3 Have
    /// Advertised sets; peer 0 is the one that is asked.
    pub peers: Vec<Vec<bool>>,
    pub digits: Vec<usize>,
}

fn status(code: u8) -> Status {
    match code {
        0 => Status::Missing,
        1 => Status::Reserved(1),
        2 => Status::Reserved(2),
        _ => Status::Have,
    }
}

/// The set of acceptable picks according to the statement.
pub fn acceptable(st: &State) -> Vec<usize> {
    let n = st.statuses.len();
    let remaining = st.statuses.iter().filter(|s| **s != 3).count();
    let count = |i: usize| st.peers.iter().filter(|p| p[i]).count();
    let cand: Vec<usize> = (0..n)
        .filter(|&i| st.peers[0][i] && st.statuses[i] != 3 && (st.statuses[i] == 0 || remaining < END_GAME))
        .collect();
    let min = cand.iter().map(|&i| count(i)).min();
    cand.into_iter().filter(|&i| Some(count(i)) == min).collect()
}

pub struct Mgr {
    rt: tokio::runtime::Runtime,
    session: Session,
    n: usize,
    peers: usize,
}

impl Mgr {
    pub fn new(n: usize, peers: usize) -> Mgr {
        let rt = httpfake::runtime();
        let t = Torrent::new("t", 1, &[("f", n)], true);
        let mut session = Session::new(t.meta.clone(), *OWN_ID);
        for k in 0..peers {
            let job = rt.spawn(async {});
            session.verif_register_peer(format!("10.0.0.{}:1", k + 1), Some([k as u8; 20]), job);
        }
        Mgr { rt, session, n, peers }
    }

    pub fn pick(&mut self, st: &State) -> Result<(Option<usize>, Vec<(usize, usize)>), String> {
        assert!(st.statuses.len() == self.n && st.peers.len() == self.peers);
        for (i, s) in st.statuses.iter().enumerate() {
            self.session.verif_set_status(i, status(*s));
        }
        for (k, bits) in st.peers.iter().enumerate() {
            self.session.verif_peer_mut(&format!("10.0.0.{}:1", k + 1)).unwrap().update_pieces(bits);
        }
        rdest::verif::set_choices(st.digits.clone());
        let addr = "10.0.0.1:1".to_string();
        let Mgr { rt, session, .. } = self;
        let r = core::catch(|| rt.block_on(session.verif_choose_piece_index(&addr)));
        let log = rdest::verif::take_choice_log();
        r.map(|p| (p, log))
    }
}

fn judge(st: &State, pick: Option<usize>) -> Option<(&'static str, String)> {
    let ok = acceptable(st);
    match pick {
        None if ok.is_empty() => None,
        None => Some(("picks-nothing-although-a-piece-qualifies", format!("{:?}: nothing picked, acceptable {:?}", st, ok))),
        Some(p) if ok.contains(&p) => None,
        Some(p) => {
            let class = if !st.peers[0][p] {
                "picks-piece-the-peer-does-not-have"
            } else if st.statuses[p] == 3 {
                "picks-owned-piece"
            } else if st.statuses[p] != 0 && st.statuses.iter().filter(|s| **s != 3).count() >= END_GAME {
                "picks-reserved-piece-outside-end-game"
            } else {
                "not-rarest"
            };
            Some((class, format!("{:?}: picked {}, acceptable {:?}", st, p, ok)))
        }
    }
}

fn digit_vectors(m: usize) -> Vec<Vec<usize>> {
    // Fisher-Yates over m elements: draws for i = m-1 down to 1 with arity i+1
    let mut out = vec![vec![]];
    for i in (1..m).rev() {
        let mut next = vec![];
        for v in &out {
            for d in 0..=i {
                let mut w = v.clone();
                w.push(d);
                next.push(w);
            }
        }
        out = next;
    }
    out
}

fn exhaustive(ctx: &Ctx, n: usize, npeers: usize) -> (u64, u64, Vec<Value>) {
    let status_vectors = 4u64.pow(n as u32);
    let parts = core::par_ranges(
        status_vectors,
        core::workers() * 2,
        |_| {
            core::set_quiet_panics(true);
            Mgr::new(n, npeers)
        },
        |mgr, a, b| {
            let mut evals = 0u64;
            let mut nontrivial = 0u64;
            let mut samples = vec![];
            for sv in a..b {
                let statuses: Vec<u8> = (0..n).map(|i| ((sv >> (2 * i)) & 3) as u8).collect();
                let remaining = statuses.iter().filter(|s| **s != 3).count();
                let desired = if remaining < END_GAME { remaining } else { statuses.iter().filter(|s| **s == 0).count() };
                let dvs = digit_vectors(desired);
                let combos = 1u64 << (n * npeers);
                for c in 0..combos {
                    let peers: Vec<Vec<bool>> = (0..npeers).map(|k| (0..n).map(|i| c >> (k * n + i) & 1 == 1).collect()).collect();
                    for d in &dvs {
                        let st = State { statuses: statuses.clone(), peers: peers.clone(), digits: d.clone() };
                        evals += 1;
                        match mgr.pick(&st) {
                            Err(p) => ctx.violation("chooser-panic", format!("{:?}: {}", st, p), json!({"statuses": st.statuses, "peers": st.peers, "digits": st.digits})),
                            Ok((pick, log)) => {
                                let arities: Vec<usize> = log.iter().map(|l| l.0).collect();
                                let expect: Vec<usize> = (1..desired).rev().map(|i| i + 1).collect();
                                if arities != expect {
                                    ctx.machinery_error(format!("choice points {:?} differ from the expected shuffle arities {:?} for {:?}", arities, expect, st));
                                }
                                if acceptable(&st).len() > 1 {
                                    nontrivial += 1;
                                }
                                if let Some((class, why)) = judge(&st, pick) {
                                    ctx.violation(class, why, json!({"statuses": st.statuses, "peers": st.peers, "digits": st.digits}));
                                }
                                if samples.len() < 1 && evals % 9973 == 1 {
                                    samples.push(json!({"statuses": st.statuses, "peers": st.peers, "digits": st.digits, "picked": pick, "acceptable": acceptable(&st)}));
                                }
                            }
                        }
                    }
                }
            }
            (evals, nontrivial, samples)
        },
    );
    let mut samples = vec![];
    for p in &parts {
        samples.extend(p.2.iter().cloned());
    }
    (parts.iter().map(|p| p.0).sum(), parts.iter().map(|p| p.1).sum(), samples)
}

/// Both sides of the end-game threshold: n in 9..=12, every split into have / reserved / missing,
/// structured advertised sets, every candidate brought to the front of the shuffle once.
fn threshold_family(ctx: &Ctx, thorough: bool) -> (u64, u64, Vec<Value>) {
    let mut states = vec![];
    for n in 9..=12usize {
        for have in 0..=n {
            for reserved in 0..=(n - have) {
                let missing = n - have - reserved;
                // layout: [have | reserved | missing], and the same rotated by 1 so indices differ
                for rot in [0usize, 1] {
                    let mut statuses: Vec<u8> = vec![];
                    statuses.extend(std::iter::repeat(3).take(have));
                    statuses.extend((0..reserved).map(|k| 1 + (k % 2) as u8));
                    statuses.extend(std::iter::repeat(0).take(missing));
                    statuses.rotate_left(rot.min(n));
                    states.push(statuses);
                }
            }
        }
    }
    let shapes = |statuses: &Vec<u8>| -> Vec<Vec<bool>> {
        let n = statuses.len();
        let mut v = vec![
            vec![true; n],
            vec![false; n],
            statuses.iter().map(|s| *s == 0).collect(),
            statuses.iter().map(|s| *s == 1 || *s == 2).collect(),
        ];
        for one in [0, n / 2, n - 1] {
            v.push((0..n).map(|i| i == one).collect());
        }
        v.push((0..n).map(|i| i % 2 == 0).collect());
        v
    };
    let res = core::par_map(
        &states,
        |_| {
            core::set_quiet_panics(true);
            (9..=12usize).map(|n| Mgr::new(n, 3)).collect::<Vec<_>>()
        },
        |mgrs, _, statuses| {
            let n = statuses.len();
            let mgr = &mut mgrs[n - 9];
            let mut evals = 0u64;
            let mut nontrivial = 0u64;
            let remaining = statuses.iter().filter(|s| **s != 3).count();
            let desired = if remaining < END_GAME { remaining } else { statuses.iter().filter(|s| **s == 0).count() };
            let sh = shapes(statuses);
            let others: Vec<usize> = if thorough { (0..sh.len()).collect() } else { vec![0, 1, 2, 4] };
            for a in 0..sh.len() {
                for &b in &others {
                    for &c in &others {
                        for front in 0..desired.max(1) {
                            let mut digits = vec![0; desired.saturating_sub(1)];
                            if front > 0 {
                                digits[desired - 1 - front] = front;
                            }
                            let st = State { statuses: statuses.clone(), peers: vec![sh[a].clone(), sh[b].clone(), sh[c].clone()], digits };
                            evals += 1;
                            match mgr.pick(&st) {
                                Err(p) => ctx.violation("chooser-panic", format!("{:?}: {}", st, p), json!({"statuses": st.statuses, "peers": st.peers, "digits": st.digits})),
                                Ok((pick, _)) => {
                                    if acceptable(&st).len() > 1 {
                                        nontrivial += 1;
                                    }
                                    if let Some((class, why)) = judge(&st, pick) {
                                        ctx.violation(class, why, json!({"statuses": st.statuses, "peers": st.peers, "digits": st.digits}));
                                    }
                                }
                            }
                        }
                    }
                }
            }
            (evals, nontrivial)
        },
    );
    (res.iter().map(|r| r.0).sum(), res.iter().map(|r| r.1).sum(), vec![json!({"statuses": states[states.len() / 2], "note": "threshold family member (3 peers with structured advertised sets, every candidate in front once)"})])
}

// -------------------------------------------------------------------------------------------
// Picks along command histories: what a peer advertised is what the manager recorded from its
// real Bitfield / Have commands, interleaved with choke / unchoke of all peers
// -------------------------------------------------------------------------------------------

use crate::explore::{self, Scenario};
use crate::world::{Ev, World, WorldCfg};

pub struct Picks {
    pub n: usize,
    pub pieces: usize,
    pub masks: Vec<u8>,
    /// Bitfields each peer may send (overrides `masks`) and whether Have commands are in the
    /// alphabet: the departure scenario gives three peers fixed, overlapping sets.
    pub per_peer: Option<Vec<Vec<u8>>>,
    pub haves: bool,
    /// Have commands name pieces below this index.
    pub have_max: usize,
    /// Every peer's (first listed) bitfield is sent during setup; no Bitfield events in the search.
    pub preset: bool,
}

#[derive(Default)]
pub struct PicksMon {
    /// What each peer really advertised (bitfield replaces, have adds).
    pub advertised: Vec<Vec<bool>>,
    pub bitfields: Vec<usize>,
    pub prev_statuses: Vec<u8>,
    pub prev_assigned: Vec<Option<usize>>,
    pub prev_choked: Vec<bool>,
    pub gone: Vec<bool>,
}

fn code(s: &Status) -> u8 {
    match s {
        Status::Missing => 0,
        Status::Reserved(1) => 1,
        Status::Reserved(_) => 2,
        Status::Have => 3,
    }
}

impl Scenario for Picks {
    type Mon = PicksMon;
    fn name(&self) -> String {
        match &self.per_peer {
            Some(pp) => format!("picks-departures-n{}-p{}-m{:?}{}", self.n, self.pieces, pp, if self.haves { format!("-have<{}", self.have_max) } else { String::new() }) + if self.preset { "-preset" } else { "" },
            None => format!("picks-n{}-p{}-m{:?}", self.n, self.pieces, self.masks),
        }
    }
    fn cfg(&self) -> WorldCfg {
        WorldCfg { torrent: Torrent::new("t", 1, &[("f", self.pieces)], true), have: vec![], peers: vec![], gated: false, stale: vec![] }
    }
    fn explore_choices(&self) -> bool {
        true
    }
    fn setup(&self, w: &mut World, mon: &mut PicksMon) {
        for _ in 0..self.n {
            w.add_mgr_peer();
        }
        mon.advertised = vec![vec![false; self.pieces]; self.n];
        mon.bitfields = vec![0; self.n];
        mon.gone = vec![false; self.n];
        if self.preset {
            for k in 0..self.n {
                let m = self.per_peer.as_ref().unwrap()[k][0];
                w.step(&Ev::MgrBitfield(k, (0..self.pieces).map(|i| i < 3 && m >> i & 1 == 1).collect()), &[]);
                mon.bitfields[k] = 2;
                for i in 0..self.pieces {
                    mon.advertised[k][i] = i < 3 && m >> i & 1 == 1;
                }
            }
        }
        self.remember(w, mon);
    }
    fn enabled(&self, _w: &World, mon: &PicksMon, _depth: usize) -> Vec<String> {
        let mut e = vec![];
        for k in 0..self.n {
            if mon.gone[k] {
                continue;
            }
            if mon.bitfields[k] < 2 {
                for m in self.per_peer.as_ref().map(|pp| &pp[k]).unwrap_or(&self.masks) {
                    e.push(format!("B{}:{}", k, m));
                }
            }
            for i in 0..self.have_max.min(self.pieces) {
                if self.haves && !mon.advertised[k][i] {
                    e.push(format!("H{}:{}", k, i));
                }
            }
            if mon.gone[k] {
                continue;
            }
            e.push(format!("U{}", k));
            if !mon.prev_choked[k] {
                e.push(format!("C{}", k));
            }
            if mon.gone.iter().filter(|g| !**g).count() > 1 {
                e.push(format!("K{}", k));
            }
        }
        e
    }
    fn concretize(&self, _w: &World, _mon: &PicksMon, sym: &str) -> Vec<Ev> {
        let (head, rest) = sym.split_at(1);
        let (k, arg) = match rest.split_once(':') {
            Some((k, a)) => (k.parse::<usize>().unwrap(), Some(a.parse::<usize>().unwrap())),
            None => (rest.parse::<usize>().unwrap(), None),
        };
        vec![match head {
            "B" => Ev::MgrBitfield(k, (0..self.pieces).map(|i| i < 3 && arg.unwrap() >> i & 1 == 1).collect()),
            "H" => Ev::MgrHave(k, arg.unwrap()),
            "U" => Ev::MgrUnchoke(k),
            "C" => Ev::MgrChoke(k),
            "K" => Ev::MgrKill(k),
            _ => panic!("bad symbol"),
        }]
    }
    fn check(&self, w: &World, mon: &mut PicksMon, last: Option<&str>) -> Option<(&'static str, String)> {
        if let Some(d) = &w.dead {
            return Some(("manager-died", d.clone()));
        }
        let mut verdict = None;
        if let Some(sym) = last {
            let (head, rest) = sym.split_at(1);
            let (k, arg) = match rest.split_once(':') {
                Some((k, a)) => (k.parse::<usize>().unwrap(), Some(a.parse::<usize>().unwrap())),
                None => (rest.parse::<usize>().unwrap(), None),
            };
            match head {
                "B" => {
                    mon.bitfields[k] += 1;
                    for i in 0..self.pieces {
                        mon.advertised[k][i] = i < 3 && arg.unwrap() >> i & 1 == 1;
                    }
                }
                "H" => {
                    mon.advertised[k][arg.unwrap()] = true;
                    // a Have can make the manager hand a piece to an idle, unchoking peer: a pick
                    let reply = w.mgr_reply.clone().unwrap_or_default();
                    if reply.contains("Request") {
                        let pick: Option<usize> = reply.split("piece_index: ").nth(1).and_then(|r| r.split(',').next()).and_then(|v| v.trim().parse().ok());
                        let mut peers = vec![mon.advertised[k].clone()];
                        peers.extend((0..self.n).filter(|j| *j != k && !mon.gone[*j]).map(|j| mon.advertised[j].clone()));
                        let statuses: Vec<u8> = (0..self.pieces)
                            .map(|i| {
                                if mon.prev_statuses[i] == 3 {
                                    3
                                } else if (0..self.n).any(|j| j != k && !mon.gone[j] && mon.prev_assigned[j] == Some(i) && !mon.prev_choked[j]) {
                                    1
                                } else {
                                    0
                                }
                            })
                            .collect();
                        let st = State { statuses, peers, digits: vec![] };
                        if let Some((class, why)) = judge(&st, pick) {
                            verdict = Some((class, format!("peer {} announced piece {} by Have (idle, not choking us); it advertises {:?}; manager answered {}; {}", k, arg.unwrap(), mon.advertised[k], reply, why)));
                        }
                    }
                }
                "K" => {
                    mon.gone[k] = true;
                    mon.advertised[k] = vec![false; self.pieces];
                }
                "U" => {
                    // a pick happens when the peer had no live assignment
                    let had_live_assignment = mon.prev_assigned[k].is_some() && !mon.prev_choked[k];
                    if !had_live_assignment {
                        let mut peers = vec![mon.advertised[k].clone()];
                        peers.extend((0..self.n).filter(|j| *j != k && !mon.gone[*j]).map(|j| mon.advertised[j].clone()));
                        // "being fetched from another peer" is a fact about the other connections
                        // (a connected peer that does not choke us holds the assignment), not about
                        // the manager's reservation counter, which is what is under test
                        let statuses: Vec<u8> = (0..self.pieces)
                            .map(|i| {
                                if mon.prev_statuses[i] == 3 {
                                    3
                                } else if (0..self.n).any(|j| j != k && !mon.gone[j] && mon.prev_assigned[j] == Some(i) && !mon.prev_choked[j]) {
                                    1
                                } else {
                                    0
                                }
                            })
                            .collect();
                        let st = State { statuses, peers, digits: vec![] };
                        let reply = w.mgr_reply.clone().unwrap_or_default();
                        let pick: Option<usize> = reply.split("piece_index: ").nth(1).and_then(|r| r.split(',').next()).and_then(|v| v.trim().parse().ok());
                        if let Some((class, why)) = judge(&st, pick) {
                            verdict = Some((class, format!("peer {} unchoked; it advertised {:?}; manager answered {}; {}", k, mon.advertised[k], reply, why)));
                        }
                    }
                }
                _ => {}
            }
        }
        self.remember(w, mon);
        verdict
    }
    fn key(&self, w: &World, mon: &PicksMon) -> String {
        format!("{} adv={:?} bf={:?} gone={:?}", w.session_key(), mon.advertised, mon.bitfields, mon.gone)
    }
}

impl Picks {
    fn remember(&self, w: &World, mon: &mut PicksMon) {
        let snap = w.snap();
        mon.prev_statuses = snap.statuses.iter().map(code).collect();
        mon.prev_assigned = (0..self.n).map(|k| snap.peers.iter().find(|p| p.addr == w.mgr_peers[k]).and_then(|p| p.piece_index)).collect();
        mon.prev_choked = (0..self.n).map(|k| snap.peers.iter().find(|p| p.addr == w.mgr_peers[k]).map(|p| p.choked).unwrap_or(true)).collect();
    }
}

pub fn picks_scenarios(thorough: bool) -> Vec<(Picks, usize)> {
    if thorough {
        vec![(Picks { n: 2, pieces: 3, masks: vec![1, 3, 7], per_peer: None, haves: true, have_max: 3, preset: false }, 8), (Picks { n: 3, pieces: 3, masks: vec![1, 6], per_peer: None, haves: true, have_max: 3, preset: false }, 6), (Picks { n: 2, pieces: 12, masks: vec![1, 3, 7], per_peer: None, haves: true, have_max: 3, preset: false }, 8), (Picks { n: 3, pieces: 3, masks: vec![], per_peer: Some(vec![vec![6, 7], vec![2, 3], vec![4, 5]]), haves: false, have_max: 3, preset: false }, 8), (Picks { n: 3, pieces: 12, masks: vec![], per_peer: Some(vec![vec![1, 3], vec![1], vec![2]]), haves: true, have_max: 2, preset: false }, 9), (Picks { n: 3, pieces: 12, masks: vec![], per_peer: Some(vec![vec![1], vec![1], vec![1]]), haves: false, have_max: 0, preset: true }, 10)]
    } else {
        vec![(Picks { n: 2, pieces: 3, masks: vec![1, 6], per_peer: None, haves: true, have_max: 3, preset: false }, 6), (Picks { n: 2, pieces: 12, masks: vec![1, 3], per_peer: None, haves: true, have_max: 3, preset: false }, 6), (Picks { n: 3, pieces: 3, masks: vec![], per_peer: Some(vec![vec![6], vec![2], vec![4]]), haves: false, have_max: 3, preset: false }, 6), (Picks { n: 3, pieces: 12, masks: vec![], per_peer: Some(vec![vec![1], vec![1], vec![2]]), haves: true, have_max: 2, preset: false }, 7), (Picks { n: 3, pieces: 12, masks: vec![], per_peer: Some(vec![vec![1], vec![1], vec![1]]), haves: false, have_max: 0, preset: true }, 7)]
    }
}

pub fn run(ctx: &Ctx) -> Outcome {
    let thorough = ctx.tier == core::Tier::Thorough;
    let mut evals = 0u64;
    let mut nontrivial = 0u64;
    let mut samples = vec![];
    let mut parts = vec![];
    let plan: Vec<(usize, usize)> = if thorough { vec![(1, 3), (2, 3), (3, 3), (4, 3), (5, 2)] } else { vec![(1, 3), (2, 3), (3, 3), (4, 3)] };
    for (n, npeers) in plan {
        let (e, t, s) = exhaustive(ctx, n, npeers);
        parts.push(json!({"pieces": n, "peers": npeers, "evaluations": e, "with_a_real_tie": t}));
        evals += e;
        nontrivial += t;
        samples.extend(s.into_iter().take(2));
    }
    let (e, t, s) = threshold_family(ctx, thorough);
    parts.push(json!({"family": "end-game threshold n=9..12", "evaluations": e, "with_a_real_tie": t}));
    evals += e;
    nontrivial += t;
    samples.extend(s);

    // picks along command histories
    let mut bfs_total = explore::Stats { exhaustive: true, ..Default::default() };
    for (sc, depth) in picks_scenarios(thorough) {
        let st = explore::bfs(ctx, &sc, depth, ctx.tier.pick(40, 20));
        parts.push(json!({"scenario": Scenario::name(&sc), "depth": depth, "states": st.states, "transitions": st.transitions, "depth_completed": st.depth_completed}));
        bfs_total.merge(&st);
    }
    let mut o = Outcome::new("model_checking");
    o.set("states", json!(evals + bfs_total.states));
    o.set("transitions", json!(evals + bfs_total.transitions));
    o.set("traces_validated_against_impl", json!(evals + bfs_total.executions));
    o.set("bfs_exhaustive", json!(bfs_total.exhaustive));
    o.set("evaluations", json!(evals));
    o.set("distinct_nontrivial", json!(nontrivial));
    o.set("parts", Value::Array(parts));
    o.set("rule", json!("exhaustive part: n pieces, every status vector over {Missing, Reserved(1), Reserved(2), Have}, the asked peer plus the other peers with every advertised set, and every digit vector of the real Fisher-Yates shuffle (= every tie-break permutation); threshold part: n in 9..=12, every (have, reserved, missing) split in two layouts, 3 peers with advertised sets from {all, none, only missing, only reserved, single piece x3, every second}, every candidate brought to the front of the shuffle once. Each (state, tie-break) is one call of the real choose_piece_index; states = transitions = evaluations; non-trivial = more than one acceptable pick. History part (picks-*): BFS over the commands B<k>:<mask> (bitfield, at most twice), H<k>:<i> (have), U<k> (unchoke, answered on a live reply channel), C<k> (choke), K<k> (disconnect) of 2..3 manager-only peers on a 3-piece and a 12-piece torrent: whenever an unchoke — or a Have announced by an idle peer that is not choking us — makes the manager pick, the pick must be acceptable with respect to what the peers really advertised (the harness's own record of their bitfields and haves) and to which pieces are owned / held by another connected, unchoking peer before the command (read from the peers' assignments, not from the reservation counters). picks-departures-*: three peers with fixed overlapping sets ({1,2}, {1}, {2}) and no Have commands, so that a disconnect changes which piece is the rarest between two picks; and a 12-piece variant (outside end game) with Have commands, in which a piece is freed (its holder leaves or chokes) while another holder idles and then announces a more common piece; and a -preset variant (all three peers advertise piece 0 only, bitfields sent during setup, 12 pieces) for long choke / unchoke / disconnect histories: a peer that chokes us, whose piece is taken over by another peer and who then leaves or chokes again."));
    o.set("samples", Value::Array(samples));
    o.set("exhaustive", json!(true));
    o.assume("the asked peer holds no assignment of its own (reservations belong to other peers); the pick is observed at choose_piece_index, which every command handler (unchoke, bitfield, piece done/cancel, not-interested) calls");
    o
}

pub fn replay(_ctx: &Ctx, r: &Value) -> i32 {
    if let Some(name) = r["scenario"].as_str() {
        for thorough in [false, true] {
            for (sc, _) in picks_scenarios(thorough) {
                if Scenario::name(&sc) == name {
                    return explore::replay_verbose(&sc, &explore::hist_from_json(&r["history"]), "C13");
                }
            }
        }
        return 2;
    }
    let st = State {
        statuses: r["statuses"].as_array().unwrap().iter().map(|x| x.as_u64().unwrap() as u8).collect(),
        peers: r["peers"].as_array().unwrap().iter().map(|p| p.as_array().unwrap().iter().map(|b| b.as_bool().unwrap()).collect()).collect(),
        digits: r["digits"].as_array().unwrap().iter().map(|x| x.as_u64().unwrap() as usize).collect(),
    };
    core::set_quiet_panics(true);
    let mut mgr = Mgr::new(st.statuses.len(), st.peers.len());
    let res = mgr.pick(&st);
    println!("{:?}\nacceptable picks (statement): {:?}\nchoose_piece_index: {:?}", st, acceptable(&st), res);
    match res {
        Ok((pick, _)) => match judge(&st, pick) {
            Some((class, why)) => {
                println!("VIOLATION property=C13 replay=<this file>\n  class={} {}", class, why);
                1
            }
            None => {
                println!("holds for this state");
                0
            }
        },
        Err(_) => 1,
    }
}
