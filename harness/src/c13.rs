//! C13 — piece choice is rarest-first among what the peer can give.
//! E-MGR: states of the real manager are built directly (statuses, peers, advertised sets), the
//! real `choose_piece_index` is called with every tie-break (every Fisher-Yates digit vector of the
//! real shuffle) and compared with the statement's definition.

use crate::core::{self, Ctx, Outcome};
use crate::fixture::Torrent;
use crate::httpfake;
use crate::world::OWN_ID;
use rdest::verif::Status;
use rdest::Session;
use serde_json::{json, Value};

const END_GAME: usize = 10;

#[derive(Clone, Debug)]
pub struct State {
    pub statuses: Vec<u8>, // 0 Missing, 1 Reserved(1), 2 Reserved(2), 3 Have
    /// Advertised sets; peer 0 is the one that is asked.
    pub peers: Vec<Vec<bool>>,
    pub digits: Vec<usize>,
}

fn status(code: u8) -> Status {
    match code {
        0 => Status::Missing,
        1 => Status::Reserved(1),
        2 => Status::Reserved(2),
        _ => Status::Have,
    }
}

/// The set of acceptable picks according to the statement.
pub fn acceptable(st: &State) -> Vec<usize> {
    let n = st.statuses.len();
    let remaining = st.statuses.iter().filter(|s| **s != 3).count();
    let count = |i: usize| st.peers.iter().filter(|p| p[i]).count();
    let cand: Vec<usize> = (0..n)
        .filter(|&i| st.peers[0][i] && st.statuses[i] != 3 && (st.statuses[i] == 0 || remaining < END_GAME))
        .collect();
    let min = cand.iter().map(|&i| count(i)).min();
    cand.into_iter().filter(|&i| Some(count(i)) == min).collect()
}

pub struct Mgr {
    rt: tokio::runtime::Runtime,
    session: Session,
    n: usize,
    peers: usize,
}

impl Mgr {
    pub fn new(n: usize, peers: usize) -> Mgr {
        let rt = httpfake::runtime();
        let t = Torrent::new("t", 1, &[("f", n)], true);
        let mut session = Session::new(t.meta.clone(), *OWN_ID);
        for k in 0..peers {
            let job = rt.spawn(async {});
            session.verif_register_peer(format!("10.0.0.{}:1", k + 1), Some([k as u8; 20]), job);
        }
        Mgr { rt, session, n, peers }
    }

    pub fn pick(&mut self, st: &State) -> Result<(Option<usize>, Vec<(usize, usize)>), String> {
        assert!(st.statuses.len() == self.n && st.peers.len() == self.peers);
        for (i, s) in st.statuses.iter().enumerate() {
            self.session.verif_set_status(i, status(*s));
        }
        for (k, bits) in st.peers.iter().enumerate() {
            self.session.verif_peer_mut(&format!("10.0.0.{}:1", k + 1)).unwrap().update_pieces(bits);
        }
        rdest::verif::set_choices(st.digits.clone());
        let addr = "10.0.0.1:1".to_string();
        let Mgr { rt, session, .. } = self;
        let r = core::catch(|| rt.block_on(session.verif_choose_piece_index(&addr)));
        let log = rdest::verif::take_choice_log();
        r.map(|p| (p, log))
    }
}

fn judge(st: &State, pick: Option<usize>) -> Option<(&'static str, String)> {
    let ok = acceptable(st);
    match pick {
        None if ok.is_empty() => None,
        None => Some(("picks-nothing-although-a-piece-qualifies", format!("{:?}: nothing picked, acceptable {:?}", st, ok))),
        Some(p) if ok.contains(&p) => None,
        Some(p) => {
            let class = if !st.peers[0][p] {
                "picks-piece-the-peer-does-not-have"
            } else if st.statuses[p] == 3 {
                "picks-owned-piece"
            } else if st.statuses[p] != 0 && st.statuses.iter().filter(|s| **s != 3).count() >= END_GAME {
                "picks-reserved-piece-outside-end-game"
            } else {
                "not-rarest"
            };
            Some((class, format!("{:?}: picked {}, acceptable {:?}", st, p, ok)))
        }
    }
}

fn digit_vectors(m: usize) -> Vec<Vec<usize>> {
    // Fisher-Yates over m elements: draws for i = m-1 down to 1 with arity i+1
    let mut out = vec![vec![]];
    for i in (1..m).rev() {
        let mut next = vec![];
        for v in &out {
            for d in 0..=i {
                let mut w = v.clone();
                w.push(d);
                next.push(w);
            }
        }
        out = next;
    }
    out
}

fn exhaustive(ctx: &Ctx, n: usize, npeers: usize) -> (u64, u64, Vec<Value>) {
    let status_vectors = 4u64.pow(n as u32);
    let parts = core::par_ranges(
        status_vectors,
        core::workers() * 2,
        |_| {
            core::set_quiet_panics(true);
            Mgr::new(n, npeers)
        },
        |mgr, a, b| {
            let mut evals = 0u64;
            let mut nontrivial = 0u64;
            let mut samples = vec![];
            for sv in a..b {
                let statuses: Vec<u8> = (0..n).map(|i| ((sv >> (2 * i)) & 3) as u8).collect();
                let remaining = statuses.iter().filter(|s| **s != 3).count();
                let desired = if remaining < END_GAME { remaining } else { statuses.iter().filter(|s| **s == 0).count() };
                let dvs = digit_vectors(desired);
                let combos = 1u64 << (n * npeers);
                for c in 0..combos {
                    let peers: Vec<Vec<bool>> = (0..npeers).map(|k| (0..n).map(|i| c >> (k * n + i) & 1 == 1).collect()).collect();
                    for d in &dvs {
                        let st = State { statuses: statuses.clone(), peers: peers.clone(), digits: d.clone() };
                        evals += 1;
                        match mgr.pick(&st) {
                            Err(p) => ctx.violation("chooser-panic", format!("{:?}: {}", st, p), json!({"statuses": st.statuses, "peers": st.peers, "digits": st.digits})),
                            Ok((pick, log)) => {
                                let arities: Vec<usize> = log.iter().map(|l| l.0).collect();
                                let expect: Vec<usize> = (1..desired).rev().map(|i| i + 1).collect();
                                if arities != expect {
                                    ctx.machinery_error(format!("choice points {:?} differ from the expected shuffle arities {:?} for {:?}", arities, expect, st));
                                }
                                if acceptable(&st).len() > 1 {
                                    nontrivial += 1;
                                }
                                if let Some((class, why)) = judge(&st, pick) {
                                    ctx.violation(class, why, json!({"statuses": st.statuses, "peers": st.peers, "digits": st.digits}));
                                }
                                if samples.len() < 1 && evals % 9973 == 1 {
                                    samples.push(json!({"statuses": st.statuses, "peers": st.peers, "digits": st.digits, "picked": pick, "acceptable": acceptable(&st)}));
                                }
                            }
                        }
                    }
                }
            }
            (evals, nontrivial, samples)
        },
    );
    let mut samples = vec![];
    for p in &parts {
        samples.extend(p.2.iter().cloned());
    }
    (parts.iter().map(|p| p.0).sum(), parts.iter().map(|p| p.1).sum(), samples)
}

/// Both sides of the end-game threshold: n in 9..=12, every split into have / reserved / missing,
/// structured advertised sets, every candidate brought to the front of the shuffle once.
fn threshold_family(ctx: &Ctx, thorough: bool) -> (u64, u64, Vec<Value>) {
    let mut states = vec![];
    for n in 9..=12usize {
        for have in 0..=n {
            for reserved in 0..=(n - have) {
                let missing = n - have - reserved;
                // layout: [have | reserved | missing], and the same rotated by 1 so indices differ
                for rot in [0usize, 1] {
                    let mut statuses: Vec<u8> = vec![];
                    statuses.extend(std::iter::repeat(3).take(have));
                    statuses.extend((0..reserved).map(|k| 1 + (k % 2) as u8));
                    statuses.extend(std::iter::repeat(0).take(missing));
                    statuses.rotate_left(rot.min(n));
                    states.push(statuses);
                }
            }
        }
    }
    let shapes = |statuses: &Vec<u8>| -> Vec<Vec<bool>> {
        let n = statuses.len();
        let mut v = vec![
            vec![true; n],
            vec![false; n],
            statuses.iter().map(|s| *s == 0).collect(),
            statuses.iter().map(|s| *s == 1 || *s == 2).collect(),
        ];
        for one in [0, n / 2, n - 1] {
            v.push((0..n).map(|i| i == one).collect());
        }
        v.push((0..n).map(|i| i % 2 == 0).collect());
        v
    };
    let res = core::par_map(
        &states,
        |_| {
            core::set_quiet_panics(true);
            (9..=12usize).map(|n| Mgr::new(n, 3)).collect::<Vec<_>>()
        },
        |mgrs, _, statuses| {
            let n = statuses.len();
            let mgr = &mut mgrs[n - 9];
            let mut evals = 0u64;
            let mut nontrivial = 0u64;
            let remaining = statuses.iter().filter(|s| **s != 3).count();
            let desired = if remaining < END_GAME { remaining } else { statuses.iter().filter(|s| **s == 0).count() };
            let sh = shapes(statuses);
            let others: Vec<usize> = if thorough { (0..sh.len()).collect() } else { vec![0, 1, 2, 4] };
            for a in 0..sh.len() {
                for &b in &others {
                    for &c in &others {
                        for front in 0..desired.max(1) {
                            let mut digits = vec![0; desired.saturating_sub(1)];
                            if front > 0 {
                                digits[desired - 1 - front] = front;
                            }
                            let st = State { statuses: statuses.clone(), peers: vec![sh[a].clone(), sh[b].clone(), sh[c].clone()], digits };
                            evals += 1;
                            match mgr.pick(&st) {
                                Err(p) => ctx.violation("chooser-panic", format!("{:?}: {}", st, p), json!({"statuses": st.statuses, "peers": st.peers, "digits": st.digits})),
                                Ok((pick, _)) => {
                                    if acceptable(&st).len() > 1 {
                                        nontrivial += 1;
                                    }
                                    if let Some((class, why)) = judge(&st, pick) {
                                        ctx.violation(class, why, json!({"statuses": st.statuses, "peers": st.peers, "digits": st.digits}));
                                    }
                                }
                            }
                        }
                    }
                }
            }
            (evals, nontrivial)
        },
    );
    (res.iter().map(|r| r.0).sum(), res.iter().map(|r| r.1).sum(), vec![json!({"statuses": states[states.len() / 2], "note": "threshold family member (3 peers with structured advertised sets, every candidate in front once)"})])
}

pub fn run(ctx: &Ctx) -> Outcome {
    let thorough = ctx.tier == core::Tier::Thorough;
    let mut evals = 0u64;
    let mut nontrivial = 0u64;
    let mut samples = vec![];
    let mut parts = vec![];
    let plan: Vec<(usize, usize)> = if thorough { vec![(1, 3), (2, 3), (3, 3), (4, 3), (5, 2)] } else { vec![(1, 3), (2, 3), (3, 3), (4, 3)] };
    for (n, npeers) in plan {
        let (e, t, s) = exhaustive(ctx, n, npeers);
        parts.push(json!({"pieces": n, "peers": npeers, "evaluations": e, "with_a_real_tie": t}));
        evals += e;
        nontrivial += t;
        samples.extend(s.into_iter().take(2));
    }
    let (e, t, s) = threshold_family(ctx, thorough);
    parts.push(json!({"family": "end-game threshold n=9..12", "evaluations": e, "with_a_real_tie": t}));
    evals += e;
    nontrivial += t;
    samples.extend(s);

    let mut o = Outcome::new("model_checking");
    o.set("states", json!(evals));
    o.set("transitions", json!(evals));
    o.set("traces_validated_against_impl", json!(evals));
    o.set("evaluations", json!(evals));
    o.set("distinct_nontrivial", json!(nontrivial));
    o.set("parts", Value::Array(parts));
    o.set("rule", json!("exhaustive part: n pieces, every status vector over {Missing, Reserved(1), Reserved(2), Have}, the asked peer plus the other peers with every advertised set, and every digit vector of the real Fisher-Yates shuffle (= every tie-break permutation); threshold part: n in 9..=12, every (have, reserved, missing) split in two layouts, 3 peers with advertised sets from {all, none, only missing, only reserved, single piece x3, every second}, every candidate brought to the front of the shuffle once. Each (state, tie-break) is one call of the real choose_piece_index; states = transitions = evaluations; non-trivial = more than one acceptable pick."));
    o.set("samples", Value::Array(samples));
    o.set("exhaustive", json!(true));
    o.assume("the asked peer holds no assignment of its own (reservations belong to other peers); the pick is observed at choose_piece_index, which every command handler (unchoke, bitfield, piece done/cancel, not-interested) calls");
    o
}

pub fn replay(_ctx: &Ctx, r: &Value) -> i32 {
    let st = State {
        statuses: r["statuses"].as_array().unwrap().iter().map(|x| x.as_u64().unwrap() as u8).collect(),
        peers: r["peers"].as_array().unwrap().iter().map(|p| p.as_array().unwrap().iter().map(|b| b.as_bool().unwrap()).collect()).collect(),
        digits: r["digits"].as_array().unwrap().iter().map(|x| x.as_u64().unwrap() as usize).collect(),
    };
    core::set_quiet_panics(true);
    let mut mgr = Mgr::new(st.statuses.len(), st.peers.len());
    let res = mgr.pick(&st);
    println!("{:?}\nacceptable picks (statement): {:?}\nchoose_piece_index: {:?}", st, acceptable(&st), res);
    match res {
        Ok((pick, _)) => match judge(&st, pick) {
            Some((class, why)) => {
                println!("VIOLATION property=C13 replay=<this file>\n  class={} {}", class, why);
                1
            }
            None => {
                println!("holds for this state");
                0
            }
        },
        Err(_) => 1,
    }
}
