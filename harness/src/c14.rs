//! C14 — upload slots are bounded and follow the choking policy.
//! E-MGR: BFS over command histories handed to the real manager (bitfield, interested,
//! not-interested, statistics with every rate, disconnect, rotation with the optimistic choice
//! enumerated), N peers, with and without symmetry reduction. E-SYS part: three real connection
//! tasks, gated broadcasts; the Choke/Unchoke frames on each wire must add up to the manager's view.

use crate::core::{self, Ctx, Outcome};
use crate::explore::{self, Scenario};
use crate::fixture::Torrent;
use crate::refwire::{self, Msg};
use crate::world::{peer_cfg, Ev, World, WorldCfg};
use rdest::verif::{BroadCmd, PeerSnap, Status};
use serde_json::{json, Value};
use std::collections::BTreeMap;

pub struct Slots {
    pub n: usize,
    pub symmetric: bool,
    pub kinds: &'static str, // subset of "BINSKR"
    pub rates: Vec<Option<u32>>,
    /// Every peer reports a rate (k mod 2) before the search starts, so rotations are carried out.
    pub preset_rates: bool,
    /// The first `preset_busy` peers have sent their bitfield and declared interest before the
    /// search starts (brings the search to the slot limit without enumerating the way there).
    pub preset_busy: usize,
}

#[derive(Default, Clone)]
pub struct Mon {
    pub bitfield_sent: Vec<bool>,
    pub killed: Vec<bool>,
    pub prev: Vec<PeerSnap>,
}

fn rate_txt(r: &Option<u32>) -> String {
    match r {
        None => "-".to_string(),
        Some(v) => v.to_string(),
    }
}

fn peer_tuple(p: &PeerSnap) -> String {
    format!("{}{}{}{} r={}", if p.am_choked { 'C' } else { 'u' }, if p.optimistic_unchoke { 'O' } else { '.' }, if p.interested { 'I' } else { '.' }, if p.am_interested { 'A' } else { '.' }, rate_txt(&p.uploaded_rate))
}

pub fn limits(peers: &[PeerSnap]) -> Option<(&'static str, String)> {
    let regular = peers.iter().filter(|p| !p.am_choked && !p.optimistic_unchoke).count();
    let optimistic = peers.iter().filter(|p| p.optimistic_unchoke && !p.am_choked).count();
    if regular > 10 {
        return Some(("more-than-ten-regular-unchokes", format!("{} peers are unchoked without being the optimistic one: {:?}", regular, peers.iter().map(peer_tuple).collect::<Vec<_>>())));
    }
    if optimistic > 1 {
        return Some(("more-than-one-optimistic-unchoke", format!("{:?}", peers.iter().map(peer_tuple).collect::<Vec<_>>())));
    }
    None
}

/// Policy after a rotation that was carried out, and agreement of the broadcast with the change.
pub fn rotation_oracle(prev: &[PeerSnap], now: &[PeerSnap], broadcasts: &[BroadCmd]) -> Option<(&'static str, String)> {
    rotation_oracle_by(prev, now, broadcasts, false)
}

/// `seeder`: the client owns every piece. The checkout ranks peers by the rate of data received from
/// them while it is a seeder and by the rate of data sent to them otherwise; these are taken as the
/// definition of "measured rate" per role (in most scenarios both rates are equal and the role is
/// immaterial).
pub fn rotation_oracle_by(prev: &[PeerSnap], now: &[PeerSnap], broadcasts: &[BroadCmd], seeder: bool) -> Option<(&'static str, String)> {
    let measured = |p: &PeerSnap| if seeder { p.download_rate.unwrap_or(0) } else { p.uploaded_rate.unwrap_or(0) };
    let carried_out = prev.iter().all(|p| p.download_rate.is_some() && p.uploaded_rate.is_some());
    let maps: Vec<&std::collections::HashMap<String, bool>> = broadcasts.iter().filter_map(|b| if let BroadCmd::SendOwnState { am_choked_map } = b { Some(am_choked_map) } else { None }).collect();
    let changed: BTreeMap<String, bool> = now
        .iter()
        .filter_map(|p| prev.iter().find(|q| q.addr == p.addr).and_then(|q| if q.am_choked != p.am_choked { Some((p.addr.clone(), p.am_choked)) } else { None }))
        .collect();
    if !carried_out {
        if !changed.is_empty() || !maps.is_empty() {
            return Some(("rotation-without-all-rates-changed-state", format!("changes {:?}, {} broadcasts", changed, maps.len())));
        }
        return None;
    }
    if maps.len() != 1 {
        return Some(("rotation-broadcast-missing", format!("{} SendOwnState broadcasts for one rotation", maps.len())));
    }
    let sent: BTreeMap<String, bool> = maps[0].iter().map(|(k, v)| (k.clone(), *v)).collect();
    if sent != changed {
        return Some(("choke-messages-differ-from-state-change", format!("state changes {:?} but the broadcast says {:?}", changed, sent)));
    }
    let holders: Vec<&PeerSnap> = now.iter().filter(|p| !p.am_choked && !p.optimistic_unchoke).collect();
    for h in &holders {
        if !h.interested {
            return Some(("slot-held-by-uninterested-peer", format!("{} holds a regular slot without interest: {:?}", h.addr, now.iter().map(peer_tuple).collect::<Vec<_>>())));
        }
    }
    for p in now.iter().filter(|p| !p.am_choked && !p.interested) {
        return Some(("uninterested-peer-left-unchoked", format!("{}: {:?}", p.addr, now.iter().map(peer_tuple).collect::<Vec<_>>())));
    }
    for c in now.iter().filter(|p| p.am_choked && p.interested) {
        for h in &holders {
            if measured(c) > measured(h) {
                return Some(("better-peer-left-choked", format!("{} (rate {}) is choked while {} (rate {}) holds a slot (client owns every piece: {}): {:?}", c.addr, measured(c), h.addr, measured(h), seeder, now.iter().map(peer_tuple).collect::<Vec<_>>())));
            }
        }
    }
    None
}

impl Scenario for Slots {
    type Mon = Mon;
    fn name(&self) -> String {
        format!("slots-n{}-{}-{}-r{}{}", self.n, if self.symmetric { "sym" } else { "full" }, self.kinds, self.rates.len(), if self.preset_rates { format!("-preset{}", self.preset_busy) } else { String::new() })
    }
    fn cfg(&self) -> WorldCfg {
        WorldCfg { torrent: Torrent::new("t", 1, &[("f", 1)], true), have: vec![], peers: vec![], gated: false, stale: vec![] }
    }
    fn explore_choices(&self) -> bool {
        true
    }
    fn setup(&self, w: &mut World, mon: &mut Mon) {
        for k in 0..self.n {
            w.add_mgr_peer();
            if self.preset_rates {
                let r = Some((k % 2) as u32);
                w.step(&Ev::MgrStats(k, r, r), &[]);
            }
        }
        mon.bitfield_sent = vec![false; self.n];
        mon.killed = vec![false; self.n];
        if !self.kinds.contains('B') {
            for k in 0..self.n {
                w.step(&Ev::MgrBitfield(k, vec![true]), &[]);
                mon.bitfield_sent[k] = true;
            }
        }
        for k in 0..self.preset_busy {
            w.step(&Ev::MgrBitfield(k, vec![true]), &[]);
            w.step(&Ev::MgrInterested(k), &[]);
            mon.bitfield_sent[k] = true;
        }
        mon.prev = w.snap().peers;
    }
    fn enabled(&self, w: &World, mon: &Mon, _depth: usize) -> Vec<String> {
        let snap = w.snap();
        let mut out = vec![];
        let mut seen_classes: Vec<String> = vec![];
        for k in 0..self.n {
            if mon.killed[k] {
                continue;
            }
            let p = match snap.peers.iter().find(|p| p.addr == w.mgr_peers[k]) {
                Some(p) => p,
                None => continue,
            };
            if self.symmetric {
                let class = format!("{} b={}", peer_tuple(p), mon.bitfield_sent[k]);
                if seen_classes.contains(&class) {
                    continue;
                }
                seen_classes.push(class);
            }
            if self.kinds.contains('B') && !mon.bitfield_sent[k] {
                out.push(format!("B{}", k));
            }
            if self.kinds.contains('I') && !p.interested {
                out.push(format!("I{}", k));
            }
            if self.kinds.contains('N') && p.interested {
                out.push(format!("N{}", k));
            }
            if self.kinds.contains('S') {
                for r in &self.rates {
                    if p.uploaded_rate != *r || p.download_rate != *r {
                        out.push(format!("S{}:{}", k, rate_txt(r)));
                    }
                }
            }
            if self.kinds.contains('K') {
                out.push(format!("K{}", k));
            }
        }
        if self.kinds.contains('R') {
            out.push("R".to_string());
        }
        out
    }
    fn concretize(&self, _w: &World, _mon: &Mon, sym: &str) -> Vec<Ev> {
        if sym == "R" {
            return vec![Ev::Rotate];
        }
        let (head, rest) = sym.split_at(1);
        let (k, arg) = match rest.split_once(':') {
            Some((k, a)) => (k.parse::<usize>().unwrap(), Some(a)),
            None => (rest.parse::<usize>().unwrap(), None),
        };
        vec![match head {
            "B" => Ev::MgrBitfield(k, vec![true]),
            "I" => Ev::MgrInterested(k),
            "N" => Ev::MgrNotInterested(k),
            "S" => {
                let r = match arg.unwrap() {
                    "-" => None,
                    v => Some(v.parse::<u32>().unwrap()),
                };
                Ev::MgrStats(k, r, r)
            }
            "K" => Ev::MgrKill(k),
            _ => panic!("bad symbol"),
        }]
    }
    fn check(&self, w: &World, mon: &mut Mon, last: Option<&str>) -> Option<(&'static str, String)> {
        if let Some(d) = &w.dead {
            return Some(("manager-died", d.clone()));
        }
        let snap = w.snap();
        if let Some(sym) = last {
            if let Some(k) = sym.strip_prefix('B') {
                mon.bitfield_sent[k.parse::<usize>().unwrap()] = true;
            }
            if let Some(k) = sym.strip_prefix('K') {
                mon.killed[k.parse::<usize>().unwrap()] = true;
            }
        }
        if let Some(v) = limits(&snap.peers) {
            return Some(v);
        }
        if last == Some("R") {
            if let Some(v) = rotation_oracle(&mon.prev, &snap.peers, &w.broadcasts) {
                return Some(v);
            }
        }
        mon.prev = snap.peers;
        None
    }
    fn key(&self, w: &World, mon: &Mon) -> String {
        let snap = w.snap();
        let mut tuples: Vec<String> = (0..self.n)
            .map(|k| match snap.peers.iter().find(|p| p.addr == w.mgr_peers[k]) {
                Some(p) => format!("{} b={}", peer_tuple(p), mon.bitfield_sent[k]),
                None => "gone".to_string(),
            })
            .collect();
        if self.symmetric {
            tuples.sort();
        }
        format!("round={} {:?}", snap.round, tuples)
    }
}

// -------------------------------------------------------------------------------------------
// Roles: which rate the rotation ranks by depends on whether the client owns every piece — not on
// reservations. 12 interested peers whose two rates order them in opposite ways.

pub struct Roles {
    /// per piece of a 2-piece torrent: 'M' missing, 'H' owned, 'R' reserved for a downloading peer
    pub statuses: &'static str,
}

impl Scenario for Roles {
    type Mon = Mon;
    fn name(&self) -> String {
        format!("roles-{}", self.statuses)
    }
    fn cfg(&self) -> WorldCfg {
        WorldCfg { torrent: Torrent::new("t", 1, &[("f", 2)], true), have: vec![], peers: vec![], gated: false, stale: vec![] }
    }
    fn explore_choices(&self) -> bool {
        true
    }
    fn setup(&self, w: &mut World, mon: &mut Mon) {
        let n = 12;
        for k in 0..n {
            w.add_mgr_peer();
            w.step(&Ev::MgrStats(k, Some((n - k) as u32 * 100), Some((k + 1) as u32 * 100)), &[]);
            w.step(&Ev::MgrBitfield(k, vec![false, false]), &[]);
            w.step(&Ev::MgrInterested(k), &[]);
        }
        // downloading connections (not interested in us) that hold the reserved pieces
        let mut d = n;
        for (i, c) in self.statuses.chars().enumerate() {
            match c {
                'H' => w.session.verif_set_status(i, Status::Have),
                'R' => {
                    w.add_mgr_peer();
                    w.step(&Ev::MgrStats(d, Some(1), Some(1)), &[]);
                    w.step(&Ev::MgrBitfield(d, (0..2).map(|j| j == i).collect()), &[]);
                    w.step(&Ev::MgrUnchoke(d), &[]);
                    d += 1;
                }
                _ => {}
            }
        }
        let snap = w.snap();
        for (i, c) in self.statuses.chars().enumerate() {
            let ok = match c {
                'H' => snap.statuses[i] == Status::Have,
                'R' => matches!(snap.statuses[i], Status::Reserved(_)),
                _ => snap.statuses[i] == Status::Missing,
            };
            assert!(ok, "roles scenario {}: piece {} is {:?}", self.statuses, i, snap.statuses[i]);
        }
        mon.bitfield_sent = vec![true; d];
        mon.killed = vec![false; d];
        mon.prev = snap.peers;
    }
    fn enabled(&self, w: &World, _mon: &Mon, _depth: usize) -> Vec<String> {
        let snap = w.snap();
        let mut out = vec!["R".to_string()];
        for k in [0usize, 5, 11] {
            if let Some(p) = snap.peers.iter().find(|p| p.addr == w.mgr_peers[k]) {
                out.push(format!("{}{}", if p.interested { 'N' } else { 'I' }, k));
            }
        }
        out
    }
    fn concretize(&self, _w: &World, _mon: &Mon, sym: &str) -> Vec<Ev> {
        if sym == "R" {
            return vec![Ev::Rotate];
        }
        let k: usize = sym[1..].parse().unwrap();
        vec![if sym.starts_with('I') { Ev::MgrInterested(k) } else { Ev::MgrNotInterested(k) }]
    }
    fn check(&self, w: &World, mon: &mut Mon, last: Option<&str>) -> Option<(&'static str, String)> {
        if let Some(d) = &w.dead {
            return Some(("manager-died", d.clone()));
        }
        let snap = w.snap();
        if let Some(v) = limits(&snap.peers) {
            return Some(v);
        }
        if last == Some("R") {
            let seeder = snap.statuses.iter().all(|s| *s == Status::Have);
            if let Some(v) = rotation_oracle_by(&mon.prev, &snap.peers, &w.broadcasts, seeder) {
                return Some(v);
            }
        }
        mon.prev = snap.peers;
        None
    }
    fn key(&self, w: &World, _mon: &Mon) -> String {
        let snap = w.snap();
        let tuples: Vec<String> = w.mgr_peers.iter().map(|a| snap.peers.iter().find(|p| &p.addr == a).map(peer_tuple).unwrap_or_else(|| "gone".to_string())).collect();
        format!("round={} {:?} {:?}", snap.round, snap.statuses, tuples)
    }
}

// -------------------------------------------------------------------------------------------
// E-SYS part: wire agreement with three real connection tasks
// -------------------------------------------------------------------------------------------

pub struct Wire {
    pub n: usize,
    /// The client owns one of the two pieces only: a peer that loses interest stays connected (a
    /// client that owns everything ends such a connection).
    pub leeching: bool,
}

#[derive(Default)]
pub struct WireMon {
    pub bitfield_sent: Vec<bool>,
    /// What each peer last declared on the wire.
    pub declared: Vec<bool>,
    pub time_ms: u64,
}

impl Scenario for Wire {
    type Mon = WireMon;
    fn name(&self) -> String {
        format!("wire-n{}{}", self.n, if self.leeching { "-leeching" } else { "" })
    }
    fn cfg(&self) -> WorldCfg {
        WorldCfg { torrent: Torrent::new("t", 5, &[("f", 10)], true), have: if self.leeching { vec![0] } else { vec![0, 1] }, peers: (0..self.n).map(|k| peer_cfg(k, k % 2 == 0)).collect(), gated: true, stale: vec![] }
    }
    fn explore_choices(&self) -> bool {
        true
    }
    fn setup(&self, w: &mut World, mon: &mut WireMon) {
        let t = w.t.clone();
        for k in 0..self.n {
            let id = w.peers[k].cfg.id;
            w.feed(k, &[refwire::handshake(t.meta.info_hash(), &id)]);
        }
        // two statistics ticks, so that every connection reported its rates
        w.step(&Ev::AdvanceTo(20_500), &[]);
        mon.time_ms = 20_500;
        mon.bitfield_sent = vec![false; self.n];
        mon.declared = vec![false; self.n];
    }
    fn enabled(&self, w: &World, mon: &WireMon, _depth: usize) -> Vec<String> {
        let snap = w.snap();
        let mut out = vec![];
        for k in 0..self.n {
            if w.peers[k].ended.get() {
                continue;
            }
            if !mon.bitfield_sent[k] {
                out.push(format!("B{}", k));
            }
            if snap.peers.iter().any(|p| p.addr == w.peers[k].cfg.addr) {
                out.push(if mon.declared[k] { format!("N{}", k) } else { format!("I{}", k) });
                // a change of mind within one segment: both frames reach the task in one read
                out.push(if mon.declared[k] { format!("Y{}", k) } else { format!("X{}", k) });
            }
            if !w.peers[k].pending.is_empty() {
                out.push(format!("L{}", k));
            }
        }
        out.push("R".to_string());
        out
    }
    fn concretize(&self, _w: &World, _mon: &WireMon, sym: &str) -> Vec<Ev> {
        if sym == "R" {
            return vec![Ev::Rotate];
        }
        let k: usize = sym[1..].parse().unwrap();
        vec![match &sym[..1] {
            // (leeching: the peer owns the piece the client lacks, so the connection is worth keeping
            // whatever the peer's interest)
            "B" => Ev::Feed(k, refwire::encode(&Msg::Bitfield(vec![if self.leeching { 0x40 } else { 0x00 }]))),
            "I" => Ev::Feed(k, refwire::encode(&Msg::Interested)),
            "N" => Ev::Feed(k, refwire::encode(&Msg::NotInterested)),
            "X" => Ev::Feed(k, [refwire::encode(&Msg::Interested), refwire::encode(&Msg::NotInterested)].concat()),
            "Y" => Ev::Feed(k, [refwire::encode(&Msg::NotInterested), refwire::encode(&Msg::Interested)].concat()),
            "L" => Ev::Release(k),
            _ => panic!("bad symbol"),
        }]
    }
    fn check(&self, w: &World, mon: &mut WireMon, last: Option<&str>) -> Option<(&'static str, String)> {
        if let Some(d) = &w.dead {
            return Some(("manager-died", d.clone()));
        }
        if let Some(p) = w.handler_panics.first() {
            return Some(("connection-task-panicked", p.clone()));
        }
        if let Some(sym) = last {
            if let Some(k) = sym.strip_prefix('B') {
                mon.bitfield_sent[k.parse::<usize>().unwrap()] = true;
            }
            if let Some(k) = sym.strip_prefix('I') {
                mon.declared[k.parse::<usize>().unwrap()] = true;
            }
            if let Some(k) = sym.strip_prefix('N') {
                mon.declared[k.parse::<usize>().unwrap()] = false;
            }
            // X = Interested + NotInterested, Y = NotInterested + Interested: the last frame counts
        }
        let snap = w.snap();
        if let Some(v) = limits(&snap.peers) {
            return Some(v);
        }
        for k in 0..self.n {
            let side = &w.peers[k];
            if side.ended.get() {
                continue;
            }
            // "a peer that declared interest": the manager's record must be what the peer last said
            if let Some(p) = snap.peers.iter().find(|p| p.addr == side.cfg.addr) {
                if p.interested != mon.declared[k] {
                    return Some(("manager-interest-differs-from-what-the-peer-declared", format!("peer {} last declared interested={} on the wire (after {:?}), the manager records interested={}: rotations hand out and withdraw slots by that record", k, mon.declared[k], last, p.interested)));
                }
            }
            let wire_choked = side.msgs.iter().fold(true, |c, m| match m {
                Msg::Choke => true,
                Msg::Unchoke => false,
                _ => c,
            });
            // every broadcast released: the peer's view must be the manager's
            let held_back = side.pending.iter().any(|b| matches!(b, BroadCmd::SendOwnState { am_choked_map } if am_choked_map.contains_key(&side.cfg.addr)));
            if let Some(p) = snap.peers.iter().find(|p| p.addr == side.cfg.addr) {
                if !held_back && wire_choked != p.am_choked {
                    return Some((
                        "peer-view-differs-from-manager",
                        format!("peer {}: the Choke/Unchoke frames it received say choked={}, the manager says am_choked={}; frames: {:?}", k, wire_choked, p.am_choked, side.msgs.iter().map(|m| m.short()).collect::<Vec<_>>()),
                    ));
                }
            }
        }
        None
    }
    fn key(&self, w: &World, mon: &WireMon) -> String {
        let wires: Vec<bool> = (0..self.n).map(|k| w.peers[k].msgs.iter().fold(true, |c, m| match m { Msg::Choke => true, Msg::Unchoke => false, _ => c })).collect();
        format!("{} b={:?} wires={:?} decl={:?}", w.default_key(), mon.bitfield_sent, wires, mon.declared)
    }
}

pub fn mgr_scenarios(thorough: bool) -> Vec<(Slots, usize)> {
    let r3 = vec![None, Some(0), Some(1), Some(2)];
    let r2 = vec![Some(0), Some(1)];
    let mut v = vec![
        (Slots { n: 2, symmetric: false, kinds: "BINSKR", rates: r3.clone(), preset_rates: false, preset_busy: 0 }, if thorough { 9 } else { 7 }),
        (Slots { n: 3, symmetric: false, kinds: "BINSR", rates: r2.clone(), preset_rates: false, preset_busy: 0 }, if thorough { 8 } else { 6 }),
        (Slots { n: 3, symmetric: true, kinds: "BINSR", rates: r2.clone(), preset_rates: false, preset_busy: 0 }, if thorough { 8 } else { 6 }),
        (Slots { n: 12, symmetric: true, kinds: "BINR", rates: vec![], preset_rates: true, preset_busy: 9 }, if thorough { 9 } else { 7 }),
    ];
    // long histories of interest changes and rotations (several optimistic rounds) on few peers
    v.push((Slots { n: 2, symmetric: false, kinds: "INR", rates: vec![], preset_rates: true, preset_busy: 0 }, if thorough { 18 } else { 14 }));
    v.push((Slots { n: 3, symmetric: false, kinds: "INR", rates: vec![], preset_rates: true, preset_busy: 0 }, if thorough { 13 } else { 10 }));
    if thorough {
        v.push((Slots { n: 4, symmetric: false, kinds: "BINSKR", rates: r2.clone(), preset_rates: false, preset_busy: 0 }, 7));
        v.push((Slots { n: 13, symmetric: true, kinds: "BINKR", rates: vec![], preset_rates: true, preset_busy: 10 }, 8));
        v.push((Slots { n: 12, symmetric: true, kinds: "BINR", rates: vec![], preset_rates: true, preset_busy: 0 }, 12));
    }
    v
}

pub fn run(ctx: &Ctx) -> Outcome {
    let thorough = ctx.tier == core::Tier::Thorough;
    let mut total = explore::Stats { exhaustive: true, ..Default::default() };
    let mut per = vec![];
    let mut sym_counts: Vec<(String, u64)> = vec![];
    for (s, depth) in mgr_scenarios(thorough) {
        let st = explore::bfs(ctx, &s, depth, ctx.tier.pick(40, 15));
        per.push(json!({"scenario": s.name(), "depth": depth, "states": st.states, "transitions": st.transitions, "depth_completed": st.depth_completed, "choice_points": st.choice_points}));
        sym_counts.push((s.name(), st.states));
        total.merge(&st);
    }
    for statuses in ["MM", "HM", "HR", "RH", "RR", "RM", "HH"] {
        let r = Roles { statuses };
        let depth = ctx.tier.pick(4, 6);
        let st = explore::bfs(ctx, &r, depth, ctx.tier.pick(40, 15));
        per.push(json!({"scenario": r.name(), "depth": depth, "states": st.states, "transitions": st.transitions, "depth_completed": st.depth_completed}));
        total.merge(&st);
    }
    for (w, wd) in [(Wire { n: 3, leeching: false }, ctx.tier.pick(7, 9)), (Wire { n: 3, leeching: true }, ctx.tier.pick(6, 8))] {
        let st = explore::bfs(ctx, &w, wd, ctx.tier.pick(40, 15));
        per.push(json!({"scenario": w.name(), "depth": wd, "states": st.states, "transitions": st.transitions, "depth_completed": st.depth_completed}));
        total.merge(&st);
    }

    let mut o = Outcome::new("model_checking");
    explore::stats_outcome(&total, &mut o);
    o.set("scenarios", Value::Array(per));
    o.set("rule", json!("E-MGR: BFS over commands handed to the real Session::handle_peer_cmd / timeout_change_conn_state for N manager-only peers: B<k> bitfield, I<k>/N<k> interest, S<k>:<rate> statistics (both rates set to the value), K<k> disconnect, R rotation (the optimistic choice is an enumerated choice point); symmetric scenarios offer events for one representative per class of identical peers and sort peers in the state key (validated by the n=3 full/sym pair exploring the same depth). Roles: 12 interested peers whose two reported rates order them in opposite ways (received-from rate 1200..100, sent-to rate 100..1200), on a 2-piece torrent whose pieces are missing / owned / reserved for a downloading connection in 7 combinations; events R and interest changes of three peers; the ranking must follow the sent-to rate unless the client owns every piece. E-SYS: 3 real connection tasks with gated broadcasts, the client owning every piece (wire-n3) or one of two (wire-n3-leeching: a peer that loses interest stays connected): B/I/N frames, X<k>/Y<k> = a change of mind within one segment (Interested+NotInterested resp. NotInterested+Interested in one read), R rotation, L<k> release of one held-back broadcast; besides the wire agreement on choke state, the manager's record of each peer's interest must equal what the peer last declared on the wire."));
    o.assume("except in the roles-* scenarios both reported rates are set to the same value; there, the rate the pinned code ranks by in each role (data received from the peer when the client owns every piece, data sent to the peer otherwise) is taken as the definition of 'measured rate', and what is judged is that the role follows ownership, not reservations; ties in rate are ordered by address under the verif feature (peer names are symmetric and every assignment of roles to names is explored)");
    o
}

pub fn replay(_ctx: &Ctx, r: &Value) -> i32 {
    let name = r["scenario"].as_str().unwrap();
    let hist = explore::hist_from_json(&r["history"]);
    if name.starts_with("wire-") {
        return explore::replay_verbose(&Wire { n: 3, leeching: name.contains("leeching") }, &hist, "C14");
    }
    for statuses in ["MM", "HM", "HR", "RH", "RR", "RM", "HH"] {
        if name == format!("roles-{}", statuses) {
            return explore::replay_verbose(&Roles { statuses }, &hist, "C14");
        }
    }
    for thorough in [false, true] {
        for (s, _) in mgr_scenarios(thorough) {
            if s.name() == name {
                return explore::replay_verbose(&s, &hist, "C14");
            }
        }
    }
    eprintln!("unknown scenario {}", name);
    2
}
