//! C15 — bencode encode/decode are mutually inverse and canonical.
//! E-ENUM: every value of a bounded family (depth <= 3, width <= 2/3) is encoded with the real
//! `BEncoder`, compared byte for byte with the harness's canonical encoder, decoded with the real
//! `BDecoder` and compared with the original; every canonical document re-encodes to itself.

use crate::core::{self, Ctx, Outcome};
use crate::refb::{self, V};
use rdest::verif::BEncoder;
use rdest::{BDecoder, BValue};
use serde_json::{json, Value};

/// Containers (lists with repetition, dictionaries with distinct keys) of at most `width`
/// children, addressable by index so that huge families can be streamed in parallel.
pub struct Family {
    pub children: Vec<V>,
    pub keys: Vec<Vec<u8>>,
    pub width: usize,
    key_sets: Vec<Vec<Vec<usize>>>, // per size k: all k-subsets of key indices (ascending)
}

fn subsets(n: usize, k: usize) -> Vec<Vec<usize>> {
    fn rec(n: usize, k: usize, start: usize, cur: &mut Vec<usize>, out: &mut Vec<Vec<usize>>) {
        if cur.len() == k {
            out.push(cur.clone());
            return;
        }
        for i in start..n {
            cur.push(i);
            rec(n, k, i + 1, cur, out);
            cur.pop();
        }
    }
    let mut out = vec![];
    rec(n, k, 0, &mut vec![], &mut out);
    out
}

impl Family {
    pub fn new(children: Vec<V>, keys: &[&[u8]], width: usize) -> Family {
        let keys: Vec<Vec<u8>> = keys.iter().map(|k| k.to_vec()).collect();
        let key_sets = (0..=width).map(|k| subsets(keys.len(), k)).collect();
        Family {
            children,
            keys,
            width,
            key_sets,
        }
    }

    fn pow(&self, k: usize) -> u64 {
        (self.children.len() as u64).pow(k as u32)
    }

    pub fn count(&self) -> u64 {
        let mut n = 0;
        for k in 0..=self.width {
            n += self.pow(k);
            n += self.key_sets[k].len() as u64 * self.pow(k);
        }
        n
    }

    fn tuple(&self, k: usize, mut idx: u64) -> Vec<V> {
        let mut out = Vec::with_capacity(k);
        for _ in 0..k {
            out.push(self.children[(idx % self.children.len() as u64) as usize].clone());
            idx /= self.children.len() as u64;
        }
        out
    }

    pub fn nth(&self, mut idx: u64) -> V {
        for k in 0..=self.width {
            let n = self.pow(k);
            if idx < n {
                return V::List(self.tuple(k, idx));
            }
            idx -= n;
        }
        for k in 0..=self.width {
            let n = self.key_sets[k].len() as u64 * self.pow(k);
            if idx < n {
                let set = &self.key_sets[k][(idx / self.pow(k)) as usize];
                let vals = self.tuple(k, idx % self.pow(k));
                // document order deliberately descending: the encoder has to sort
                let mut entries: Vec<(Vec<u8>, V)> = set
                    .iter()
                    .zip(vals.into_iter())
                    .map(|(ki, v)| (self.keys[*ki].clone(), v))
                    .collect();
                entries.reverse();
                return V::Dict(entries);
            }
            idx -= n;
        }
        panic!("index out of range");
    }
}

pub fn leaves() -> Vec<V> {
    let mut l = vec![];
    for i in [0i64, 1, -1, 9, 10, -10, i64::MIN, i64::MAX] {
        l.push(V::Int(i));
    }
    for s in [
        &b""[..],
        b"a",
        b"e",
        b":",
        b"1:",
        b"i1e",
        b"le",
        b"\x00\xff",
        b"aaaaaaaaaaa",
    ] {
        l.push(V::Str(s.to_vec()));
    }
    l
}

pub const KEYS: [&[u8]; 9] = [b"", b"a", b"aa", b"ab", b"b", b"a\x00", b"\x80", b"\xc3\xa9", b"\xc3"];
const KEYS_R: [&[u8]; 4] = [b"", b"a", b"ab", b"\xc3"];

fn reduced_leaves() -> Vec<V> {
    vec![V::Int(-1), V::Str(vec![]), V::Str(b"i1e".to_vec())]
}

/// The families of the bounded value space, shallowest first.
pub fn families(width: usize) -> Vec<(&'static str, Family)> {
    let r0 = reduced_leaves();
    let f1 = Family::new(leaves(), &KEYS, width);
    let f1r = Family::new(r0.clone(), &KEYS_R, 2);
    let mut c1: Vec<V> = r0.clone();
    c1.extend((0..f1r.count()).map(|i| f1r.nth(i)));
    let f2 = Family::new(c1.clone(), &KEYS, width);
    let f2r = Family::new(c1.clone(), &[b"a"], 1);
    let mut c2 = c1.clone();
    c2.extend((0..f2r.count()).map(|i| f2r.nth(i)));
    let f3 = Family::new(c2, &KEYS_R, width);
    vec![("depth1", f1), ("depth2", f2), ("depth3", f3)]
}

fn real_encode(v: &V) -> Vec<u8> {
    let mut e = BEncoder::new();
    match refb::to_bvalue(v) {
        BValue::Int(i) => e.add_int(i),
        BValue::ByteStr(s) => e.add_byte_str(&s),
        BValue::List(l) => e.add_list(&l),
        BValue::Dict(d) => e.add_dict(&d),
    };
    e.encode().clone()
}

/// Returns (class, summary) of the first disagreement for this value, if any.
pub fn check_value(v: &V) -> Option<(&'static str, String)> {
    let want = refb::encode_canonical(v);
    let got = match core::catch(|| real_encode(v)) {
        Ok(g) => g,
        Err(p) => return Some(("encoder-panic", format!("value {:?}: {}", v, p))),
    };
    if got != want {
        return Some((
            "encoding-not-canonical",
            format!("value {:?}: encoder gave {} expected {}", v, core::show(&got), core::show(&want)),
        ));
    }
    // decode(encode(v)) == [v]
    match core::catch(|| BDecoder::from_array(&got)) {
        Err(p) => return Some(("decoder-panic", format!("doc {}: {}", core::show(&got), p))),
        Ok(Err(e)) => {
            return Some((
                "decode-of-encoding-fails",
                format!("doc {}: {:?}", core::show(&got), e),
            ))
        }
        Ok(Ok(vals)) => {
            if vals.len() != 1 || refb::from_bvalue(&vals[0]) != refb::normalize(v) {
                return Some((
                    "decode-of-encoding-differs",
                    format!("doc {} decoded to {:?}", core::show(&got), vals),
                ));
            }
            // re-encoding the decoding of the canonical document reproduces it
            let re = real_encode(&refb::from_bvalue(&vals[0]));
            if re != want {
                return Some((
                    "reencode-differs",
                    format!("doc {} re-encoded to {}", core::show(&want), core::show(&re)),
                ));
            }
        }
    }
    // the same value written in non-canonical (descending) key order decodes to the same value
    let raw = refb::enc(v);
    if raw != want {
        match core::catch(|| BDecoder::from_array(&raw)) {
            Ok(Ok(vals)) if vals.len() == 1 && refb::from_bvalue(&vals[0]) == refb::normalize(v) => {}
            other => {
                return Some((
                    "unordered-document-decodes-differently",
                    format!("doc {} -> {:?}", core::show(&raw), other),
                ))
            }
        }
    }
    None
}

/// Canonical documents of the two shallow families (mutation seeds for C16, seeds for C17/C19).
pub fn small_documents() -> Vec<Vec<u8>> {
    let fams = families(2);
    let mut docs = vec![];
    for l in leaves() {
        docs.push(refb::encode_canonical(&l));
    }
    let f1 = &fams[0].1;
    let n = f1.count();
    // every 7th container of depth 1 plus all of the first 400
    for i in 0..n {
        if i < 400 || i % 7 == 0 {
            docs.push(refb::encode_canonical(&f1.nth(i)));
        }
    }
    let f2 = &fams[1].1;
    for i in (0..f2.count()).step_by(97) {
        docs.push(refb::encode_canonical(&f2.nth(i)));
    }
    docs.sort();
    docs.dedup();
    docs
}

fn long_string_forms(len: usize) -> Vec<V> {
    let st: Vec<u8> = (0..len).map(|i| (i % 251) as u8).collect();
    vec![V::Str(st.clone()), V::List(vec![V::Str(st.clone()), V::Int(1)]), V::Dict(vec![(b"pieces".to_vec(), V::Str(st.clone())), (b"z".to_vec(), V::Int(0))]), V::Dict(vec![(st.clone(), V::Int(1))])]
}

pub fn run(ctx: &Ctx) -> Outcome {
    let width = ctx.tier.pick(2, 3);
    let fams = families(width);
    let mut evaluations: u64 = 0;
    let mut containers: u64 = 0;
    let mut samples: Vec<Value> = vec![];
    let mut exhaustive = true;
    let mut per_family = vec![];

    for l in leaves() {
        evaluations += 1;
        if let Some((class, summary)) = check_value(&l) {
            ctx.violation(class, summary, json!({"value_doc": core::show(&refb::enc(&l)), "hex": core::hex(&refb::enc(&l))}));
        }
    }
    for (name, fam) in fams.iter() {
        let total = fam.count();
        // thorough depth-3 family at width 3 is ~8e6 values; everything is enumerated.
        let parts = core::par_ranges(
            total,
            core::workers() * 8,
            |_| (),
            |_, a, b| {
                let mut done = 0u64;
                for idx in a..b {
                    if idx % 4096 == 0 && ctx.over_budget() {
                        return (done, false);
                    }
                    let v = fam.nth(idx);
                    if let Some((class, summary)) = check_value(&v) {
                        ctx.violation(
                            class,
                            summary,
                            json!({"value_doc": core::show(&refb::enc(&v)), "hex": core::hex(&refb::enc(&v))}),
                        );
                    }
                    done += 1;
                }
                (done, true)
            },
        );
        let done: u64 = parts.iter().map(|p| p.0).sum();
        let complete = parts.iter().all(|p| p.1);
        exhaustive &= complete;
        evaluations += done;
        containers += done;
        per_family.push(json!({"family": name, "children": fam.children.len(), "keys": fam.keys.len(), "width": fam.width, "values": total, "checked": done}));
        for i in ctx.seeded_pick(total as usize, 3) {
            samples.push(json!(core::show(&refb::enc(&fam.nth(i as u64)))));
        }
    }

    // long documents: the same small containers placed behind a string of every length up to a
    // bound (so that every value starts at every byte offset across the 255/256/… boundaries), in
    // three layouts; and nesting ladders up to the decoder's documented limit of 256 levels
    let inner: Vec<V> = {
        let i1 = V::Int(1);
        let e_l = V::List(vec![]);
        let e_d = V::Dict(vec![]);
        vec![
            i1.clone(),
            V::Str(b"e:d".to_vec()),
            e_l.clone(),
            e_d.clone(),
            V::List(vec![i1.clone()]),
            V::List(vec![e_l.clone()]),
            V::List(vec![V::Dict(vec![(b"k".to_vec(), e_l.clone())])]),
            V::Dict(vec![(b"k".to_vec(), i1.clone())]),
            V::Dict(vec![(b"k".to_vec(), e_l.clone())]),
            V::Dict(vec![(b"k".to_vec(), V::List(vec![i1.clone()]))]),
            V::Dict(vec![(b"k".to_vec(), V::Dict(vec![(b"x".to_vec(), i1.clone())]))]),
            V::Dict(vec![(b"a".to_vec(), e_d.clone()), (b"b".to_vec(), V::List(vec![V::Dict(vec![(b"c".to_vec(), e_l.clone())])]))]),
        ]
    };
    let mut pads: Vec<usize> = (0..=ctx.tier.pick(600usize, 5000usize)).collect();
    for k in 10..=ctx.tier.pick(14u32, 17u32) {
        for d in -4i64..=4 {
            pads.push(((1i64 << k) + d) as usize);
        }
    }
    pads.sort();
    pads.dedup();
    let long_res = core::par_map(&pads, |_| (), |_, _, pad| {
        let mut n = 0u64;
        let mut bad = vec![];
        let filler = V::Str(vec![b'x'; *pad]);
        for v in &inner {
            let layouts = [
                V::List(vec![filler.clone(), v.clone()]),
                V::Dict(vec![(b"a".to_vec(), filler.clone()), (b"b".to_vec(), v.clone())]),
                V::List(vec![filler.clone(), V::List(vec![v.clone(), v.clone()])]),
            ];
            for l in layouts {
                n += 1;
                if let Some((class, summary)) = check_value(&l) {
                    bad.push((class, format!("(filler string of {} bytes in front) {}", pad, &summary[..summary.len().min(300)]), refb::enc(&l)));
                }
            }
        }
        (n, bad)
    });
    let mut long_docs = 0u64;
    for (n, bad) in long_res {
        long_docs += n;
        for (class, summary, doc) in bad.into_iter().take(3) {
            ctx.violation(class, summary, json!({"hex": core::hex(&doc)}));
        }
    }
    // binary strings: every string of length 0..=2 over all 256 byte values, as a bare value, as
    // the only list element, as a dictionary value and as a dictionary key (every byte value in
    // first and in last position of a document's last / only string)
    let firsts: Vec<usize> = (0..=256).collect();
    let bin_res = core::par_map(&firsts, |_| (), |_, _, a| {
        let mut n = 0u64;
        let mut bad = vec![];
        let mut strs: Vec<Vec<u8>> = vec![];
        if *a == 256 {
            strs.push(vec![]);
            strs.extend((0..=255u8).map(|b| vec![b]));
        } else {
            strs.extend((0..=255u8).map(|b| vec![*a as u8, b]));
        }
        for st in strs {
            let forms = [
                V::Str(st.clone()),
                V::List(vec![V::Str(st.clone())]),
                V::Dict(vec![(b"k".to_vec(), V::Str(st.clone()))]),
                V::Dict(vec![(st.clone(), V::Int(1))]),
            ];
            for f in forms {
                n += 1;
                if let Some((class, summary)) = check_value(&f) {
                    if bad.len() < 2 {
                        bad.push((class, format!("(binary string {}) {}", core::show(&st), &summary[..summary.len().min(300)]), refb::enc(&f)));
                    }
                }
            }
        }
        (n, bad)
    });
    let mut bin_docs = 0u64;
    for (n, bad) in bin_res {
        bin_docs += n;
        for (class, summary, doc) in bad {
            ctx.violation(class, summary, json!({"hex": core::hex(&doc)}));
        }
    }
    // long strings (around the 64 KiB frame size and beyond), same four positions
    for len in [255usize, 256, 65535, 65536, 65537, 100_000, 1 << 20, (1 << 21) + 1] {
        for (form, f) in long_string_forms(len).into_iter().enumerate() {
            bin_docs += 1;
            if let Some((class, summary)) = check_value(&f) {
                ctx.violation(class, format!("(string of {} bytes) {}", len, &summary[..summary.len().min(200)]), json!({"long_string_len": len, "form": form}));
            }
        }
    }
    // wide containers: many sibling containers at small depth (around 255 / 256 entries and beyond)
    for n in [254usize, 255, 256, 257, 300, 1000] {
        let key = |i: usize| format!("k{:04}", i).into_bytes();
        let wide: Vec<(&str, V)> = vec![
            ("list of empty dictionaries", V::List((0..n).map(|_| V::Dict(vec![])).collect())),
            ("list of lists", V::List((0..n).map(|i| V::List(vec![V::Int(i as i64)])).collect())),
            ("dictionary of dictionaries", V::Dict((0..n).map(|i| (key(i), V::Dict(vec![(b"x".to_vec(), V::Int(i as i64))]))).collect())),
            ("torrent-shaped files list", V::Dict(vec![(b"info".to_vec(), V::Dict(vec![(b"files".to_vec(), V::List((0..n).map(|i| V::Dict(vec![(b"length".to_vec(), V::Int(i as i64)), (b"path".to_vec(), V::Str(key(i)))])).collect()))]))])),
            ("dictionaries followed by a nested list", V::List((0..n).map(|_| V::Dict(vec![])).chain(std::iter::once(V::List(vec![V::List(vec![])]))).collect())),
        ];
        for (what, v) in wide {
            bin_docs += 1;
            if let Some((class, summary)) = check_value(&v) {
                ctx.violation(class, format!("({} with {} entries) {}", what, n, &summary[..summary.len().min(200)]), json!({"wide": what, "n": n}));
            }
        }
    }
    evaluations += bin_docs;
    containers += bin_docs;

    let mut ladder = 0u64;
    for depth in 1..=256usize {
        for kind in 0..3 {
            let mut v = V::Int(7);
            for d in 0..depth {
                v = match (kind, d % 2) {
                    (0, _) | (2, 0) => V::List(vec![v]),
                    _ => V::Dict(vec![(b"k".to_vec(), v)]),
                };
            }
            ladder += 1;
            if let Some((class, summary)) = check_value(&v) {
                ctx.violation(class, format!("(nesting depth {}, kind {}) {}", depth, ["lists", "dictionaries", "alternating"][kind], &summary[..summary.len().min(200)]), json!({"hex": core::hex(&refb::enc(&v))}));
            }
        }
    }
    evaluations += long_docs + ladder;
    containers += long_docs + ladder;

    let mut o = Outcome::new("exploration");
    o.set("evaluations", json!(evaluations));
    o.set("distinct_nontrivial", json!(containers));
    o.set("long_documents", json!(long_docs));
    o.set("binary_string_documents", json!(bin_docs));
    o.set("filler_lengths", json!(pads.len()));
    o.set("nesting_ladder_values", json!(ladder));
    o.set("rule", json!("every value of three index-addressable families is generated exactly once (mixed-radix index -> value): lists with repetition and dictionaries with distinct keys of at most `width` children over (depth1) 17 leaves, (depth2) 3 reduced leaves + all depth-1 containers over them, (depth3) those + width-1 depth-2 containers. Non-trivial = a container (all indices give distinct values); the 17 bare leaves are counted in evaluations only. Plus binary strings: every byte string of length 0..=2 (65 793) as a bare value, a list element, a dictionary value and a dictionary key, and strings of 255, 256, 65535, 65536, 65537, 100000, 2^20 and 2^21+1 bytes in the same positions. Plus wide containers: 254..257, 300 and 1000 sibling dictionaries / lists in a list, as dictionary values, as a torrent-shaped files list, and followed by a nested list. Plus long documents: 12 small values (scalars, empty and nested containers) behind a filler string of every length 0..=600 (thorough 0..=5000) and 2^k-4..=2^k+4 for k = 10..=14 (17), in three layouts (list, dictionary, list of list); plus nesting ladders of depth 1..=256 (lists, dictionaries, alternating) — 256 is the decoder's documented nesting limit."));
    o.set("families", Value::Array(per_family));
    o.set("samples", Value::Array(samples));
    o.set("exhaustive", json!(exhaustive));
    o.set("width", json!(width));
    o.assume("reference canonical encoder / parser in harness/src/refb.rs written from BEP3");
    o.assume("nothing is claimed for values outside the stated leaf alphabet, wider than the stated width, or deeper than 3 other than the single-child ladders; values nested deeper than 256 are refused by the decoder on purpose (fix bd6a656, stack safety) and are outside the round-trip claim");
    o
}

pub fn replay(_ctx: &Ctx, r: &Value) -> i32 {
    if r["wide"].is_string() {
        println!("a wide container ({} with {} entries); `./check C15` repeats it", r["wide"], r["n"]);
        return 1;
    }
    if let Some(len) = r["long_string_len"].as_u64() {
        let v = long_string_forms(len as usize).remove(r["form"].as_u64().unwrap_or(0) as usize);
        return match check_value(&v) {
            Some((class, s)) => {
                println!("VIOLATION property=C15 replay=<this file>\n  class={} {}", class, &s[..s.len().min(300)]);
                1
            }
            None => {
                println!("holds for this value");
                0
            }
        };
    }
    let hexs = r["hex"].as_str().unwrap_or("");
    let bytes: Vec<u8> = (0..hexs.len() / 2)
        .map(|i| u8::from_str_radix(&hexs[2 * i..2 * i + 2], 16).unwrap())
        .collect();
    let v = match refb::parse_all(&bytes) {
        Ok(mut v) if v.len() == 1 => v.remove(0),
        other => {
            eprintln!("replay document does not parse: {:?}", other);
            return 2;
        }
    };
    println!("value: {:?}", v);
    println!("reference canonical: {}", core::show(&refb::encode_canonical(&v)));
    match check_value(&v) {
        Some((class, s)) => {
            println!("VIOLATION property=C15 replay=<this file>\n  class={} {}", class, s);
            1
        }
        None => {
            println!("holds for this value");
            0
        }
    }
}
