//! C16 — the bencode decoder accepts exactly well-formed input and never panics.
//! E-ENUM: every byte string over a 10-symbol delimiter-rich alphabet up to a length bound, every
//! truncation and single-symbol substitution of a document corpus, against the reference
//! recogniser; plus a nesting ladder probed in a subprocess (the decoder recurses per level).

use crate::core::{self, Ctx, Outcome};
use crate::refb::{self, V};
use crate::strings;
use rdest::BDecoder;
use serde_json::{json, Value};
use std::collections::BTreeMap;

pub struct Verdict {
    pub class: &'static str,
    pub summary: String,
}

/// Compare the real decoder with the reference on one input.
pub fn compare(input: &[u8]) -> (bool, Option<Verdict>) {
    let reference = refb::parse_all(input);
    let ref_ok = reference.is_ok();
    let got = core::catch(|| BDecoder::from_array(input));
    let v = match (reference, got) {
        (_, Err(p)) => Some(Verdict {
            class: "decoder-panic",
            summary: format!("input {} panics: {}", core::show(input), p),
        }),
        (Err(_), Ok(Err(_))) => None,
        (Ok(want), Ok(Ok(vals))) => {
            let got: Vec<V> = vals.iter().map(refb::from_bvalue).collect();
            let want: Vec<V> = want.iter().map(refb::normalize).collect();
            if got == want {
                None
            } else {
                Some(Verdict {
                    class: "wrong-values",
                    summary: format!("input {} decoded to {:?}, reference {:?}", core::show(input), got, want),
                })
            }
        }
        (Ok(_), Ok(Err(e))) => Some(Verdict {
            class: "rejects-well-formed",
            summary: format!("input {} is well-formed but rejected: {:?}", core::show(input), e),
        }),
        (Err(why), Ok(Ok(vals))) => {
            let got: Vec<V> = vals.iter().map(refb::from_bvalue).collect();
            let class = classify_eof_completion(input, &got);
            Some(Verdict {
                class,
                summary: format!(
                    "input {} is malformed ({}) but accepted as {:?}",
                    core::show(input),
                    why,
                    got
                ),
            })
        }
    };
    (ref_ok, v)
}

/// The two specific classes of over-acceptance seen on the pinned tree are both "the input stops
/// too early": appending only `e`s (unterminated containers), or a `:` and then `e`s (a string
/// length that runs into the end of input), yields a well-formed document with the same values.
fn classify_eof_completion(input: &[u8], got: &[V]) -> &'static str {
    for (suffix, class) in [
        (&b""[..], "accepts-unterminated-container-at-eof"),
        (&b":"[..], "accepts-length-prefix-without-colon-at-eof"),
    ] {
        for k in 0..=input.len() + 1 {
            if suffix.is_empty() && k == 0 {
                continue;
            }
            let mut cand = input.to_vec();
            cand.extend_from_slice(suffix);
            cand.extend(std::iter::repeat(b'e').take(k));
            if let Ok(want) = refb::parse_all(&cand) {
                let want: Vec<V> = want.iter().map(refb::normalize).collect();
                if want == got {
                    return class;
                }
            }
        }
    }
    "accepts-malformed"
}

#[derive(Default)]
struct Acc {
    evaluations: u64,
    ref_accepts: u64,
    violations: BTreeMap<&'static str, u64>,
}

fn record(ctx: &Ctx, acc: &mut Acc, input: &[u8], origin: &str) {
    acc.evaluations += 1;
    let (ok, v) = compare(input);
    if ok {
        acc.ref_accepts += 1;
    }
    if let Some(v) = v {
        *acc.violations.entry(v.class).or_default() += 1;
        ctx.violation(
            v.class,
            v.summary,
            json!({"kind": "input", "hex": core::hex(input), "text": core::show(input), "origin": origin}),
        );
    }
}

pub fn corpus() -> Vec<Vec<u8>> {
    let mut docs = crate::c15::small_documents();
    // strings whose content ends in / consists of white space, at the end of a document and inside
    for d in [&b"1: "[..], b"2:a\n", b"i7e3:\r\n\t", b"l1: e", b"d1: 1:\ne", b"6:\x0a\x00\x00\x20\x09\x20", b"d5:peers6:\x0a\x00\x00\x20\x09\x20e"] {
        docs.push(d.to_vec());
    }
    docs.push(b"d8:announce3:URL4:infod6:lengthi222e4:name4:NAME12:piece lengthi111e6:pieces20:AAAAABBBBBCCCCCDDDDDee".to_vec());
    docs.push(b"d8:intervali900e5:peersld2:ip9:127.0.0.17:peer id20:AAAAABBBBBCCCCCDDDDD4:porti6881eeee".to_vec());
    docs.push(b"d14:failure reason5:nope!e".to_vec());
    docs
}

pub fn run(ctx: &Ctx) -> Outcome {
    let max_len = ctx.tier.pick(8, 9);
    let mut total = Acc::default();

    // (1) all strings over SIGMA up to max_len
    let accs = strings::for_all(max_len, Acc::default, |acc, s| record(ctx, acc, s, "sigma"));
    let mut sigma_evals = 0;
    for a in accs {
        sigma_evals += a.evaluations;
        total.evaluations += a.evaluations;
        total.ref_accepts += a.ref_accepts;
        for (k, v) in a.violations {
            *total.violations.entry(k).or_default() += v;
        }
    }

    // (2) truncations and single-symbol substitutions of the corpus
    let docs = corpus();
    let step = ctx.tier.pick(3, 1);
    let docs: Vec<&Vec<u8>> = docs.iter().step_by(step).collect();
    let parts = core::par_map(
        &docs,
        |_| core::set_quiet_panics(true),
        |_, _, doc| {
            let mut acc = Acc::default();
            record(ctx, &mut acc, doc, "corpus");
            for cut in 0..doc.len() {
                record(ctx, &mut acc, &doc[..cut], "truncation");
            }
            let mut m = (*doc).clone();
            for pos in 0..doc.len() {
                let orig = m[pos];
                for &sym in strings::SIGMA {
                    if sym != orig {
                        m[pos] = sym;
                        record(ctx, &mut acc, &m, "substitution");
                    }
                }
                m[pos] = orig;
            }
            // bytes outside the alphabet that tools like to strip or add: white space, NUL, high
            // bytes -- substituted at every position, inserted at every position, appended in pairs
            const W: &[u8] = b" \n\r\t\x00\x0c\xff";
            for pos in 0..=doc.len() {
                for &sym in W {
                    if pos < doc.len() {
                        let orig = m[pos];
                        m[pos] = sym;
                        record(ctx, &mut acc, &m, "substitution-outside-alphabet");
                        m[pos] = orig;
                    }
                    let mut ins = (*doc).clone();
                    ins.insert(pos, sym);
                    record(ctx, &mut acc, &ins, "insertion-outside-alphabet");
                }
            }
            for &a in W {
                for &b in W {
                    let mut app = (*doc).clone();
                    app.push(a);
                    app.push(b);
                    record(ctx, &mut acc, &app, "trailing-bytes");
                }
            }
            acc
        },
    );
    let mut mutation_evals = 0;
    for a in parts {
        mutation_evals += a.evaluations;
        total.evaluations += a.evaluations;
        total.ref_accepts += a.ref_accepts;
        for (k, v) in a.violations {
            *total.violations.entry(k).or_default() += v;
        }
    }

    // (2b) well-formed documents around sizes that buffers and frame limits like: a byte string of
    // n bytes bare, in a list, as a dictionary value and as a key; all must be accepted
    let mut big_evals = 0u64;
    for n in [4095usize, 4096, 8191, 8192, 65535, 65536, 65537, 100_000, 262_144, 262_145, 1 << 20] {
        let body: Vec<u8> = (0..n).map(|i| b"ilde012:-a"[i % 10]).collect();
        let mut bare = format!("{}:", n).into_bytes();
        bare.extend_from_slice(&body);
        let mut forms: Vec<Vec<u8>> = vec![bare.clone()];
        forms.push([&b"l"[..], &bare, b"e"].concat());
        forms.push([&b"d1:a"[..], &bare, b"e"].concat());
        forms.push([&b"d"[..], &bare, b"i1ee"].concat());
        for f in forms {
            let mut acc = Acc::default();
            record(ctx, &mut acc, &f, "long-string");
            big_evals += acc.evaluations;
            total.evaluations += acc.evaluations;
            total.ref_accepts += acc.ref_accepts;
            for (k, v) in acc.violations {
                *total.violations.entry(k).or_default() += v;
            }
        }
    }
    let _ = big_evals;

    // (3) nesting ladder, each rung in a subprocess
    let ladder = nesting_ladder(ctx);
    // (4) huge string-length headers, in a subprocess
    let lens = length_headers(ctx);

    // (5) wide documents: n sibling containers (n across the nesting limit of 256 and beyond) at
    // the top level, inside a list and as dictionary values, followed by one nested container —
    // siblings are not nesting, every one of these is well-formed
    let ns: Vec<usize> = (1..=ctx.tier.pick(700usize, 3000usize)).collect();
    let wide = core::par_map(&ns, |_| core::set_quiet_panics(true), |_, _, n| {
        let mut bad = vec![];
        let tail: &[u8] = b"ld1:kleee";
        let rep = |unit: &[u8]| -> Vec<u8> { unit.iter().cloned().cycle().take(unit.len() * n).collect() };
        let mut entries = vec![];
        let mut entries_l = vec![];
        for i in 0..*n {
            let key = format!("{:04}", i);
            entries.extend_from_slice(format!("4:{}de", key).as_bytes());
            entries_l.extend_from_slice(format!("4:{}ld0:leee", key).as_bytes());
        }
        let docs: Vec<Vec<u8>> = vec![
            [rep(b"de"), tail.to_vec()].concat(),
            [rep(b"le"), tail.to_vec()].concat(),
            [rep(b"dele"), tail.to_vec()].concat(),
            [b"l".to_vec(), rep(b"de"), tail.to_vec(), b"e".to_vec()].concat(),
            [b"l".to_vec(), rep(b"le"), tail.to_vec(), b"e".to_vec()].concat(),
            [b"d".to_vec(), entries.clone(), b"4:zzzz".to_vec(), tail.to_vec(), b"e".to_vec()].concat(),
            [b"d".to_vec(), entries_l.clone(), b"4:zzzz".to_vec(), tail.to_vec(), b"e".to_vec()].concat(),
            [b"d1:al".to_vec(), rep(b"d1:xdee"), tail.to_vec(), b"ee".to_vec()].concat(),
        ];
        let k = docs.len() as u64;
        for d in docs {
            let (_, v) = compare(&d);
            if let Some(v) = v {
                if bad.len() < 2 {
                    bad.push((v.class, format!("({} sibling containers) {}", n, &v.summary[..v.summary.len().min(200)]), d));
                }
            }
        }
        (k, bad)
    });
    let mut wide_docs = 0u64;
    for (k, bad) in wide {
        wide_docs += k;
        for (class, summary, d) in bad {
            ctx.violation(class, summary, json!({"kind": "input", "hex": core::hex(&d), "text": core::show(&d[..d.len().min(120)]), "origin": "wide"}));
        }
    }
    total.evaluations += wide_docs;
    total.ref_accepts += wide_docs;

    let mut samples = vec![];
    let mut buf = vec![];
    for i in ctx.seeded_pick(strings::total(max_len) as usize, 4) {
        strings::nth(max_len, i as u64, &mut buf);
        let (ok, _) = compare(&buf);
        samples.push(json!({"input": core::show(&buf), "reference_accepts": ok}));
    }
    samples.push(json!({"input": "li1e", "note": "known finding class accepts-unterminated-container-at-eof"}));

    let mut o = Outcome::new("exploration");
    o.set("evaluations", json!(total.evaluations));
    o.set("distinct_nontrivial", json!(total.ref_accepts));
    o.set("rule", json!(format!("(1) every byte string over the alphabet {:?} of length 0..={} (all distinct); (2) every corpus document, each of its truncations, each single-position substitution by an alphabet symbol, and -- with the bytes space, LF, CR, TAB, NUL, FF, 0xFF, which are outside the alphabet -- each single-position substitution, each single insertion and each appended pair (the corpus includes strings whose content is or ends in white space, at the end of a document and inside); (2b) byte strings of 4095, 4096, 8191, 8192, 65535, 65536, 65537, 100000, 262144, 262145 and 2^20 bytes bare, in a list, as a dictionary value and as a key (all well-formed); (3) nesting ladder in subprocesses; (4) 18 huge / overflowing / zero-padded string-length headers in 6 positions (top level, inside a list, as dictionary value, in a tracker-like reply, with and without ':'), decoded in a subprocess; (5) wide documents: n = 1..=700 (thorough 3000) sibling containers (dictionaries, lists, alternating) at the top level, inside a list, as dictionary values and inside a nested list, each followed by a nested container: all well-formed. Non-trivial = inputs the reference recogniser accepts as a sequence of well-formed values (counted; for (1) they are distinct strings, (2) may repeat some).", String::from_utf8_lossy(strings::SIGMA), max_len)));
    o.set("sigma_strings", json!(sigma_evals));
    o.set("mutation_inputs", json!(mutation_evals));
    o.set("corpus_documents", json!(docs.len()));
    o.set("disagreements_by_class", json!(total.violations));
    o.set("nesting_ladder", ladder);
    o.set("wide_documents", json!(wide_docs));
    o.set("huge_length_headers", lens);
    o.set("samples", Value::Array(samples));
    o.set("exhaustive", json!(true));
    o.set("max_len", json!(max_len));
    o.assume("reference recogniser refb.rs: string lengths may carry leading zeros, integers must be canonical and fit i64, containers must be terminated, keys must be strings, key order/uniqueness not enforced (last duplicate wins)");
    o.assume("the nesting ladder is a probe outside the exhaustive bound: it demands that decoding terminates without crashing at every rung, that an accepted input is well-formed, and that well-formed nesting of depth <= 100 is accepted; refusing deeper well-formed nesting with an error is tolerated (a recursion limit is the accepted repair)");
    o
}

// -------------------------------------------------------------------------------------------
// Nesting ladder (subprocess)
// -------------------------------------------------------------------------------------------

pub fn ladder_input(kind: &str, depth: usize, terminated: bool) -> Vec<u8> {
    let mut v = vec![];
    match kind {
        "list" => {
            v.extend(std::iter::repeat(b'l').take(depth));
            if terminated {
                v.extend(std::iter::repeat(b'e').take(depth));
            }
        }
        _ => {
            for _ in 0..depth {
                v.extend_from_slice(b"d1:a");
            }
            v.extend_from_slice(b"i1e");
            if terminated {
                v.extend(std::iter::repeat(b'e').take(depth));
            }
        }
    }
    v
}

/// String-length headers far beyond the input size, at top level and nested. They are decoded in a
/// subprocess: an implementation that allocates what the header announces aborts the process
/// ("memory allocation failed"), which cannot be caught in-process.
pub fn length_header_family() -> Vec<Vec<u8>> {
    let nums: Vec<String> = vec![
        "2147483647", "2147483648", "4294967295", "4294967296", "9007199254740992", "4611686018427387904",
        "9223372036854775807", "9223372036854775808", "9223372036854775809", "18446744073709551615",
        "18446744073709551616", "18446744073709551617", "10000000000000000000", "100000000000000000000",
        "99999999999999999999", "1000000000000000000000000000000", "00000000000000000000000000000003", "0000000000000000000000",
    ]
    .into_iter()
    .map(String::from)
    .collect();
    let mut out = vec![];
    for n in &nums {
        for form in 0..6 {
            let v: Vec<u8> = match form {
                0 => format!("{}:", n).into_bytes(),
                1 => format!("{}:abc", n).into_bytes(),
                2 => format!("l{}:abce", n).into_bytes(),
                3 => format!("d1:a{}:xe", n).into_bytes(),
                4 => format!("d8:intervali1800e5:peers{}:e", n).into_bytes(),
                _ => format!("{}", n).into_bytes(),
            };
            out.push(v);
        }
    }
    out
}

/// `rdv --probe lens`: runs the family, one line per input: `<index> start` then `<index> ok|BAD <class> <summary>`.
fn probe_lens() -> i32 {
    crate::core::install_panic_hook();
    for (i, input) in length_header_family().iter().enumerate() {
        println!("{} start", i);
        match compare(input).1 {
            None => println!("{} ok", i),
            Some(v) => println!("{} BAD {} {}", i, v.class, v.summary.replace('\n', " ")),
        }
    }
    0
}

fn length_headers(ctx: &Ctx) -> Value {
    let fam = length_header_family();
    let exe = std::env::current_exe().expect("current_exe");
    let out = std::process::Command::new(exe).args(["--probe", "lens"]).output().expect("cannot start probe subprocess");
    let text = String::from_utf8_lossy(&out.stdout).to_string();
    let mut last_started: Option<usize> = None;
    let mut done = 0usize;
    for line in text.lines() {
        let mut parts = line.splitn(3, ' ');
        let idx: usize = match parts.next().and_then(|x| x.parse().ok()) {
            Some(i) => i,
            None => continue,
        };
        match parts.next() {
            Some("start") => last_started = Some(idx),
            Some("ok") => done += 1,
            Some("BAD") => {
                done += 1;
                let rest = parts.next().unwrap_or("");
                let (class, summary) = rest.split_once(' ').unwrap_or((rest, ""));
                let class: &'static str = match class {
                    "decoder-panic" => "decoder-panic",
                    "wrong-values" => "wrong-values",
                    "rejects-well-formed" => "rejects-well-formed",
                    "accepts-unterminated-container-at-eof" => "accepts-unterminated-container-at-eof",
                    _ => "accepts-malformed",
                };
                ctx.violation(class, summary.to_string(), json!({"kind": "input", "hex": core::hex(&fam[idx]), "text": core::show(&fam[idx]), "origin": "length-header"}));
            }
            _ => {}
        }
    }
    if !out.status.success() || done != fam.len() {
        let idx = last_started.unwrap_or(0);
        ctx.violation(
            "huge-length-header-crashes-decoder",
            format!("decoding {} ends the process ({:?})", core::show(&fam[idx]), out.status),
            json!({"kind": "input-subprocess", "hex": core::hex(&fam[idx]), "text": core::show(&fam[idx])}),
        );
    }
    json!({"inputs": fam.len(), "decoded_in_subprocess": done, "exit": format!("{:?}", out.status)})
}

/// `rdv --probe nest <target> <kind> <depth> <terminated> <stack_kib>`: decodes on a thread with
/// the given stack; exit 0 = returned (prints accept/reject), anything else = crashed.
pub fn probe_main(args: &[String]) -> i32 {
    if args.len() == 1 && args[0] == "lens" {
        return probe_lens();
    }
    if args.len() != 6 || args[0] != "nest" {
        eprintln!("usage: rdv --probe nest <bdecoder|metainfo|tracker> <list|dict> <depth> <0|1> <stack_kib>");
        return 2;
    }
    let target = args[1].clone();
    let kind = args[2].clone();
    let depth: usize = args[3].parse().unwrap();
    let terminated = args[4] == "1";
    let stack: usize = args[5].parse::<usize>().unwrap() * 1024;
    let input = ladder_input(&kind, depth, terminated);
    let h = std::thread::Builder::new()
        .stack_size(stack)
        .spawn(move || {
            let verdict = match target.as_str() {
                "bdecoder" => {
                    let r = BDecoder::from_array(&input);
                    let ok = r.is_ok();
                    // dropping a deep value recurses as well; keep it inside the probe
                    drop(r);
                    ok
                }
                "metainfo" => rdest::Metainfo::from_bencode(&input).is_ok(),
                _ => rdest::TrackerResp::from_bencode(&input).is_ok(),
            };
            println!("{}", if verdict { "accept" } else { "reject" });
        })
        .unwrap();
    match h.join() {
        Ok(()) => 0,
        Err(_) => 3,
    }
}

pub fn run_probe(target: &str, kind: &str, depth: usize, terminated: bool, stack_kib: usize) -> Result<String, String> {
    let exe = std::env::current_exe().expect("current_exe");
    let out = std::process::Command::new(exe)
        .args([
            "--probe",
            "nest",
            target,
            kind,
            &depth.to_string(),
            if terminated { "1" } else { "0" },
            &stack_kib.to_string(),
        ])
        .output()
        .expect("cannot start probe subprocess");
    if out.status.success() {
        Ok(String::from_utf8_lossy(&out.stdout).trim().to_string())
    } else {
        Err(format!("{:?}", out.status))
    }
}

fn nesting_ladder(ctx: &Ctx) -> Value {
    let mut rows = vec![];
    let depths: Vec<usize> = ctx.tier.pick(vec![100, 1000, 10_000, 100_000], vec![100, 1000, 10_000, 100_000, 1_000_000]);
    for kind in ["list", "dict"] {
        for terminated in [true, false] {
            for &depth in &depths {
                // 2 MiB: the stack of a tokio worker thread, where tracker replies are decoded
                let r = run_probe("bdecoder", kind, depth, terminated, 2048);
                let row = json!({"kind": kind, "depth": depth, "terminated": terminated, "stack_kib": 2048, "result": format!("{:?}", r)});
                rows.push(row);
                match r {
                    Err(status) => {
                        ctx.violation(
                            "deep-nesting-crashes-decoder",
                            format!("{} nested {} ({}terminated) kill the decoding thread's process on a 2 MiB stack: {}", depth, kind, if terminated { "" } else { "un" }, status),
                            json!({"kind": "nest", "target": "bdecoder", "shape": kind, "depth": depth, "terminated": terminated, "stack_kib": 2048}),
                        );
                        break;
                    }
                    Ok(verdict) => {
                        // when it accepts, the input must be well-formed (terminated); a refusal of
                        // a very deep but well-formed input is tolerated (probe, see assumptions)
                        if verdict != "accept" && terminated && depth <= 100 {
                            ctx.violation(
                                "rejects-well-formed",
                                format!("{} properly terminated nested {} are rejected", depth, kind),
                                json!({"kind": "nest", "target": "bdecoder", "shape": kind, "depth": depth, "terminated": terminated, "stack_kib": 2048}),
                            );
                        }
                        if verdict == "accept" && !terminated {
                            ctx.violation(
                                "accepts-unterminated-container-at-eof",
                                format!("{} unterminated nested {} accepted", depth, kind),
                                json!({"kind": "nest", "target": "bdecoder", "shape": kind, "depth": depth, "terminated": terminated, "stack_kib": 2048}),
                            );
                        }
                    }
                }
            }
        }
    }
    Value::Array(rows)
}

pub fn replay(_ctx: &Ctx, r: &Value) -> i32 {
    if r["kind"] == "nest" {
        let res = run_probe(
            r["target"].as_str().unwrap(),
            r["shape"].as_str().unwrap(),
            r["depth"].as_u64().unwrap() as usize,
            r["terminated"].as_bool().unwrap(),
            r["stack_kib"].as_u64().unwrap() as usize,
        );
        println!("probe result: {:?}", res);
        return if res.is_err() { 1 } else { 0 };
    }
    let hexs = r["hex"].as_str().unwrap_or("");
    let bytes: Vec<u8> = (0..hexs.len() / 2)
        .map(|i| u8::from_str_radix(&hexs[2 * i..2 * i + 2], 16).unwrap())
        .collect();
    if r["kind"] == "input-subprocess" {
        println!("input {} is decoded together with its family in a subprocess (it may end the process):", core::show(&bytes));
        let exe = std::env::current_exe().expect("current_exe");
        let out = std::process::Command::new(exe).args(["--probe", "lens"]).output().expect("probe");
        println!("exit {:?}; last lines: {:?}", out.status, String::from_utf8_lossy(&out.stdout).lines().rev().take(2).collect::<Vec<_>>());
        return if out.status.success() { 0 } else { 1 };
    }
    println!("input: {}", core::show(&bytes));
    println!("reference: {:?}", refb::parse_all(&bytes));
    println!("BDecoder:  {:?}", core::catch(|| BDecoder::from_array(&bytes)));
    match compare(&bytes).1 {
        Some(v) => {
            println!("VIOLATION property=C16 replay=<this file>\n  class={} {}", v.class, v.summary);
            1
        }
        None => {
            println!("holds for this input");
            0
        }
    }
}
