//! C17 — the metainfo model is a faithful, safe reading of the .torrent.
//! E-ENUM: (a) totality over every short string of the C16 alphabet, (b) a grammar of well-formed
//! documents with present/absent/ill-typed/zero/huge fields against the harness's own reading,
//! every accessor called under catch_unwind, (c) create_file round trips for boundary sizes.

use crate::core::{self, Ctx, Outcome};
use crate::refb::{self, V};
use crate::strings;
use rdest::Metainfo;
use serde_json::{json, Value};

#[derive(Clone, Debug, PartialEq)]
pub struct Reading {
    pub announce: String,
    pub name: String,
    pub piece_length: u64,
    pub pieces: Vec<[u8; 20]>,
    pub files: Vec<(u64, String)>,
}

fn get<'a>(d: &'a V, key: &[u8]) -> Option<&'a V> {
    match d {
        V::Dict(e) => e.iter().rev().find(|(k, _)| k == key).map(|(_, v)| v),
        _ => None,
    }
}

/// What the document's top-level dictionary says, or None if a mandatory field is missing or
/// ill-typed (then nothing is demanded of a successful parse except safety).
pub fn read(top: &V) -> Option<Reading> {
    let announce = match get(top, b"announce")? {
        V::Str(s) => String::from_utf8(s.clone()).ok()?,
        _ => return None,
    };
    let info = get(top, b"info")?;
    let name = match get(info, b"name")? {
        V::Str(s) => String::from_utf8(s.clone()).ok()?,
        _ => return None,
    };
    let piece_length = match get(info, b"piece length")? {
        V::Int(i) if *i >= 0 => *i as u64,
        _ => return None,
    };
    let pieces = match get(info, b"pieces")? {
        V::Str(s) if s.len() % 20 == 0 => s.chunks(20).map(|c| <[u8; 20]>::try_from(c).unwrap()).collect(),
        _ => return None,
    };
    let length = match get(info, b"length") {
        Some(V::Int(i)) if *i >= 0 => Some(*i as u64),
        _ => None,
    };
    let files = match get(info, b"files") {
        Some(V::List(l)) => Some(
            l.iter()
                .filter_map(|e| match (get(e, b"length"), get(e, b"path")) {
                    (Some(V::Int(len)), Some(V::Str(p))) if *len >= 0 => {
                        String::from_utf8(p.clone()).ok().map(|p| (*len as u64, p))
                    }
                    _ => None,
                })
                .collect::<Vec<_>>(),
        ),
        _ => None,
    };
    let files = match (length, files) {
        (Some(l), None) => vec![(l, name.clone())],
        (None, Some(f)) => f,
        _ => return None,
    };
    Some(Reading { announce, name, piece_length, pieces, files })
}

pub fn check_doc(doc: &[u8]) -> (bool, Option<(&'static str, String)>) {
    let m = match core::catch(|| Metainfo::from_bencode(doc)) {
        Err(p) => return (false, Some(("from_bencode-panic", format!("document {}: {}", core::show(doc), p)))),
        Ok(Err(_)) => return (false, None),
        Ok(Ok(m)) => m,
    };
    // faithful reading
    if let Ok(vals) = refb::parse_all(doc) {
        if let Some(top) = vals.iter().find(|v| matches!(v, V::Dict(_))) {
            if let Some(want) = read(top) {
                let got_pieces: Vec<[u8; 20]> = match core::catch(|| (0..m.pieces_num()).map(|i| *m.piece(i)).collect()) {
                    Ok(p) => p,
                    Err(p) => return (true, Some(("accessor-panic", format!("piece(): {} on {}", p, core::show(doc))))),
                };
                let dbg = format!("{:?}", m);
                let files_ok = want.files.iter().all(|(l, p)| dbg.contains(&format!("File {{ length: {}, path: {:?} }}", l, p)));
                let files_dbg = format!("files: [{}]", want.files.iter().map(|(l, p)| format!("File {{ length: {}, path: {:?} }}", l, p)).collect::<Vec<_>>().join(", "));
                if m.tracker_url() != &want.announce
                    || !dbg.contains(&format!("name: {:?}", want.name))
                    || !dbg.contains(&format!("piece_length: {}", want.piece_length))
                    || got_pieces != want.pieces
                    || !files_ok
                    || !dbg.contains(&files_dbg)
                {
                    return (true, Some(("fields-differ", format!("document {} read as {} but says {:?}", core::show(doc), dbg, want))));
                }
                // a wrapping sum must not go unnoticed either
                let total: u128 = want.files.iter().map(|f| f.0 as u128).sum();
                match core::catch(|| m.total_length()) {
                    Ok(t) if t as u128 == total => {}
                    Ok(t) => return (true, Some(("total-length-wrong", format!("document {}: total_length() = {} but the lengths add up to {}", core::show(doc), t, total)))),
                    Err(p) => return (true, Some(("accessor-panic-length-overflow", format!("total_length(): {} on {}", p, core::show(doc))))),
                }
            }
        }
    }
    // every accessor is safe for every valid piece index
    let n = match core::catch(|| m.pieces_num()) {
        Ok(n) => n,
        Err(p) => return (true, Some(("accessor-panic", format!("pieces_num(): {}", p)))),
    };
    for i in 0..n {
        if let Err(p) = core::catch(|| {
            let _ = m.piece(i);
            m.piece_length(i)
        }) {
            let class = if p.contains("divisor of zero") || p.contains("divide by zero") {
                "accessor-panic-piece-length-zero"
            } else if p.contains("overflow") {
                "accessor-panic-length-overflow"
            } else {
                "accessor-panic"
            };
            return (true, Some((class, format!("piece_length({}): {} on {}", i, p, core::show(doc)))));
        }
    }
    for (name, r) in [
        ("tracker_url", core::catch(|| { let _ = m.tracker_url(); })),
        ("total_length", core::catch(|| { let _ = m.total_length(); })),
        ("info_hash", core::catch(|| { let _ = m.info_hash(); })),
        ("file_piece_ranges", core::catch(|| { let _ = m.file_piece_ranges(); })),
    ] {
        if let Err(p) = r {
            let class = if p.contains("divisor of zero") || p.contains("divide by zero") {
                "accessor-panic-piece-length-zero"
            } else if p.contains("overflow") {
                "accessor-panic-length-overflow"
            } else {
                "accessor-panic"
            };
            return (true, Some((class, format!("{}(): {} on {}", name, p, core::show(doc)))));
        }
    }
    (true, None)
}

fn opt_entries(key: &str, choices: &[Option<V>]) -> Vec<Option<(Vec<u8>, V)>> {
    choices.iter().map(|c| c.clone().map(|v| (key.as_bytes().to_vec(), v))).collect()
}

pub fn grammar(thorough: bool) -> Vec<Vec<u8>> {
    let big = 1i64 << 40;
    let announce = opt_entries("announce", &[Some(refb::s("http://t/a")), None, Some(V::Int(1))]);
    let names = opt_entries("name", &[Some(refb::s("n")), Some(V::Str(vec![0xff, 0xfe])), None, Some(V::Int(3))]);
    let plens: Vec<Option<V>> = [-1, 0, 1, 5, 16384, big, i64::MAX].iter().map(|i| Some(V::Int(*i))).chain([None, Some(refb::s("5"))]).collect();
    let plens = opt_entries("piece length", &plens);
    let pieces = opt_entries(
        "pieces",
        &[
            Some(V::Str(vec![])),
            Some(V::Str((0..20).collect())),
            Some(V::Str((0..40).collect())),
            Some(V::Str((0..19).collect())),
            None,
            Some(V::Int(20)),
        ],
    );
    let lengths: Vec<Option<V>> = [0, 1, 5, big, i64::MAX, -1].iter().map(|i| Some(V::Int(*i))).chain([None, Some(refb::s("5"))]).collect();
    let lengths = opt_entries("length", &lengths);
    let fe = |len: V, path: V| refb::dict(vec![("length", len), ("path", path)]);
    let file_entries: Vec<V> = vec![
        fe(V::Int(0), refb::s("z")),
        fe(V::Int(1), refb::s("a")),
        fe(V::Int(big), refb::s("d/b")),
        fe(V::Int(i64::MAX), refb::s("c")),
        fe(V::Int(-1), refb::s("neg")),
        fe(V::Int(2), V::Str(vec![0xff])),
        refb::dict(vec![("length", V::Int(2))]),
        V::Int(9),
    ];
    let mut file_lists: Vec<Option<V>> = vec![None, Some(V::List(vec![])), Some(V::Int(1))];
    for a in &file_entries {
        file_lists.push(Some(V::List(vec![a.clone()])));
        for b in &file_entries {
            file_lists.push(Some(V::List(vec![a.clone(), b.clone()])));
            if thorough {
                for c in &file_entries[..4] {
                    file_lists.push(Some(V::List(vec![a.clone(), b.clone(), c.clone()])));
                }
            }
        }
    }
    // three lengths whose sum leaves u64 (two i64::MAX do not)
    file_lists.push(Some(V::List(vec![file_entries[3].clone(), file_entries[3].clone(), file_entries[3].clone()])));
    let files = opt_entries("files", &file_lists);
    let extras: [Option<(Vec<u8>, V)>; 2] = [None, Some((b"comment".to_vec(), refb::dict(vec![("piece length", V::Int(7)), ("name", refb::s("x"))])))];

    let mut docs = vec![];
    let mut push = |a: &Option<(Vec<u8>, V)>, info: Vec<&Option<(Vec<u8>, V)>>, extra: &Option<(Vec<u8>, V)>| {
        let info_entries: Vec<(Vec<u8>, V)> = info.into_iter().filter_map(|e| e.clone()).collect();
        let mut top: Vec<(Vec<u8>, V)> = vec![];
        if let Some(a) = a {
            top.push(a.clone());
        }
        if let Some(e) = extra {
            top.push(e.clone());
        }
        top.push((b"info".to_vec(), V::Dict(info_entries)));
        docs.push(refb::enc(&V::Dict(top)));
    };
    // full product of the numeric/layout fields with a good name/announce ...
    for pl in &plens {
        for p in &pieces {
            for l in &lengths {
                for f in &files {
                    if l.is_some() && f.is_some() && !matches!(f, Some((_, V::List(x))) if x.len() <= 1) {
                        continue; // length + files conflicts are covered with short lists only
                    }
                    push(&announce[0], vec![l, f, &names[0], pl, p], &extras[0]);
                }
            }
        }
    }
    // ... and the announce/name/extra-key variants with a reduced layout alphabet
    for a in &announce {
        for n in &names {
            for ex in &extras {
                for pl in [&plens[0], &plens[1], &plens[3], &plens[7]] {
                    for p in [&pieces[1], &pieces[3], &pieces[4]] {
                        for (l, f) in [(&lengths[2], &files[0]), (&lengths[6], &files[3]), (&lengths[6], &files[0])] {
                            push(a, vec![l, f, n, pl, p], ex);
                        }
                    }
                }
            }
        }
    }
    docs.sort();
    docs.dedup();
    docs
}

/// `prior`: a torrent for a file of that length (and a longer tracker address) was created under
/// the same name just before, so `<name>.torrent` already exists when the create under test runs.
/// `via_link`: the path handed to create_file is a symbolic link to the file (kept elsewhere under
/// another name): the torrent describes the file reached through it, under the name of the path.
fn create_file_case(dir: &std::path::Path, name: &str, len: usize, prior: Option<usize>, via_link: bool) -> Option<(&'static str, String)> {
    core::wipe_dir(dir);
    let sub = dir.join("src");
    std::fs::create_dir_all(&sub).unwrap();
    let named = sub.join(name);
    let path = if via_link {
        std::fs::create_dir_all(dir.join("store")).unwrap();
        let target = dir.join("store").join("blob-0001");
        std::fs::write(&target, b"").unwrap();
        std::os::unix::fs::symlink(&target, &named).unwrap();
        target
    } else {
        named.clone()
    };
    if let Some(plen) = prior {
        std::fs::write(&path, vec![0x5au8; plen]).unwrap();
        match core::catch(|| Metainfo::create_file(&named, &"http://a-much-longer-tracker-address.example:6969/announce/with/a/path".to_string())) {
            Ok(Ok(())) => {}
            other => return Some(("create_file-fails", format!("prior create, len {}: {:?}", plen, other.map(|r| r.map_err(|e| format!("{:?}", e)))))),
        }
    }
    let content: Vec<u8> = (0..len).map(|i| ((i * 7 + i / 251) % 256) as u8).collect();
    std::fs::write(&path, &content).unwrap();
    match core::catch(|| Metainfo::create_file(&named, &"http://tracker/announce".to_string())) {
        Err(p) => return Some(("create_file-panic", format!("len {}: {}", len, p))),
        Ok(Err(e)) => return Some(("create_file-fails", format!("len {} name {:?}: {:?}", len, name, e))),
        Ok(Ok(())) => {}
    }
    let tpath = dir.join(format!("{}.torrent", name));
    let m = match core::catch(|| Metainfo::from_file(&tpath)) {
        Ok(Ok(m)) => m,
        other => return Some(("created-torrent-unreadable", format!("len {} name {:?}: {:?}", len, name, other.map(|r| r.map(|_| ()))))),
    };
    let want: Vec<[u8; 20]> = content.chunks(262144).map(core::sha1).collect();
    let got: Vec<[u8; 20]> = (0..m.pieces_num()).map(|i| *m.piece(i)).collect();
    let dbg = format!("{:?}", m);
    if got != want || m.total_length() != len as u64 || !dbg.contains(&format!("name: {:?}", name)) || m.tracker_url() != "http://tracker/announce" {
        return Some(("created-torrent-differs", format!("len {} name {:?}: pieces {} (want {}), total {}, {}", len, name, got.len(), want.len(), m.total_length(), &dbg[..dbg.len().min(200)])));
    }
    None
}

/// Deep nesting goes through the recursive decoder: probe in subprocesses (a stack overflow aborts).
fn nesting_probe(ctx: &Ctx) -> Vec<Value> {
    let mut rows = vec![];
    for kind in ["list", "dict"] {
        for depth in [100usize, 1000, 10_000, 100_000] {
            let r = crate::c16::run_probe("metainfo", kind, depth, true, 2048);
            rows.push(json!({"kind": kind, "depth": depth, "result": format!("{:?}", r)}));
            if let Err(status) = r {
                ctx.violation(
                    "deep-nesting-crashes-parser",
                    format!("{} nested {} kill the process when parsed on a 2 MiB stack: {}", depth, kind, status),
                    json!({"kind": "nest", "target": "metainfo", "shape": kind, "depth": depth, "terminated": true, "stack_kib": 2048}),
                );
                break;
            }
        }
    }
    rows
}

pub fn run(ctx: &Ctx) -> Outcome {
    // (a) totality
    let max_len = ctx.tier.pick(6, 8);
    let accs = strings::for_all(max_len, || (0u64, 0u64), |acc, s| {
        acc.0 += 1;
        let (accepted, v) = check_doc(s);
        if accepted {
            acc.1 += 1;
        }
        if let Some((class, summary)) = v {
            ctx.violation(class, summary, json!({"kind": "doc", "hex": core::hex(s), "text": core::show(s)}));
        }
    });
    let sigma: u64 = accs.iter().map(|a| a.0).sum();

    // (b) grammar
    let docs = grammar(ctx.tier == core::Tier::Thorough);
    let res = core::par_map(&docs, |_| core::set_quiet_panics(true), |_, _, d| check_doc(d));
    let mut accepted = 0u64;
    for (d, (acc, v)) in docs.iter().zip(res.iter()) {
        if *acc {
            accepted += 1;
        }
        if let Some((class, summary)) = v {
            ctx.violation(class, summary.clone(), json!({"kind": "doc", "hex": core::hex(d), "text": core::show(d)}));
        }
    }
    if accepted < 100 {
        ctx.machinery_error(format!("vacuity: only {} grammar documents accepted", accepted));
    }

    // (b2) damaged torrents: every proper prefix and every single-byte deletion of every accepted
    // grammar document (a .torrent that lost its tail or one byte): must be read or refused, never
    // panic, and whatever is accepted must be safe to use
    let accepted_docs: Vec<&Vec<u8>> = docs.iter().zip(res.iter()).filter(|(_, r)| r.0).map(|(d, _)| d).collect();
    let dmg = core::par_map(&accepted_docs, |_| core::set_quiet_panics(true), |_, _, d| {
        let mut n = 0u64;
        let mut acc = 0u64;
        let mut bad = vec![];
        for cut in 0..d.len() {
            let variants = [d[..cut].to_vec(), [&d[..cut], &d[cut + 1..]].concat()];
            for v in variants {
                n += 1;
                let (a, viol) = check_doc(&v);
                if a {
                    acc += 1;
                }
                if let Some(x) = viol {
                    if bad.len() < 2 {
                        bad.push((x, v));
                    }
                }
            }
        }
        (n, acc, bad)
    });
    let mut damaged = 0u64;
    let mut damaged_accepted = 0u64;
    for (n, acc, bad) in dmg {
        damaged += n;
        damaged_accepted += acc;
        for ((class, summary), v) in bad {
            ctx.violation(class, format!("(damaged copy of an acceptable torrent) {}", summary), json!({"kind": "doc", "hex": core::hex(&v), "text": core::show(&v)}));
        }
    }

    // (c) create_file round trips
    let dir = core::private_cwd("c17", "w");
    let mut created = 0;
    let sizes = [0usize, 1, 262143, 262144, 262145, 524288, 524289];
    for name in ["f.bin", "with space", "\u{fc}n\u{ef}.dat"] {
        for &len in &sizes {
            for (prior, via_link) in [(None, false), (Some(0usize), false), (Some(len + 2 * 262144 + 1), false), (None, true)] {
                created += 1;
                if let Some((class, summary)) = create_file_case(&dir, name, len, prior, via_link) {
                    ctx.violation(class, format!("{}{}{}", summary, match prior { Some(p) => format!(" [a torrent for a {}-byte file of the same name existed before]", p), None => String::new() }, if via_link { " [the path given is a symbolic link to the file]" } else { "" }), json!({"kind": "create", "name": name, "len": len, "prior": prior, "via_link": via_link}));
                }
            }
        }
    }

    let mut o = Outcome::new("exploration");
    o.set("evaluations", json!(sigma + docs.len() as u64 + created + damaged));
    o.set("damaged_documents", json!(damaged));
    o.set("damaged_documents_accepted", json!(damaged_accepted));
    o.set("distinct_nontrivial", json!(accepted + created));
    o.set("rule", json!(format!("(a) every string over the C16 alphabet of length 0..={} through Metainfo::from_bencode (totality); (b) grammar documents: piece length x pieces x length x files (0..{} entries incl. malformed ones) in full product, announce/name/extra-key variants over a reduced layout alphabet, all distinct after dedup; on success fields are compared with the harness's reading and tracker_url/pieces_num/piece(i)/piece_length(i)/total_length/info_hash/file_piece_ranges are called under catch_unwind; (b2) every proper prefix and every single-byte deletion of every accepted grammar document, same obligations; (c) create_file for 7 boundary sizes x 3 names x (fresh directory | after a create of a 0-byte file of the same name | after a create of a file two chunks longer with a longer tracker address | the path given is a symbolic link to the file). Non-trivial = grammar documents accepted by from_bencode plus create_file cases.", max_len, if ctx.tier == core::Tier::Thorough { 3 } else { 2 })));
    o.set("sigma_strings", json!(sigma));
    o.set("grammar_documents", json!(docs.len()));
    o.set("grammar_accepted", json!(accepted));
    o.set("create_file_cases", json!(created));
    let picks = ctx.seeded_pick(docs.len(), 4);
    o.set("samples", Value::Array(picks.iter().map(|i| json!({"doc": core::show(&docs[*i]), "accepted": res[*i].0})).collect()));
    o.set("nesting_ladder", Value::Array(nesting_probe(ctx)));
    o.set("exhaustive", json!(true));
    o.assume("harness reading of a document = last occurrence of each key, malformed `files` entries skipped (as the repository's own tests demand), `path` taken as one string as this implementation does");
    o.assume("built with overflow-checks on, as cargo test / cargo run (dev profile) do; a wrapped total is also reported through the explicit comparison");
    o
}

pub fn replay(_ctx: &Ctx, r: &Value) -> i32 {
    if r["kind"] == "nest" {
        return crate::c16::replay(_ctx, r);
    }
    if r["kind"] == "create" {
        let dir = core::private_cwd("c17", "w");
        let res = create_file_case(&dir, r["name"].as_str().unwrap(), r["len"].as_u64().unwrap() as usize, r["prior"].as_u64().map(|x| x as usize), r["via_link"].as_bool().unwrap_or(false));
        println!("{:?}", res);
        return if res.is_some() { 1 } else { 0 };
    }
    let hexs = r["hex"].as_str().unwrap_or("");
    let bytes: Vec<u8> = (0..hexs.len() / 2).map(|i| u8::from_str_radix(&hexs[2 * i..2 * i + 2], 16).unwrap()).collect();
    println!("document: {}", core::show(&bytes));
    println!("from_bencode: {:?}", core::catch(|| Metainfo::from_bencode(&bytes)));
    match check_doc(&bytes).1 {
        Some((class, s)) => {
            println!("VIOLATION property=C17 replay=<this file>\n  class={} {}", class, s);
            1
        }
        None => {
            println!("holds for this document");
            0
        }
    }
}
