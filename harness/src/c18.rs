//! C18 — the tracker announce names the right torrent and client.
//! The real `TrackerClient::run` is executed; the HTTP seam hands the harness the request that
//! reqwest built (final URL) and answers it. Inputs are enumerated (E-ENUM), the oracle is the
//! harness's own URL splitter and percent-decoder.

use crate::core::{self, Ctx, Outcome};
use crate::httpfake;
use crate::refb::{self, V};
use rdest::{Metainfo, TrackerClient};
use serde_json::{json, Value};
use std::cell::RefCell;
use std::rc::Rc;

pub const URLS: [&str; 19] = [
    "http://tracker.example/announce",
    "http://tracker.example:8080/a/b/announce",
    "http://t.example/announce?key=1",
    "http://t.example/announce?key=1&x=%20y",
    "http://t.example/announce?",
    // scheme and host are case-insensitive; IP literals
    "HTTP://tracker.example/announce",
    "Https://T.Example:8443/Announce?passkey=K1",
    "http://[::1]:8080/announce",
    "http://127.0.0.1:6969/announce",
    // characters outside ASCII in the path and in a parameter (the request carries them
    // percent-encoded; compared after decoding)
    "http://t.example/ann\u{f6}unce?key=1",
    "http://t.example/\u{4e2d}\u{6587}/announce?k=\u{e9}t\u{e9}&z=1",
    // a fragment (never sent to a server) behind the path and behind a query
    "http://t.example/announce#section",
    "http://t.example/announce?key=1#section",
    // parameters of the tracker whose names contain / equal names of the client's own parameters
    "http://t.example/announce?transport=tcp&days_left=30&super_peer_id=7&xinfo_hash=1",
    "http://t.example/announce?numwant=5&event=x&uploaded=7",
    // a question mark that exists only inside the fragment
    "http://t.example/announce#section?2",
    "http://t.example/announce#what?",
    // existing parameters whose percent-escapes are not UTF-8 (binary pass keys)
    "http://t.example/announce?passkey=%FF%FE%00abc%80",
    "http://t.example/announce?k=ab%C3&z=%80",
];

/// Scheme and host in lower case (they are case-insensitive), the rest untouched.
fn normalise_base(base: &str) -> String {
    match base.split_once("://") {
        Some((scheme, rest)) => {
            let (host, path) = match rest.find('/') {
                Some(p) => (&rest[..p], &rest[p..]),
                None => (rest, "/"),
            };
            format!("{}://{}{}", scheme.to_lowercase(), host.to_lowercase(), path)
        }
        None => base.to_string(),
    }
}
pub const IDS: [&[u8; 20]; 5] = [
    b"AAAAABBBBBCCCCCDDDDD",
    b"00000000000000000000",
    b"zzzzzzzzzzZZZZZZZZZZ",
    b"a1B2c3D4e5F6g7H8i9J0",
    b"9Z8y7X6w5V4u3T2s1R0q",
];
/// Total lengths. Those above i64::MAX can only be written as a multi-file torrent (one bencoded
/// integer is an i64); 2^40 is also written in both forms.
pub const LENGTHS: [u64; 11] = [0, 1, 1 << 40, (1 << 31) - 1, 1 << 32, (1 << 53) + 1, i64::MAX as u64, 1 << 63, (1 << 63) + 1, u64::MAX, (1 << 40) + 1];

#[derive(Clone, Debug)]
pub struct Case {
    pub hash: [u8; 20],
    pub url: usize,
    pub id: usize,
    pub len: usize,
    /// Tracker outcomes before the good reply: 0 refused, 1 HTTP 500, 2 garbage body, 3 failure reason.
    pub faults: Vec<usize>,
}

fn metainfo(url: &str, total: u64, hash: [u8; 20]) -> Metainfo {
    // multi-file form for totals that do not fit one integer, and for 2^40 + 1
    let multi = total > i64::MAX as u64 || total == (1 << 40) + 1;
    let mut info = vec![];
    if multi {
        let mut left = total;
        let mut files = vec![];
        let mut k = 0;
        while left > 0 || files.is_empty() {
            let part = left.min(if total > i64::MAX as u64 { i64::MAX as u64 } else { 1 << 39 });
            files.push(refb::dict(vec![("length", V::Int(part as i64)), ("path", refb::s(&format!("f{}", k)))]));
            left -= part;
            k += 1;
        }
        info.push(("files", V::List(files)));
    } else {
        info.push(("length", V::Int(total as i64)));
    }
    info.push(("name", refb::s("n")));
    info.push(("piece length", V::Int(16384)));
    info.push(("pieces", V::Str(vec![7; 20])));
    let doc = refb::enc(&refb::dict(vec![("announce", refb::s(url)), ("info", refb::dict(info))]));
    metainfo_from(doc, hash)
}

fn metainfo_from(doc: Vec<u8>, hash: [u8; 20]) -> Metainfo {
    Metainfo::from_bencode(&doc).expect("harness torrent must parse").verif_with_info_hash(hash)
}

/// application/x-www-form-urlencoded decoding: %XX and '+'.
fn pct_decode(s: &str) -> Option<Vec<u8>> {
    let b = s.as_bytes();
    let mut out = vec![];
    let mut i = 0;
    while i < b.len() {
        match b[i] {
            b'%' => {
                if i + 3 > b.len() {
                    return None;
                }
                let h = std::str::from_utf8(&b[i + 1..i + 3]).ok()?;
                out.push(u8::from_str_radix(h, 16).ok()?);
                i += 3;
            }
            b'+' => {
                out.push(b' ');
                i += 1;
            }
            c => {
                out.push(c);
                i += 1;
            }
        }
    }
    Some(out)
}

fn split_url(u: &str) -> (String, Vec<(Vec<u8>, Vec<u8>)>) {
    // the fragment is not part of what a server is sent
    let u = u.split('#').next().unwrap();
    let (base, query) = match u.find('?') {
        Some(p) => (&u[..p], &u[p + 1..]),
        None => (u, ""),
    };
    let base = base.split('#').next().unwrap().to_string();
    let mut pairs = vec![];
    for part in query.split('&') {
        if part.is_empty() {
            continue;
        }
        let (k, v) = match part.find('=') {
            Some(p) => (&part[..p], &part[p + 1..]),
            None => (part, ""),
        };
        pairs.push((pct_decode(k).unwrap_or_else(|| k.as_bytes().to_vec()), pct_decode(v).unwrap_or_else(|| v.as_bytes().to_vec())));
    }
    (base, pairs)
}

/// Runs the real tracker client until its announce succeeds; returns every request it sent.
pub fn run_case(rt: &tokio::runtime::Runtime, c: &Case) -> Result<Vec<String>, String> {
    let captured: Rc<RefCell<Vec<String>>> = Rc::new(RefCell::new(vec![]));
    let cap2 = captured.clone();
    let faults = c.faults.clone();
    rdest::verif::set_http(Some(Box::new(move |req: &reqwest::Request| {
        let n = cap2.borrow().len();
        cap2.borrow_mut().push(format!("{} {}", req.method(), req.url().as_str()));
        match faults.get(n) {
            Some(0) => httpfake::refused(),
            Some(1) => httpfake::respond(500, b"oops".to_vec()),
            Some(2) => httpfake::respond(200, b"<html>".to_vec()),
            Some(_) => httpfake::respond(200, b"d14:failure reason4:busye".to_vec()),
            None => httpfake::respond(200, b"d8:intervali900e5:peerslee".to_vec()),
        }
    })));
    let m = metainfo(URLS[c.url], LENGTHS[c.len], c.hash);
    let id = *IDS[c.id];
    let r = core::catch(|| {
        rt.block_on(async {
            let (tx, mut rx) = tokio::sync::mpsc::channel(64);
            let mut tc = TrackerClient::new(&id, m, tx);
            tc.run().await;
            rx.try_recv().ok()
        })
    });
    rdest::verif::set_http(None);
    match r {
        Err(p) => Err(format!("tracker client panicked: {}", p)),
        Ok(_) => {
            let cap = captured.borrow();
            if cap.len() != c.faults.len() + 1 {
                return Err(format!("{} requests sent for {} failed announces and a good one", cap.len(), c.faults.len()));
            }
            Ok(cap.clone())
        }
    }
}

pub fn judge(c: &Case, request: &str) -> Option<(&'static str, String)> {
    let (method, url) = request.split_once(' ').unwrap_or(("", request));
    if method != "GET" {
        return Some(("not-a-get", request.to_string()));
    }
    let (base, pairs) = split_url(url);
    let (want_base, want_pairs) = split_url(URLS[c.url]);
    let has_query = URLS[c.url].contains('?');
    let tag = |s: &'static str, q: &'static str| if has_query { q } else { s };
    let dec = |b: &str| { let n = normalise_base(b); pct_decode(&n).unwrap_or_else(|| n.into_bytes()) };
    if dec(&base) != dec(&want_base) {
        return Some((tag("wrong-host-or-path", "announce-url-with-query-mangled"), format!("request {} does not go to {}", url, want_base)));
    }
    for (k, v) in &want_pairs {
        if !pairs.iter().any(|(k2, v2)| k2 == k && v2 == v) {
            return Some((
                "announce-url-with-query-mangled",
                format!("request {} lost the announce URL's parameter {}={}", url, core::show(k), core::show(v)),
            ));
        }
    }
    let hashes: Vec<&Vec<u8>> = pairs.iter().filter(|(k, _)| k == b"info_hash").map(|(_, v)| v).collect();
    if hashes.len() != 1 || hashes[0].as_slice() != &c.hash[..] {
        return Some((
            tag("info-hash-parameter-wrong", "announce-url-with-query-mangled"),
            format!("request {}: info_hash decodes to {:?}, torrent hash {}", url, hashes.iter().map(|h| core::hex(h)).collect::<Vec<_>>(), core::hex(&c.hash)),
        ));
    }
    let one = |key: &[u8]| -> Option<Vec<u8>> {
        let v: Vec<_> = pairs.iter().filter(|(k, _)| k == key).collect();
        if v.len() == 1 {
            Some(v[0].1.clone())
        } else {
            None
        }
    };
    if one(b"peer_id").as_deref() != Some(&IDS[c.id][..]) {
        return Some(("peer-id-parameter-wrong", format!("request {}", url)));
    }
    if one(b"port").as_deref() != Some(b"6881") {
        return Some(("port-parameter-wrong", format!("request {}", url)));
    }
    if one(b"left") != Some(LENGTHS[c.len].to_string().into_bytes()) {
        return Some(("left-parameter-wrong", format!("request {}", url)));
    }
    None
}

pub fn hashes(thorough: bool) -> Vec<[u8; 20]> {
    let mut v = vec![];
    let base: [u8; 20] = *b"\x01\x23\x45\x67\x89\xab\xcd\xef\x10\x32\x54\x76\x98\xba\xdc\xfe\x0f\x1e\x2d\x3c";
    let positions: &[usize] = if thorough { &[0, 1, 5, 10, 18, 19] } else { &[0, 10, 19] };
    for b in 0..=255u8 {
        for &p in positions {
            let mut h = base;
            h[p] = b;
            v.push(h);
        }
        v.push([b; 20]);
    }
    v
}

/// Re-announces of a running session (full-session world): a seeder delivers `deliver` pieces, then
/// the other connection ends and the client, out of candidates, announces again. That request must
/// name the bytes still left to download at that moment (and everything else as the first one).
pub fn reannounce_case(dir: &std::path::PathBuf, mask: u8, verbose: bool) -> (u64, Option<(&'static str, String)>) {
    use crate::fixture::Torrent;
    use crate::fullworld::{FEv, FullWorld, TrackerOutcome};
    use crate::refwire::{self, Msg};
    use crate::world::peer_cfg;
    // pieces of 5, 5 and 3 bytes; the seeder owns (and delivers) the pieces of `mask`
    let t = Torrent::new("t", 5, &[("f", 13)], true);
    let cfgs = vec![peer_cfg(0, true), peer_cfg(1, true)];
    let mut w = FullWorld::new(&t, &cfgs, vec![TrackerOutcome::Good(vec![0, 1])], TrackerOutcome::Good(vec![]), dir);
    let mut steps = 3u64;
    let (idp, idq) = (w.peers[0].cfg.id, w.peers[1].cfg.id);
    let bits: Vec<bool> = (0..3).map(|i| mask >> i & 1 == 1).collect();
    let deliver = bits.iter().filter(|b| **b).count();
    w.step(&FEv::Feed(0, [refwire::encode(&refwire::handshake(t.meta.info_hash(), &idp)), refwire::encode(&Msg::Bitfield(refwire::bitfield_bytes(&bits))), refwire::encode(&Msg::Unchoke)].concat()));
    w.step(&FEv::Feed(1, refwire::encode(&refwire::handshake(t.meta.info_hash(), &idq))));
    let owned = |w: &FullWorld| -> Vec<usize> { w.snap().map(|s| s.statuses.iter().enumerate().filter(|(_, x)| **x == rdest::verif::Status::Have).map(|(i, _)| i).collect()).unwrap_or_default() };
    let mut answered = 0usize;
    for _ in 0..8 {
        if owned(&w).len() >= deliver {
            break;
        }
        let reqs: Vec<(u32, u32, u32)> = w.peers[0].conn.as_ref().map(|c| c.msgs.iter().filter_map(|m| if let Msg::Request(i, b, l) = m { Some((*i, *b, *l)) } else { None }).collect()).unwrap_or_default();
        if answered >= reqs.len() {
            break;
        }
        let (i, b, l) = reqs[answered];
        answered += 1;
        w.step(&FEv::Feed(0, refwire::encode(&Msg::Piece(i, b, t.pieces[i as usize][b as usize..(b + l) as usize].to_vec()))));
        steps += 1;
    }
    let have = owned(&w);
    if have != (0..3).filter(|i| bits[*i]).collect::<Vec<_>>() {
        return (steps, Some(("MACHINERY", format!("wanted pieces {:?} owned before the re-announce, got {:?}: {}", bits, have, w.session_key()))));
    }
    let left_before: u64 = 13 - have.iter().map(|i| t.pieces[*i].len() as u64).sum::<u64>();
    let n_before = w.announces.borrow().len();
    w.step(&FEv::Close(1));
    steps += 1;
    let reqs = w.announces.borrow().clone();
    if verbose {
        println!("pieces owned {:?} (left {} bytes); announces: {:#?}", have, left_before, reqs);
    }
    if reqs.len() != n_before + 1 {
        return (steps, Some(("MACHINERY", format!("expected one re-announce after the other connection ended, saw {} (before: {})", reqs.len(), n_before))));
    }
    let (_, pairs) = split_url(&reqs[reqs.len() - 1]);
    let left: Vec<&Vec<u8>> = pairs.iter().filter(|(k, _)| k == b"left").map(|(_, v)| v).collect();
    if left.len() != 1 || left[0].as_slice() != left_before.to_string().as_bytes() {
        return (steps, Some(("left-parameter-wrong", format!("re-announce of a session that owns pieces {:?} of 3 (sizes 5, 5, 3; {} of 13 bytes still to download) says left={:?}: {}", have, left_before, left.iter().map(|v| core::show(v)).collect::<Vec<_>>(), reqs[reqs.len() - 1]))));
    }
    let hashes: Vec<&Vec<u8>> = pairs.iter().filter(|(k, _)| k == b"info_hash").map(|(_, v)| v).collect();
    if hashes.len() != 1 || hashes[0].as_slice() != &t.meta.info_hash()[..] {
        return (steps, Some(("info-hash-parameter-wrong", format!("re-announce {}", reqs[reqs.len() - 1]))));
    }
    if !pairs.iter().any(|(k, v)| k == b"peer_id" && v.as_slice() == &crate::world::OWN_ID[..]) || !pairs.iter().any(|(k, v)| k == b"port" && v == b"6881") {
        return (steps, Some(("peer-id-parameter-wrong", format!("re-announce {}", reqs[reqs.len() - 1]))));
    }
    (steps, None)
}

pub fn run(ctx: &Ctx) -> Outcome {
    let hs = hashes(ctx.tier == core::Tier::Thorough);
    let mut cases = vec![];
    for h in &hs {
        for url in 0..URLS.len() {
            for id in 0..IDS.len() {
                for len in 0..LENGTHS.len() {
                    // quick: ids and lengths vary only with the first URL (they do not interact with the hash)
                    if ctx.tier == core::Tier::Quick && url != 0 && (id != 0 || len != 1) {
                        continue;
                    }
                    cases.push(Case { hash: *h, url, id, len, faults: vec![] });
                }
            }
        }
    }
    // retries: every fault word of length <= 2 (thorough: <= 3) before the good reply, for every
    // URL / id / length with one hash, and one failure for every hash
    let mut words: Vec<Vec<usize>> = vec![];
    for a in 0..4 {
        words.push(vec![a]);
        for b in 0..4 {
            words.push(vec![a, b]);
            if ctx.tier == core::Tier::Thorough {
                for c in 0..4 {
                    words.push(vec![a, b, c]);
                }
            }
        }
    }
    for url in 0..URLS.len() {
        for id in 0..IDS.len() {
            for len in 0..LENGTHS.len() {
                for w in &words {
                    if ctx.tier == core::Tier::Quick && (id + len + w.len()) % 2 == 1 && url != 0 {
                        continue;
                    }
                    cases.push(Case { hash: hs[7 % hs.len()], url, id, len, faults: w.clone() });
                }
            }
        }
    }
    for (k, h) in hs.iter().enumerate() {
        cases.push(Case { hash: *h, url: k % URLS.len(), id: 0, len: 1, faults: vec![k % 4] });
    }
    let res = core::par_map(
        &cases,
        |_| {
            core::set_quiet_panics(true);
            httpfake::runtime()
        },
        |rt, _, c| match run_case(rt, c) {
            Ok(reqs) => {
                let verdict = reqs.iter().enumerate().find_map(|(n, r)| judge(c, r).map(|(class, why)| (if n == 0 { class } else { "retry-request-differs" }, format!("request #{} of {}: {} [{}]", n + 1, reqs.len(), why, class))));
                (Some(reqs.last().unwrap().clone()), verdict)
            }
            Err(e) => (None, Some(("tracker-client-failed", e))),
        },
    );
    let mut distinct = std::collections::BTreeSet::new();
    for (c, (req, v)) in cases.iter().zip(res.iter()) {
        if let Some(r) = req {
            distinct.insert(r.clone());
        }
        if let Some((class, summary)) = v {
            ctx.violation(class, summary.clone(), json!({"hash": core::hex(&c.hash), "url": c.url, "id": c.id, "len": c.len, "faults": c.faults, "announce": URLS[c.url]}));
        }
    }
    // re-announces of a running session
    let mut re_rows = vec![];
    {
        let dir = core::private_cwd("c18", "re");
        core::set_quiet_panics(true);
        for mask in 0..7u8 {
            let (n, v) = reannounce_case(&dir, mask, false);
            re_rows.push(json!({"pieces_owned_at_re_announce_mask": mask, "events": n, "ok": v.is_none()}));
            if let Some((class, why)) = v {
                if class == "MACHINERY" {
                    ctx.machinery_error(why);
                } else {
                    ctx.violation(class, why, json!({"kind": "reannounce", "mask": mask}));
                }
            }
        }
    }
    let mut o = Outcome::new("exploration");
    o.set("re_announce_cases", Value::Array(re_rows));
    o.set("evaluations", json!(cases.len() + 7));
    o.set("distinct_nontrivial", json!(distinct.len()));
    o.set("rule", json!("info-hash = a fixed 20-byte pattern with every byte value 0..=255 substituted at the listed positions, plus all-equal hashes; x 19 announce URLs (plain, port+path, with one / two query parameters, trailing ?, upper-case scheme, mixed-case https host with port and query, IPv6 literal, IPv4 literal with port, non-ASCII characters in the path before a query, non-ASCII in path and in a parameter value, a #fragment behind the path and behind a query, tracker parameters whose names contain (transport, days_left, super_peer_id, xinfo_hash) or equal (numwant, event, uploaded) names of the client's own parameters, a question mark only inside the fragment, existing parameters with percent-escapes that are not UTF-8; bases compared after percent-decoding, fragments dropped) x 5 alphanumeric peer ids x total lengths {0, 1, 2^40, 2^31-1, 2^32, 2^53+1, 2^63-1, 2^63, 2^63+1, 2^64-1, 2^40+1}, the last four as multi-file torrents (quick: ids/lengths only vary for the first URL). Plus retries: every word of <= 2 (thorough 3) failed announces (refused / HTTP 500 / garbage / failure reason) before the good reply for every URL, id and length, and one failure for every hash; EVERY request of a case is judged, not only the first. Each case runs the real TrackerClient::run over the HTTP seam (paused clock, so the 1 s retry delay is virtual); distinct_nontrivial = number of distinct request URLs captured. Plus re-announces of a running session (full-session world, 3 pieces of 5+5+3 bytes): for every proper subset of the pieces (owned by the seeder and delivered) the other connection then ends, the client is out of candidates and announces again; that request must carry left = bytes of the pieces still missing, the info-hash, peer id and port."));
    o.set("hashes", json!(hs.len()));
    let picks = ctx.seeded_pick(cases.len(), 4);
    o.set("samples", Value::Array(picks.iter().map(|i| json!({"announce": URLS[cases[*i].url], "hash": core::hex(&cases[*i].hash), "request": res[*i].0})).collect()));
    o.set("exhaustive", json!(true));
    o.assume("the request is observed after reqwest built it (method + final URL), not on a socket; a loopback round trip of the unseamed path is part of the C19/C02 conformance replays");
    o.assume("nothing is claimed for announce URLs, ids or lengths outside the listed ones");
    o
}

pub fn replay(_ctx: &Ctx, r: &Value) -> i32 {
    if r["kind"] == "reannounce" {
        let dir = core::private_cwd("c18", "replay");
        return match reannounce_case(&dir, r["mask"].as_u64().unwrap() as u8, true).1 {
            Some((class, s)) => {
                println!("VIOLATION property=C18 replay=<this file>\n  class={} {}", class, s);
                1
            }
            None => {
                println!("holds for this case");
                0
            }
        };
    }
    let hexs = r["hash"].as_str().unwrap();
    let mut hash = [0u8; 20];
    for i in 0..20 {
        hash[i] = u8::from_str_radix(&hexs[2 * i..2 * i + 2], 16).unwrap();
    }
    let c = Case { hash, url: r["url"].as_u64().unwrap() as usize, id: r["id"].as_u64().unwrap() as usize, len: r["len"].as_u64().unwrap() as usize, faults: r["faults"].as_array().map(|a| a.iter().map(|x| x.as_u64().unwrap() as usize).collect()).unwrap_or_default() };
    let rt = httpfake::runtime();
    let req = run_case(&rt, &c);
    println!("announce URL: {}\ntracker outcomes before the good reply: {:?}\nrequests: {:#?}", URLS[c.url], c.faults, req);
    match req {
        Ok(reqs) => match reqs.iter().find_map(|r| judge(&c, r)) {
            Some((class, s)) => {
                println!("VIOLATION property=C18 replay=<this file>\n  class={} {}", class, s);
                1
            }
            None => {
                println!("holds for this case");
                0
            }
        },
        Err(e) => {
            println!("VIOLATION property=C18 replay=<this file>\n  class=tracker-client-failed {}", e);
            1
        }
    }
}
