//! C19 — tracker replies are read faithfully and tracker faults are survived.
//! (a) E-ENUM: totality over the C16 alphabet strings; a grammar of structured replies against the
//!     harness's own reading.
//! (b) E-SYS (full-session world): every run of failed announces F^n·S (see fullworld.rs).

use crate::core::{self, Ctx, Outcome};
use crate::refb::{self, V};
use crate::strings;
use rdest::TrackerResp;
use serde_json::{json, Value};

fn get<'a>(d: &'a V, key: &[u8]) -> Option<&'a V> {
    match d {
        V::Dict(e) => e.iter().rev().find(|(k, _)| k == key).map(|(_, v)| v),
        _ => None,
    }
}

#[derive(Debug, PartialEq)]
pub enum Want {
    /// The reply carries a failure reason: must be reported as a failure.
    Failure,
    /// Well-formed reply: these peers, in this order.
    Peers(Vec<(String, [u8; 20])>),
    /// Not well-formed: only totality is demanded.
    Unspecified,
}

pub fn read(top: &V) -> Want {
    if let Some(V::Str(_)) = get(top, b"failure reason") {
        return Want::Failure;
    }
    match (get(top, b"interval"), get(top, b"peers")) {
        (Some(V::Int(i)), Some(V::List(l))) if *i >= 0 => Want::Peers(
            l.iter()
                .filter_map(|e| match (get(e, b"ip"), get(e, b"peer id"), get(e, b"port")) {
                    (Some(V::Str(ip)), Some(V::Str(id)), Some(V::Int(port))) if *port >= 0 && id.len() == 20 => {
                        let ip = String::from_utf8(ip.clone()).ok()?;
                        Some((format!("{}:{}", ip, port), <[u8; 20]>::try_from(&id[..]).unwrap()))
                    }
                    _ => None,
                })
                .collect(),
        ),
        _ => Want::Unspecified,
    }
}

pub fn check_reply(body: &[u8]) -> (bool, Option<(&'static str, String)>) {
    let got = match core::catch(|| TrackerResp::from_bencode(body)) {
        Err(p) => return (false, Some(("from_bencode-panic", format!("reply {}: {}", core::show(body), p)))),
        Ok(r) => r,
    };
    let vals = match refb::parse_all(body) {
        Ok(v) => v,
        Err(_) => return (got.is_ok(), None), // malformed bencode: C16's subject
    };
    let top = match vals.iter().find(|v| matches!(v, V::Dict(_))) {
        Some(t) => t,
        None => return (got.is_ok(), None),
    };
    // replies made of several dictionaries are outside the alphabet
    match (read(top), got) {
        (Want::Failure, Ok(r)) => (
            true,
            Some((
                if matches!(get(top, b"failure reason"), Some(V::Str(s)) if std::str::from_utf8(s).is_err()) {
                    "non-utf8-failure-reason-read-as-success"
                } else {
                    "failure-reason-read-as-success"
                },
                format!("reply {} carries a failure reason but was read as {:?}", core::show(body), r),
            )),
        ),
        (Want::Failure, Err(_)) => (false, None),
        (Want::Peers(want), Ok(r)) => {
            let peers = r.peers();
            if peers == want {
                (true, None)
            } else {
                (true, Some(("peers-differ", format!("reply {}: peers() = {:?}, reply lists {:?}", core::show(body), peers, want))))
            }
        }
        (Want::Peers(_), Err(e)) => (false, Some(("well-formed-reply-rejected", format!("reply {}: {:?}", core::show(body), e)))),
        (Want::Unspecified, r) => (r.is_ok(), None),
    }
}

pub fn grammar() -> Vec<Vec<u8>> {
    let id1: Vec<u8> = b"AAAAABBBBBCCCCCDDDDD".to_vec();
    let id2: Vec<u8> = (0u8..20).map(|i| 0xf0 ^ i).collect();
    let pe = |ip: Option<V>, id: Option<V>, port: Option<V>| {
        let mut e = vec![];
        if let Some(v) = ip {
            e.push((b"ip".to_vec(), v));
        }
        if let Some(v) = id {
            e.push((b"peer id".to_vec(), v));
        }
        if let Some(v) = port {
            e.push((b"port".to_vec(), v));
        }
        V::Dict(e)
    };
    let entries: Vec<V> = vec![
        pe(Some(refb::s("10.0.0.1")), Some(V::Str(id1.clone())), Some(V::Int(6881))),
        pe(Some(refb::s("host.example")), Some(V::Str(id2.clone())), Some(V::Int(1))),
        pe(None, Some(V::Str(id1.clone())), Some(V::Int(6881))),
        pe(Some(refb::s("10.0.0.2")), None, Some(V::Int(6881))),
        pe(Some(refb::s("10.0.0.3")), Some(V::Str(id1.clone())), None),
        pe(Some(refb::s("10.0.0.4")), Some(V::Str(id1[..19].to_vec())), Some(V::Int(6881))),
        pe(Some(refb::s("10.0.0.5")), Some(V::Str(id1.clone())), Some(V::Int(-1))),
        V::Int(5),
        pe(Some(V::Str(vec![0xff, 0xfe])), Some(V::Str(id1.clone())), Some(V::Int(6881))),
        pe(Some(V::Int(7)), Some(V::Str(id1.clone())), Some(V::Int(6881))),
        pe(Some(refb::s("10.0.0.6")), Some(V::Str(id1.clone())), Some(refb::s("6881"))),
    ];
    let mut peer_lists: Vec<Option<V>> = vec![None, Some(V::Int(0)), Some(V::List(vec![]))];
    for a in &entries {
        peer_lists.push(Some(V::List(vec![a.clone()])));
        for b in &entries {
            peer_lists.push(Some(V::List(vec![a.clone(), b.clone()])));
            for c in &entries {
                peer_lists.push(Some(V::List(vec![a.clone(), b.clone(), c.clone()])));
            }
        }
    }
    let intervals: Vec<Option<V>> = vec![Some(V::Int(900)), Some(V::Int(0)), None, Some(V::Int(-5)), Some(refb::s("900"))];
    let failures: Vec<Option<V>> = vec![None, Some(refb::s("torrent not registered")), Some(V::Str(vec![])), Some(V::Str(vec![0xff, 0xfe])), Some(V::Int(1))];
    let mut docs = vec![];
    for p in &peer_lists {
        for i in &intervals {
            for f in &failures {
                let mut top = vec![];
                if let Some(f) = f {
                    top.push((b"failure reason".to_vec(), f.clone()));
                }
                if let Some(i) = i {
                    top.push((b"interval".to_vec(), i.clone()));
                }
                if let Some(p) = p {
                    top.push((b"peers".to_vec(), p.clone()));
                }
                docs.push(refb::enc(&V::Dict(top)));
            }
        }
    }
    docs
}

// -------------------------------------------------------------------------------------------
// (b) tracker fault sequences in the full-session world
// -------------------------------------------------------------------------------------------

use crate::fixture::Torrent;
use crate::fullworld::{FEv, FullWorld, TrackerOutcome};
use crate::refwire::{self, Msg};
use crate::world::peer_cfg;

pub const FAULTS: [TrackerOutcome; 4] = [TrackerOutcome::Refused, TrackerOutcome::Http500, TrackerOutcome::Garbage, TrackerOutcome::FailureReason];

/// One fault word (indices into FAULTS) followed by a good announce.
pub fn fault_case(dir: &std::path::PathBuf, word: &[usize], leave_after: Option<usize>, final_order: &[usize], verbose: bool) -> (u64, Option<(&'static str, String)>) {
    fault_case_ext(dir, word, leave_after, final_order, false, verbose)
}

/// `complete`: just before the other connection ends (see `leave_after`), P delivers every piece, so
/// that connection's end starts the extractor, which finishes while the tracker is still failing.
pub fn fault_case_ext(dir: &std::path::PathBuf, word: &[usize], leave_after: Option<usize>, final_order: &[usize], complete: bool, verbose: bool) -> (u64, Option<(&'static str, String)>) {
    fault_case_late(dir, word, leave_after, final_order, complete, None, verbose)
}

/// Let virtual time pass (in steps of one second, at most `cap_s`) until the tracker has been asked
/// `target` times: the checks do not depend on the retry schedule of the announce task.
fn wait_for_announces(w: &mut FullWorld, target: usize, cap_s: usize, steps: &mut u64) {
    let mut waited = 0;
    loop {
        w.step(&FEv::Advance(1000));
        *steps += 1;
        waited += 1;
        if w.announces.borrow().len() >= target || waited >= cap_s || w.hung.is_some() {
            break;
        }
    }
}

/// `late_fault`: one more failed announce AFTER the first good reply (the tracker flaps). It only
/// matters when two announce tasks are alive (a second connection ended during the outage): the one
/// that did not get the good reply fails once more before it succeeds.
pub fn fault_case_late(dir: &std::path::PathBuf, word: &[usize], leave_after: Option<usize>, final_order: &[usize], complete: bool, late_fault: Option<usize>, verbose: bool) -> (u64, Option<(&'static str, String)>) {
    let t = Torrent::new("t", 5, &[("f", 15)], true);
    // P (0) stays, Q (1) leaves first and triggers the re-announce, R (2) is only listed at the end,
    // S (3) is connected from the start and may leave in the middle of the fault sequence
    let cfgs = vec![peer_cfg(0, true), peer_cfg(1, true), peer_cfg(2, true), peer_cfg(3, true)];
    let mut script = vec![TrackerOutcome::Good(vec![0, 1, 3])];
    script.extend(word.iter().map(|f| FAULTS[*f].clone()));
    script.push(TrackerOutcome::Good(final_order.to_vec()));
    if let Some(f) = late_fault {
        script.push(FAULTS[f].clone());
    }
    let mut w = FullWorld::new(&t, &cfgs, script, TrackerOutcome::Good(final_order.to_vec()), dir);
    let mut steps = 1u64;
    let desc = |w: &FullWorld| format!("announces={} session={} P.connects={} Q.connects={} R.connects={}", w.announces.borrow().len(), w.session_key(), w.peers[0].connects, w.peers[1].connects, w.peers[2].connects);
    if verbose {
        println!("after start: {}", desc(&w));
    }
    if w.peers[0].connects != 1 || w.peers[1].connects != 1 || w.peers[3].connects != 1 {
        // the empty fault word: the very first reply is good and lists P, Q, S (binary peer ids)
        return (steps, Some(("listed-peers-not-contacted-after-recovery", format!("the first announce was answered with a good reply listing three peers, but they were not contacted: {}", desc(&w)))));
    }
    let idp = w.peers[0].cfg.id;
    let idq = w.peers[1].cfg.id;
    w.step(&FEv::Feed(0, [refwire::encode(&refwire::handshake(t.meta.info_hash(), &idp)), refwire::encode(&Msg::Bitfield(vec![0xe0])), refwire::encode(&Msg::Unchoke)].concat()));
    w.step(&FEv::Feed(1, refwire::encode(&refwire::handshake(t.meta.info_hash(), &idq))));
    let ids = w.peers[3].cfg.id;
    w.step(&FEv::Feed(3, refwire::encode(&refwire::handshake(t.meta.info_hash(), &ids))));
    steps += 3;
    // Q leaves: no candidates are left, so the client announces again
    w.step(&FEv::Close(1));
    steps += 1;
    if verbose {
        println!("after Q closed: {}", desc(&w));
    }
    if w.announces.borrow().len() != 2 {
        return (steps, Some(("MACHINERY", format!("no re-announce after the peer left: {}", desc(&w)))));
    }
    let mut p_chokes = false; // P unchoked us in the prefix
    let mut probe = 0usize; // the connection whose messages show that the manager still serves
    for k in 0..word.len() {
        // the k-th announce failed; the session must keep serving P meanwhile
        if leave_after == Some(k) && complete {
            // S declares interest (so that it stays connected to a seeding client), P unchokes if it
            // was choking and answers every request until the client owns all three pieces; the
            // client then drops P (nothing more to fetch), and that connection's end starts the
            // extractor, which finishes while the tracker task is still retrying
            w.step(&FEv::Feed(3, refwire::encode(&Msg::Interested)));
            steps += 1;
            if p_chokes {
                w.step(&FEv::Feed(0, refwire::encode(&Msg::Unchoke)));
                steps += 1;
                p_chokes = false;
            }
            let mut answered = 0;
            for _ in 0..8 {
                let reqs: Vec<(u32, u32, u32)> = w.peers[0].conn.as_ref().map(|c| c.msgs.iter().filter_map(|m| if let Msg::Request(i, b, l) = m { Some((*i, *b, *l)) } else { None }).collect()).unwrap_or_default();
                if reqs.is_empty() {
                    break;
                }
                let (i, b, l) = *reqs.last().unwrap();
                let owned_i = w.snap().map(|s| s.statuses[i as usize] == rdest::verif::Status::Have).unwrap_or(false);
                if owned_i {
                    break;
                }
                answered += 1;
                let data = t.pieces[i as usize][b as usize..(b + l) as usize].to_vec();
                w.step(&FEv::Feed(0, refwire::encode(&Msg::Piece(i, b, data))));
                steps += 1;
            }
            let owned = w.snap().map(|s| s.statuses.iter().filter(|x| **x == rdest::verif::Status::Have).count()).unwrap_or(0);
            if owned != 3 {
                return (steps, Some(("MACHINERY", format!("P answered {} requests but the client owns {} of 3 pieces: {}", answered, owned, desc(&w)))));
            }
            probe = 3;
            p_chokes = false;
            if verbose {
                println!("download completed after {} failure(s): {}", k, desc(&w));
            }
        } else if leave_after == Some(k) {
            // another connection ends in the middle of the fault sequence
            w.step(&FEv::Close(3));
            steps += 1;
            if verbose {
                println!("S left after {} failure(s): {}", k, desc(&w));
            }
        }
        p_chokes = !p_chokes;
        w.step(&FEv::Feed(probe, refwire::encode(&if p_chokes { Msg::Choke } else { Msg::Unchoke })));
        steps += 1;
        let seen = w.snap().and_then(|s| s.peers.iter().find(|p| p.addr == w.peers[probe].cfg.addr).map(|p| p.choked));
        if verbose {
            println!("failure {} ({:?}); peer {} sent {}; manager sees choked={:?}; {}", k + 1, FAULTS[word[k]], probe, if p_chokes { "Choke" } else { "Unchoke" }, seen, desc(&w));
        }
        if !w.panics.is_empty() {
            return (steps, Some(("panic-during-tracker-faults", format!("{:?}", w.panics))));
        }
        if seen != Some(p_chokes) {
            return (
                steps,
                Some((
                    "session-stops-serving-connections-while-tracker-fails",
                    format!("after {} failed announce(s) ({:?}) peer P sent {} but the manager did not process it in that step (its view: choked={:?}); the manager waits for the tracker task", k + 1, word[..=k].iter().map(|f| format!("{:?}", FAULTS[*f])).collect::<Vec<_>>(), if p_chokes { "Choke" } else { "Unchoke" }, seen),
                )),
            );
        }
        // the next attempt: whenever the announce task chooses to make it (pinned: one second later)
        wait_for_announces(&mut w, 2 + k + 1, 130, &mut steps);
    }
    // the good announce has been answered by now; give it some slack
    w.step(&FEv::Advance(5000));
    steps += 1;
    if verbose {
        println!("after the good announce: {}", desc(&w));
    }
    if !w.panics.is_empty() {
        return (steps, Some(("panic-during-tracker-faults", format!("{:?}", w.panics))));
    }
    if !w.session_alive() {
        return (steps, Some(("session-ended", desc(&w))));
    }
    if w.peers[1].connects != 2 || w.peers[2].connects != 1 {
        let class = if word.len() >= 64 { "deadlock-after-64-failed-announces" } else { "listed-peers-not-contacted-after-recovery" };
        return (steps, Some((class, format!("after {} failed announces and a good one listing P, Q, R: {}", word.len(), desc(&w)))));
    }
    // and the session still serves afterwards: the probe connection toggles once more
    if w.peers[probe].conn.as_ref().map(|c| !c.closed_by_peer).unwrap_or(false) && w.listed(probe) {
        p_chokes = !p_chokes;
        w.step(&FEv::Feed(probe, refwire::encode(&if p_chokes { Msg::Choke } else { Msg::Unchoke })));
        steps += 1;
        let seen = w.snap().and_then(|s| s.peers.iter().find(|p| p.addr == w.peers[probe].cfg.addr).map(|p| p.choked));
        if seen != Some(p_chokes) {
            return (steps, Some(("session-stops-serving-connections-after-recovery", format!("after the good reply{} a peer message is not processed any more (manager's view: choked={:?}): {}", if late_fault.is_some() { " and one more failed announce of a second announce task" } else { "" }, seen, desc(&w)))));
        }
    }
    (steps, None)
}

/// A good reply (after the fault word) that arrives while the client already talks to `j` peers it is
/// interested in, j around and above the dial budget of 11: A0..A10 come from the first announce,
/// B0..B3 from the second (made while nobody had sent a bitfield yet), then j of them send a full
/// bitfield; A9 leaves and the third announce (faults, then good) lists R0..R2. The client must
/// survive, keep serving, dial min(3, max(0, 11 - j)) of the listed peers at once and the others as
/// connections end.
pub fn budget_case(dir: &std::path::PathBuf, j: usize, word: &[usize], verbose: bool) -> (u64, Option<(&'static str, String)>) {
    budget_case_ext(dir, j, word, false, verbose)
}

/// `relist`: the good reply lists ONE new peer followed by three peers the client is connected to
/// (trackers list whoever announced). NOT part of the check: on the pinned tree such entries use up
/// dial budget (a popped candidate that is connected is dropped without dialling another one), so
/// the new peer is contacted only as further connections end. The property does not say how fast a
/// listed peer must be contacted, and skipping those entries at once makes a tracker that keeps
/// listing an unreachable peer be asked again without any pause (DESIGN §2). Kept for replays.
pub fn budget_case_ext(dir: &std::path::PathBuf, j: usize, word: &[usize], relist: bool, verbose: bool) -> (u64, Option<(&'static str, String)>) {
    let t = Torrent::new("t", 5, &[("f", 15)], true);
    let cfgs: Vec<_> = (0..18).map(|i| peer_cfg(i, true)).collect();
    let mut script = vec![TrackerOutcome::Good((0..=10).collect()), TrackerOutcome::Good((11..=14).collect())];
    script.extend(word.iter().map(|f| FAULTS[*f].clone()));
    let last: Vec<usize> = if relist { vec![15, 1, 2, 3] } else { vec![15, 16, 17] };
    script.push(TrackerOutcome::Good(last.clone()));
    let mut w = FullWorld::new(&t, &cfgs, script, TrackerOutcome::Good(last.clone()), dir);
    let mut steps = 1u64;
    let hs = |w: &FullWorld, i: usize| refwire::encode(&refwire::handshake(t.meta.info_hash(), &w.peers[i].cfg.id));
    let desc = |w: &FullWorld| format!("announces={} connects={:?} session={}", w.announces.borrow().len(), w.peers.iter().map(|p| p.connects).collect::<Vec<_>>(), w.session_key());
    if (0..=10).any(|i| w.peers[i].connects != 1) {
        return (steps, Some(("listed-peers-not-contacted-after-recovery", format!("the first announce was answered with a good reply listing 11 peers, but they were not all contacted: {}", desc(&w)))));
    }
    for i in 0..=10 {
        let b = hs(&w, i);
        w.step(&FEv::Feed(i, b));
        steps += 1;
    }
    w.step(&FEv::Close(10));
    steps += 1;
    if (11..=14).any(|i| w.peers[i].connects != 1) {
        return (steps, Some(("MACHINERY", format!("second announce did not lead to 4 more connections: {}", desc(&w)))));
    }
    for i in 11..=14 {
        let b = hs(&w, i);
        w.step(&FEv::Feed(i, b));
        steps += 1;
    }
    let senders: Vec<usize> = (0..=8).chain(11..=14).take(j).collect();
    for i in &senders {
        w.step(&FEv::Feed(*i, refwire::encode(&Msg::Bitfield(vec![0xe0]))));
        steps += 1;
    }
    let interested = w.snap().map(|s| s.peers.iter().filter(|p| p.am_interested).count()).unwrap_or(0);
    if interested != j {
        return (steps, Some(("MACHINERY", format!("{} interesting peers instead of {}: {}", interested, j, desc(&w)))));
    }
    // A9 leaves: no candidates are left, the client announces a third time
    w.step(&FEv::Close(9));
    steps += 1;
    let base = w.announces.borrow().len();
    for k in 0..word.len() {
        wait_for_announces(&mut w, base + k + 1, 130, &mut steps);
    }
    w.step(&FEv::Advance(5000));
    steps += 1;
    if verbose {
        println!("after the third announce: {}", desc(&w));
    }
    if !w.panics.is_empty() {
        return (steps, Some(("panic-on-good-reply-with-many-connections", format!("{} interesting connections: {:?}", j, w.panics))));
    }
    if let Some(h) = &w.hung {
        return (steps, Some(("hang-on-good-reply-with-many-connections", format!("{} interesting connections: {}", j, h))));
    }
    if !w.session_alive() {
        return (steps, Some(("session-ended", desc(&w))));
    }
    // still serving: peer 0 unchokes us and the manager records it in that very step
    w.step(&FEv::Feed(0, refwire::encode(&Msg::Unchoke)));
    steps += 1;
    let seen = w.snap().and_then(|s| s.peers.iter().find(|p| p.addr == w.peers[0].cfg.addr).map(|p| p.choked));
    if seen != Some(false) {
        return (steps, Some(("session-stops-serving-connections-while-tracker-fails", format!("after the good reply with {} interesting connections peer 0's Unchoke was not processed (choked={:?})", j, seen))));
    }
    let new_listed = if relist { 1usize } else { 3 };
    let want = new_listed.min(11usize.saturating_sub(j));
    let dialled = (15..=17).filter(|i| w.peers[*i].connects > 0).count();
    if dialled != want {
        return (steps, Some(("listed-peers-not-contacted-after-recovery", format!("{} interesting connections, good reply lists {} new peer(s){}: {} dialled at once, the budget of 11 allows {}: {}", j, new_listed, if relist { " followed by three peers that are connected already" } else { "" }, dialled, want, desc(&w)))));
    }
    // connections end one at a time: each frees a slot for one listed peer
    for i in [1usize, 2, 3] {
        w.step(&FEv::Close(i));
        steps += 1;
    }
    if !w.panics.is_empty() {
        return (steps, Some(("panic-on-good-reply-with-many-connections", format!("{:?}", w.panics))));
    }
    if (15..=17).take(new_listed).any(|i| w.peers[i].connects != 1) {
        return (steps, Some(("listed-peers-not-contacted-after-recovery", format!("{} interesting connections at the time of the reply; after three connections ended the listed peers are still not all contacted exactly once: {}", j, desc(&w)))));
    }
    (steps, None)
}

/// A good reply that lists nobody (the tracker knows no other peer yet) is a success, not a fault:
/// the announce is over. When the next connection ends with no candidate left, the client must
/// announce again, and the peers listed then must be contacted.
pub fn empty_reply_case(dir: &std::path::PathBuf, empties: usize, verbose: bool) -> (u64, Option<(&'static str, String)>) {
    let t = Torrent::new("t", 5, &[("f", 15)], true);
    // P (0) stays; Q (1), S (3), T (4) leave one after the other; R (2) is listed at the end
    let cfgs = vec![peer_cfg(0, true), peer_cfg(1, true), peer_cfg(2, true), peer_cfg(3, true), peer_cfg(4, true)];
    let mut script = vec![TrackerOutcome::Good(vec![0, 1, 3, 4])];
    for _ in 0..empties {
        script.push(TrackerOutcome::Good(vec![]));
    }
    script.push(TrackerOutcome::Good(vec![2]));
    let mut w = FullWorld::new(&t, &cfgs, script, TrackerOutcome::Good(vec![2]), dir);
    let mut steps = 1u64;
    let desc = |w: &FullWorld| format!("announces={} session={} R.connects={}", w.announces.borrow().len(), w.session_key(), w.peers[2].connects);
    for i in [0usize, 1, 3, 4] {
        if w.peers[i].connects != 1 {
            return (steps, Some(("MACHINERY", format!("peer {} was not contacted after the first reply: {}", i, desc(&w)))));
        }
        let id = w.peers[i].cfg.id;
        w.step(&FEv::Feed(i, refwire::encode(&refwire::handshake(t.meta.info_hash(), &id))));
        steps += 1;
    }
    // connections end one at a time; each time no candidate is left, so each time an announce is owed
    let leavers = [1usize, 3, 4];
    for (n, i) in leavers.iter().enumerate().take(empties + 1) {
        w.step(&FEv::Close(*i));
        w.step(&FEv::Advance(2000));
        steps += 2;
        if verbose {
            println!("peer {} left: {}", i, desc(&w));
        }
        if w.announces.borrow().len() != n + 2 {
            return (steps, Some(("listed-peers-not-contacted-after-recovery", format!("after {} good replies that listed nobody, a connection ended with no candidate left, but the client did not announce again ({} announces so far): {}", n, w.announces.borrow().len(), desc(&w)))));
        }
    }
    if !w.panics.is_empty() {
        return (steps, Some(("panic-during-tracker-faults", format!("{:?}", w.panics))));
    }
    if w.peers[2].connects != 1 {
        return (steps, Some(("listed-peers-not-contacted-after-recovery", format!("{} good replies listed nobody, the next one lists R: R was contacted {} times: {}", empties, w.peers[2].connects, desc(&w)))));
    }
    (steps, None)
}

/// The real HTTP path (the seam passes every request through to reqwest): a loopback tracker
/// answers 500, then a body that is no bencode, then a failure reason, then good replies in the
/// given transfer framing ("content-length", "chunked" = Transfer-Encoding: chunked in two chunks,
/// "close" = HTTP/1.0-style body ended by closing the connection, "split" = Content-Length with
/// the body sent in two segments). The listed peer must be dialled (connect seam records and
/// refuses) within 20 s of real time. Single executions under the real clock.
pub fn real_http_case(dir: &std::path::PathBuf, framing: &'static str) -> (u64, Option<(&'static str, String)>) {
    use std::cell::RefCell;
    use std::rc::Rc;
    use std::time::{Duration, Instant};
    use tokio::io::{AsyncReadExt, AsyncWriteExt};
    core::wipe_dir(dir);
    rdest::verif::clear_snapshots();
    rdest::verif::set_choices(vec![]);
    core::set_quiet_panics(true);
    let rt = match tokio::runtime::Builder::new_current_thread().enable_all().build() {
        Ok(rt) => rt,
        Err(e) => return (0, Some(("MACHINERY", e.to_string()))),
    };
    let local = tokio::task::LocalSet::new();
    let dialled: Rc<RefCell<Vec<String>>> = Rc::new(RefCell::new(vec![]));
    let d2 = dialled.clone();
    rdest::verif::set_net(Some(Box::new(move |addr: &str| {
        d2.borrow_mut().push(addr.to_string());
        None
    })));
    rdest::verif::set_http(None); // every announce goes out through reqwest
    let served: Rc<RefCell<usize>> = Rc::new(RefCell::new(0));
    let served2 = served.clone();
    let listed = peer_cfg(0, true);
    let listed_addr = listed.addr.clone();
    let res: Result<Option<(&'static str, String)>, String> = local.block_on(&rt, async {
        let listener = tokio::net::TcpListener::bind("127.0.0.1:0").await.map_err(|e| e.to_string())?;
        let port = listener.local_addr().map_err(|e| e.to_string())?.port();
        let t = Torrent::with_announce("t", 5, &[("f", 15)], true, &format!("http://127.0.0.1:{}/announce", port));
        let good = crate::fullworld::tracker_body(&[&listed]);
        tokio::task::spawn_local(async move {
            loop {
                let (mut sock, _) = match listener.accept().await {
                    Ok(x) => x,
                    Err(_) => return,
                };
                let mut req = vec![];
                let mut buf = [0u8; 4096];
                while !req.windows(4).any(|w| w == b"\r\n\r\n") {
                    match sock.read(&mut buf).await {
                        Ok(0) | Err(_) => break,
                        Ok(n) => req.extend_from_slice(&buf[..n]),
                    }
                }
                // the fault prefix is played in front of the chunked replies only (one second of real time per retry)
                let k = *served2.borrow() + if framing == "chunked" { 0 } else { 3 };
                *served2.borrow_mut() += 1;
                let plain = |status: &str, body: &[u8]| [format!("HTTP/1.1 {}\r\nContent-Type: text/plain\r\nContent-Length: {}\r\nConnection: close\r\n\r\n", status, body.len()).as_bytes(), body].concat();
                match k {
                    0 => {
                        let _ = sock.write_all(&plain("500 Internal Server Error", b"down")).await;
                    }
                    1 => {
                        let _ = sock.write_all(&plain("200 OK", b"<html>maintenance</html>")).await;
                    }
                    2 => {
                        let _ = sock.write_all(&plain("200 OK", b"d14:failure reason4:busye")).await;
                    }
                    _ => match framing {
                        "chunked" => {
                            let (a, b) = good.split_at(good.len() / 2);
                            let _ = sock.write_all(b"HTTP/1.1 200 OK\r\nContent-Type: text/plain\r\nTransfer-Encoding: chunked\r\nConnection: close\r\n\r\n").await;
                            let _ = sock.write_all(&[format!("{:x}\r\n", a.len()).as_bytes(), a, b"\r\n"].concat()).await;
                            let _ = sock.flush().await;
                            tokio::time::sleep(Duration::from_millis(20)).await;
                            let _ = sock.write_all(&[format!("{:x}\r\n", b.len()).as_bytes(), b, b"\r\n0\r\n\r\n"].concat()).await;
                        }
                        "close" => {
                            let _ = sock.write_all(b"HTTP/1.0 200 OK\r\nContent-Type: text/plain\r\n\r\n").await;
                            let _ = sock.write_all(&good).await;
                        }
                        "split" => {
                            let (a, b) = good.split_at(good.len() / 2);
                            let _ = sock.write_all(format!("HTTP/1.1 200 OK\r\nContent-Type: text/plain\r\nContent-Length: {}\r\nConnection: close\r\n\r\n", good.len()).as_bytes()).await;
                            let _ = sock.write_all(a).await;
                            let _ = sock.flush().await;
                            tokio::time::sleep(Duration::from_millis(20)).await;
                            let _ = sock.write_all(b).await;
                        }
                        _ => {
                            let _ = sock.write_all(&plain("200 OK", &good)).await;
                        }
                    },
                }
                let _ = sock.shutdown().await;
            }
        });
        let mut session = rdest::Session::new(t.meta.clone(), *crate::world::OWN_ID);
        let session_task = tokio::task::spawn_local(async move { session.verif_run().await });
        let started = Instant::now();
        let mut contacted = false;
        while started.elapsed() < Duration::from_secs(20) {
            tokio::time::sleep(Duration::from_millis(50)).await;
            if dialled.borrow().iter().any(|a| *a == listed_addr) {
                contacted = true;
                break;
            }
            if session_task.is_finished() {
                break;
            }
        }
        let ended = session_task.is_finished();
        session_task.abort();
        if contacted {
            return Ok(None);
        }
        Ok(Some(("listed-peers-not-contacted-after-recovery", format!("real HTTP path, loopback tracker (in front of the chunked replies: 500, a body that is no bencode, a failure reason): good replies listing {} ({} framing): the peer was not dialled within 20 s; the tracker served {} announces; dialled {:?}; session loop ended: {}", listed_addr, framing, served.borrow(), dialled.borrow(), ended))))
    });
    rdest::verif::set_net(None);
    match res {
        Ok(v) => (1, v),
        Err(e) => (0, Some(("MACHINERY", e))),
    }
}

/// The manager is busy (it awaits something inside a handler) while the tracker task goes on
/// failing and finally succeeds: the reports pile up in the tracker queue and are worked off in one
/// go when the manager is back. Pumped world (the harness plays the manager loop and can therefore
/// stay away from the queues). `paused_from`: the manager is away from just before announce number
/// `paused_from` (counting the re-announce's first attempt as 0) until after the good reply.
pub fn busy_manager_case(dir: &std::path::PathBuf, word: &[usize], paused_from: usize, verbose: bool) -> (u64, Option<(&'static str, String)>) {
    busy_manager_case_ext(dir, word, paused_from, false, verbose)
}

/// `second_ends`: a second connection ends while the manager is still away, after the announce task
/// has delivered its good reply and exited: back at work the manager finds that connection's KillReq
/// (peer queue, worked off first) and the TrackerResp (tracker queue); every later announce is refused.
pub fn busy_manager_case_ext(dir: &std::path::PathBuf, word: &[usize], paused_from: usize, second_ends: bool, verbose: bool) -> (u64, Option<(&'static str, String)>) {
    use crate::httpfake;
    use crate::world::{Ev, World, WorldCfg};
    use std::cell::RefCell;
    use std::rc::Rc;
    let t = Torrent::new("t", 5, &[("f", 15)], true);
    let cfgs = vec![peer_cfg(0, true), peer_cfg(1, true), peer_cfg(2, true)];
    let mut w = World::new(&WorldCfg { torrent: t.clone(), have: vec![], peers: if second_ends { vec![cfgs[0].clone(), cfgs[2].clone()] } else { vec![cfgs[0].clone()] }, gated: false, stale: vec![] }, dir);
    let dialled: Rc<RefCell<Vec<String>>> = Rc::new(RefCell::new(vec![]));
    let announces: Rc<RefCell<usize>> = Rc::new(RefCell::new(0));
    let d2 = dialled.clone();
    rdest::verif::set_net(Some(Box::new(move |addr: &str| {
        d2.borrow_mut().push(addr.to_string());
        None
    })));
    let a2 = announces.clone();
    let script: Vec<TrackerOutcome> = word.iter().map(|f| FAULTS[*f].clone()).collect();
    let listed = cfgs[1].clone();
    rdest::verif::set_http(Some(Box::new(move |_req: &reqwest::Request| {
        let n = *a2.borrow();
        *a2.borrow_mut() += 1;
        match script.get(n) {
            Some(TrackerOutcome::Refused) => httpfake::refused(),
            Some(TrackerOutcome::Http500) => httpfake::respond(500, b"oops".to_vec()),
            Some(TrackerOutcome::Garbage) => httpfake::respond(200, b"<html>not bencode</html>".to_vec()),
            Some(TrackerOutcome::FailureReason) => httpfake::respond(200, b"d14:failure reason11:overloaded!e".to_vec()),
            // the good reply lists the new peer once; later announces (the dial is refused, so the
            // client asks again) get an empty list -- or, with `second_ends`, are all refused
            None if n == script.len() => httpfake::respond(200, crate::fullworld::tracker_body(&[&listed])),
            _ if second_ends => httpfake::refused(),
            _ => httpfake::respond(200, b"d8:intervali1800e5:peerslee".to_vec()),
        }
    })));
    let mut steps = 2u64;
    let id = cfgs[0].id;
    w.step(&Ev::Feed(0, refwire::encode(&refwire::handshake(t.meta.info_hash(), &id))), &[]);
    if paused_from == 0 {
        // cannot be: the manager itself starts the announce task
        return (steps, Some(("MACHINERY", "paused_from must be >= 1".to_string())));
    }
    // the only peer leaves: the manager starts a new announce; its first attempt is made at once
    w.step(&Ev::Close(0), &[]);
    if *announces.borrow() != 1 {
        return (steps, Some(("MACHINERY", format!("expected one announce after the peer left, saw {}", announces.borrow()))));
    }
    let mut now = w.now_ms();
    for k in 1..=word.len() {
        if k == paused_from {
            w.step(&Ev::PauseManager, &[]);
            steps += 1;
        }
        // until the announce task makes its next attempt, whatever its retry schedule
        for _ in 0..130 {
            now += 1_050;
            w.step(&Ev::AdvanceTo(now), &[]);
            steps += 1;
            if *announces.borrow() >= k + 1 {
                break;
            }
        }
        if *announces.borrow() != k + 1 {
            return (steps, Some(("MACHINERY", format!("expected {} announces after {} retries, saw {}", k + 1, k, announces.borrow()))));
        }
    }
    if verbose {
        println!("after the good reply (manager still away): announces={} dialled={:?} session={}", announces.borrow(), dialled.borrow(), w.session_key());
    }
    if second_ends {
        w.step(&Ev::Close(1), &[]);
        steps += 1;
    }
    w.step(&Ev::ResumeManager, &[]);
    now += 5_000;
    w.step(&Ev::AdvanceTo(now), &[]);
    steps += 2;
    if verbose {
        println!("manager back: dialled={:?} announces={}", dialled.borrow(), announces.borrow());
    }
    if let Some(d) = &w.dead {
        let class = if d.contains("DEADLOCK") { "session-stops-serving-connections-while-tracker-fails" } else { "panic-during-tracker-faults" };
        return (steps, Some((class, format!("{}{}", d, if second_ends { " [a second connection ended after the good reply was queued; the manager handled its KillReq first and every later announce is refused]" } else { "" }))));
    }
    if !dialled.borrow().iter().any(|a| *a == cfgs[1].addr) {
        return (steps, Some(("listed-peers-not-contacted-after-recovery", format!("announces {:?} then a good reply listing {}, all but the first {} reported while the manager was busy; back at work it dialled {:?}", word.iter().map(|f| format!("{:?}", FAULTS[*f])).collect::<Vec<_>>(), cfgs[1].addr, paused_from, dialled.borrow()))));
    }
    (steps, None)
}

fn fault_words(max_n: usize, all_upto: usize) -> Vec<Vec<usize>> {
    let mut words: Vec<Vec<usize>> = vec![vec![]];
    let mut level: Vec<Vec<usize>> = vec![vec![]];
    for _ in 0..all_upto {
        let mut next = vec![];
        for w in &level {
            for f in 0..FAULTS.len() {
                let mut v = w.clone();
                v.push(f);
                next.push(v);
            }
        }
        words.extend(next.iter().cloned());
        level = next;
    }
    for n in (all_upto + 1)..=max_n {
        for f in 0..FAULTS.len() {
            words.push(vec![f; n]);
        }
    }
    words
}

fn fault_part(ctx: &Ctx) -> (u64, u64, Vec<Value>) {
    let words = fault_words(ctx.tier.pick(120, 130), ctx.tier.pick(3, 5));
    // every fault word alone, and with the extra peer leaving after each prefix of <= 3 failures
    // the good reply lists P (still connected), Q (left) and R (new): in every order for the short
    // words (candidates are taken from the end of the list), in one order for the long ones
    let orders: Vec<Vec<usize>> = vec![vec![0, 1, 2], vec![0, 2, 1], vec![1, 0, 2], vec![1, 2, 0], vec![2, 0, 1], vec![2, 1, 0], vec![1, 2, 0, 0], vec![0, 1, 2, 1]];
    let mut cases: Vec<(Vec<usize>, Option<usize>, Vec<usize>)> = vec![];
    for w in &words {
        let os: &[Vec<usize>] = if w.len() <= 2 { &orders } else { &orders[..1] };
        for o in os {
            cases.push((w.clone(), None, o.clone()));
            for k in 0..w.len().min(3) {
                cases.push((w.clone(), Some(k), o.clone()));
            }
        }
        if w.len() > 66 {
            cases.push((w.clone(), Some(w.len() - 66), orders[0].clone()));
        }
    }
    // the same with the download completing during the outage (words of length 2..=4 over the four
    // fault kinds and the long homogeneous ones): the extractor starts and finishes while the
    // tracker task is still retrying
    let mut ccases: Vec<(Vec<usize>, usize)> = vec![];
    for w in &words {
        if w.len() >= 2 && (w.len() <= 3 || w.len() > 66) {
            for k in 0..(w.len() - 1).min(2) {
                ccases.push((w.clone(), k));
            }
        }
    }
    let cres = core::par_map(
        &ccases,
        |w| {
            core::set_quiet_panics(true);
            core::private_cwd("c19", &format!("c{}", w))
        },
        |dir, _, (word, k)| fault_case_ext(dir, word, Some(*k), &[0, 1, 2], true, false),
    );
    // two announce tasks (a second connection ended during the outage) and a tracker that fails once
    // more after its first good reply
    let mut lcases: Vec<(Vec<usize>, usize, usize)> = vec![];
    for w in &words {
        if w.len() == 2 || w.len() == 3 {
            for k in 0..w.len() - 1 {
                for late in 0..FAULTS.len() {
                    lcases.push((w.clone(), k, late));
                }
            }
        }
    }
    let lres = core::par_map(
        &lcases,
        |w| {
            core::set_quiet_panics(true);
            core::private_cwd("c19", &format!("l{}", w))
        },
        |dir, _, (word, k, late)| fault_case_late(dir, word, Some(*k), &[0, 1, 2], false, Some(*late), false),
    );
    let res = core::par_map(
        &cases,
        |w| {
            core::set_quiet_panics(true);
            core::private_cwd("c19", &format!("w{}", w))
        },
        |dir, _, (word, leave, order)| fault_case(dir, word, *leave, order, false),
    );
    let words_n = words.len();
    let _ = words_n;
    let mut steps = 0;
    for ((word, leave, order), (n, v)) in cases.iter().zip(res.iter()) {
        steps += n;
        if let Some((class, why)) = v {
            if *class == "MACHINERY" {
                ctx.machinery_error(why.clone());
            } else {
                ctx.violation(class, format!("{}{}", why, match leave { Some(k) => format!(" [a second connection ended after failure {}]", k), None => String::new() }), json!({"kind": "faults", "word": word, "leave_after": leave, "final_order": order}));
            }
        }
    }
    for ((word, k), (n, v)) in ccases.iter().zip(cres.iter()) {
        steps += n;
        if let Some((class, why)) = v {
            if *class == "MACHINERY" {
                ctx.machinery_error(why.clone());
            } else {
                ctx.violation(class, format!("{} [the download completed and another connection ended after failure {}: the extractor ran during the outage]", why, k), json!({"kind": "faults", "word": word, "leave_after": k, "final_order": [0, 1, 2], "complete": true}));
            }
        }
    }
    for ((word, k, late), (n, v)) in lcases.iter().zip(lres.iter()) {
        steps += n;
        if let Some((class, why)) = v {
            if *class == "MACHINERY" {
                ctx.machinery_error(why.clone());
            } else {
                ctx.violation(class, format!("{} [a second connection ended after failure {}, so two announce tasks were alive; one more {:?} after the first good reply]", why, k, FAULTS[*late]), json!({"kind": "faults", "word": word, "leave_after": k, "final_order": [0, 1, 2], "late_fault": late}));
            }
        }
    }
    // a busy manager: the reports of the failing and finally succeeding announce task pile up
    let mut mcases: Vec<(Vec<usize>, usize, bool)> = vec![];
    for w in &words {
        if w.len() >= 1 && w.len() <= 3 {
            for from in 1..=w.len() {
                mcases.push((w.clone(), from, false));
                if w.len() <= 2 {
                    mcases.push((w.clone(), from, true));
                }
            }
        }
    }
    let mres = core::par_map(
        &mcases,
        |w| {
            core::set_quiet_panics(true);
            core::private_cwd("c19", &format!("m{}", w))
        },
        |dir, _, (word, from, second)| busy_manager_case_ext(dir, word, *from, *second, false),
    );
    for ((word, from, second), (n, v)) in mcases.iter().zip(mres.iter()) {
        steps += n;
        if let Some((class, why)) = v {
            if *class == "MACHINERY" {
                ctx.machinery_error(why.clone());
            } else {
                ctx.violation(class, format!("{} [busy manager]", why), json!({"kind": "busy", "word": word, "paused_from": from, "second_ends": second}));
            }
        }
    }
    // good replies that list nobody
    {
        let dir = core::private_cwd("c19", "empty");
        for empties in 0..=2usize {
            let (n, v) = empty_reply_case(&dir, empties, false);
            steps += n;
            if let Some((class, why)) = v {
                if class == "MACHINERY" {
                    ctx.machinery_error(why);
                } else {
                    ctx.violation(class, why, json!({"kind": "empty", "empties": empties}));
                }
            }
        }
    }
    // the real HTTP path: reply framings that the seam's ready-made responses cannot have
    {
        let dir = core::private_cwd("c19", "realhttp");
        for framing in ["content-length", "chunked", "close", "split"] {
            let (n, v) = real_http_case(&dir, framing);
            steps += n;
            if let Some((class, why)) = v {
                if class == "MACHINERY" {
                    ctx.machinery_error(why);
                } else {
                    ctx.violation(class, why, json!({"kind": "realhttp", "framing": framing}));
                }
            }
        }
    }
    let mut bcases: Vec<(usize, Vec<usize>, bool)> = vec![];
    for j in 7..=13usize {
        for word in [vec![], vec![0], vec![2, 3], vec![1, 0, 3]] {
            bcases.push((j, word.clone(), false));
        }
    }
    let bres = core::par_map(
        &bcases,
        |w| {
            core::set_quiet_panics(true);
            core::private_cwd("c19", &format!("b{}", w))
        },
        |dir, _, (j, word, relist)| budget_case_ext(dir, *j, word, *relist, false),
    );
    for ((j, word, relist), (n, v)) in bcases.iter().zip(bres.iter()) {
        steps += n;
        if let Some((class, why)) = v {
            if *class == "MACHINERY" {
                ctx.machinery_error(why.clone());
            } else {
                ctx.violation(class, why.clone(), json!({"kind": "budget", "interesting": j, "word": word, "relist": relist}));
            }
        }
    }
    let samples = vec![json!({"tracker_outcomes": ["Good[P,Q]", "Refused", "Http500", "Good[P,Q,R]"], "peer_events": "P: handshake+bitfield+unchoke; Q: handshake, close; after each failure P toggles choke"})];
    ((cases.len() + bcases.len() + ccases.len() + lcases.len() + mcases.len()) as u64, steps, samples)
}

/// Deep nesting goes through the recursive decoder: probe in subprocesses (a stack overflow aborts).
fn nesting_probe(ctx: &Ctx) -> Vec<Value> {
    let mut rows = vec![];
    for kind in ["list", "dict"] {
        for depth in [100usize, 1000, 10_000, 100_000] {
            let r = crate::c16::run_probe("tracker", kind, depth, true, 2048);
            rows.push(json!({"kind": kind, "depth": depth, "result": format!("{:?}", r)}));
            if let Err(status) = r {
                ctx.violation(
                    "deep-nesting-crashes-parser",
                    format!("{} nested {} kill the process when parsed on a 2 MiB stack: {}", depth, kind, status),
                    json!({"kind": "nest", "target": "tracker", "shape": kind, "depth": depth, "terminated": true, "stack_kib": 2048}),
                );
                break;
            }
        }
    }
    rows
}

pub fn run(ctx: &Ctx) -> Outcome {
    let max_len = ctx.tier.pick(6, 8);
    let accs = strings::for_all(max_len, || 0u64, |acc, s| {
        *acc += 1;
        if let (_, Some((class, summary))) = check_reply(s) {
            ctx.violation(class, summary, json!({"kind": "reply", "hex": core::hex(s), "text": core::show(s)}));
        }
    });
    let sigma: u64 = accs.iter().sum();
    let docs = grammar();
    let res = core::par_map(&docs, |_| core::set_quiet_panics(true), |_, _, d| check_reply(d));
    let mut accepted = 0u64;
    for (d, (ok, v)) in docs.iter().zip(res.iter()) {
        if *ok {
            accepted += 1;
        }
        if let Some((class, summary)) = v {
            ctx.violation(class, summary.clone(), json!({"kind": "reply", "hex": core::hex(d), "text": core::show(d)}));
        }
    }
    if accepted < 100 {
        ctx.machinery_error(format!("vacuity: only {} structured replies accepted", accepted));
    }

    let (fault_runs, fault_steps, fault_samples) = fault_part(ctx);

    let mut o = Outcome::new("model_checking");
    o.set("states", json!(fault_runs));
    o.set("transitions", json!(fault_steps));
    o.set("traces_validated_against_impl", json!(fault_runs));
    o.set("fault_sequences", json!(fault_runs));
    o.set("evaluations", json!(sigma + docs.len() as u64));
    o.set("distinct_nontrivial", json!(accepted));
    o.set("rule", json!(format!("(a) every string over the C16 alphabet of length 0..={} through TrackerResp::from_bencode (totality); structured replies = peers list of 0..3 entries drawn from 11 entry shapes (2 good, 9 malformed) or missing/ill-typed x 5 interval shapes x 5 failure-reason shapes (absent, text, empty, non-UTF-8, ill-typed), all distinct; non-trivial = structured replies read as success. (b) full-session world (real event_loop, tracker task, retry loop, handle_tracker_cmd, spawn_peer_handler over the seams): tracker outcome words F^n.S for every F-word of length <= 3 (thorough 4) over the four fault kinds (refused, HTTP 500, garbage body, failure reason) and the four homogeneous words for every longer n up to 120 (thorough 130), with a live connection P, each word alone and with another connection ending after 0..2 failures (a KillReq in the middle of the fault sequence); after every failure P toggles choke/unchoke, and the clock runs until the tracker has been asked once more (at most 130 s: the cases do not depend on the retry schedule) and the manager must have processed it in that quiescent step; after S the listed peers must be contacted; late-fault cases: for words of length 2..3 with a second connection ending during the outage (two announce tasks alive) the tracker fails once more after its first good reply, every fault kind; after every case the probe connection toggles once more and must be served; completion cases: for words of length 2..3 (and the long ones) P delivers every piece after 0..1 failures and another connection ends, so the extractor runs and finishes during the outage, same obligations; busy-manager cases (pumped world): for every fault word of length 1..3 and every point 1..=n from which the manager stays away from its queues (it awaits something inside a handler) until after the good reply, the reports pile up in the tracker queue; back at work it must dial the listed peer; also with a second connection ending after the good reply was queued (its KillReq is worked off before the TrackerResp) and every later announce refused: the manager must not end up waiting for an announce that cannot succeed; empty-reply cases: 0..2 good replies that list nobody, each followed by a connection ending with no candidate left (an announce is owed each time), then a reply listing a new peer, which must be contacted; budget cases: the good reply (after 0..3 faults) arrives while 7..=13 connected peers are interesting (15 connections from two earlier announces): no panic or hang, still serving, min(3, max(0, 11 - j)) of the 3 listed peers dialled at once and the others exactly once as three connections end; states = fault words, transitions = events executed", max_len)));
    o.set("sigma_strings", json!(sigma));
    o.set("structured_replies", json!(docs.len()));
    let picks = ctx.seeded_pick(docs.len(), 4);
    let mut samples: Vec<Value> = picks.iter().map(|i| json!({"reply": core::show(&docs[*i]), "read_as_success": res[*i].0})).collect();
    samples.extend(fault_samples);
    o.set("samples", Value::Array(samples));
    o.set("nesting_ladder", Value::Array(nesting_probe(ctx)));
    o.set("exhaustive", json!(true));
    o.assume("a peers entry is malformed iff it is not a dictionary with a UTF-8 string ip, a 20-byte string peer id and a non-negative integer port; ports above 65535 and replies consisting of several dictionaries are outside the alphabet");
    o
}

pub fn replay(_ctx: &Ctx, r: &Value) -> i32 {
    if r["kind"] == "nest" {
        return crate::c16::replay(_ctx, r);
    }
    if r["kind"] == "budget" {
        let word: Vec<usize> = r["word"].as_array().unwrap().iter().map(|x| x.as_u64().unwrap() as usize).collect();
        let dir = core::private_cwd("c19", "replay");
        core::set_quiet_panics(true);
        return match budget_case_ext(&dir, r["interesting"].as_u64().unwrap() as usize, &word, r["relist"].as_bool().unwrap_or(false), true).1 {
            Some((class, why)) => {
                println!("VIOLATION property=C19 replay=<this file>\n  class={} {}", class, why);
                1
            }
            None => {
                println!("holds for this case");
                0
            }
        };
    }
    if r["kind"] == "realhttp" {
        let dir = core::private_cwd("c19", "replay");
        let framing = ["content-length", "chunked", "close", "split"].into_iter().find(|f| r["framing"] == *f).unwrap_or("content-length");
        return match real_http_case(&dir, framing).1 {
            Some(("MACHINERY", why)) => {
                eprintln!("could not be carried out: {}", why);
                2
            }
            Some((class, why)) => {
                println!("VIOLATION property=C19 replay=<this file>\n  class={} {}", class, why);
                1
            }
            None => {
                println!("holds for this case");
                0
            }
        };
    }
    if r["kind"] == "empty" {
        let dir = core::private_cwd("c19", "replay");
        core::set_quiet_panics(true);
        return match empty_reply_case(&dir, r["empties"].as_u64().unwrap() as usize, true).1 {
            Some((class, why)) => {
                println!("VIOLATION property=C19 replay=<this file>\n  class={} {}", class, why);
                1
            }
            None => {
                println!("holds for this case");
                0
            }
        };
    }
    if r["kind"] == "busy" {
        let word: Vec<usize> = r["word"].as_array().unwrap().iter().map(|x| x.as_u64().unwrap() as usize).collect();
        let dir = core::private_cwd("c19", "replay");
        core::set_quiet_panics(true);
        return match busy_manager_case_ext(&dir, &word, r["paused_from"].as_u64().unwrap() as usize, r["second_ends"].as_bool().unwrap_or(false), true).1 {
            Some((class, why)) => {
                println!("VIOLATION property=C19 replay=<this file>\n  class={} {}", class, why);
                1
            }
            None => {
                println!("holds for this case");
                0
            }
        };
    }
    if r["kind"] == "faults" {
        let word: Vec<usize> = r["word"].as_array().unwrap().iter().map(|x| x.as_u64().unwrap() as usize).collect();
        let dir = core::private_cwd("c19", "replay");
        core::set_quiet_panics(true);
        println!("tracker outcomes: Good[P,Q], {:?}, Good[P,Q,R]", word.iter().map(|f| format!("{:?}", FAULTS[*f])).collect::<Vec<_>>());
        let leave = r["leave_after"].as_u64().map(|x| x as usize);
        let order: Vec<usize> = r["final_order"].as_array().map(|a| a.iter().map(|x| x.as_u64().unwrap() as usize).collect()).unwrap_or_else(|| vec![0, 1, 2]);
        let complete = r["complete"].as_bool().unwrap_or(false);
        let late = r["late_fault"].as_u64().map(|x| x as usize);
        return match fault_case_late(&dir, &word, leave, &order, complete, late, true).1 {
            Some((class, why)) => {
                println!("VIOLATION property=C19 replay=<this file>\n  class={} {}", class, why);
                1
            }
            None => {
                println!("holds for this fault sequence");
                0
            }
        };
    }
    let hexs = r["hex"].as_str().unwrap_or("");
    let bytes: Vec<u8> = (0..hexs.len() / 2).map(|i| u8::from_str_radix(&hexs[2 * i..2 * i + 2], 16).unwrap()).collect();
    println!("reply: {}", core::show(&bytes));
    println!("from_bencode: {:?}", core::catch(|| TrackerResp::from_bencode(&bytes)));
    match check_reply(&bytes).1 {
        Some((class, s)) => {
            println!("VIOLATION property=C19 replay=<this file>\n  class={} {}", class, s);
            1
        }
        None => {
            println!("holds for this reply");
            0
        }
    }
}
