//! C19 — tracker replies are read faithfully and tracker faults are survived.
//! (a) E-ENUM: totality over the C16 alphabet strings; a grammar of structured replies against the
//!     harness's own reading.
//! (b) E-SYS (full-session world): every run of failed announces F^n·S (see fullworld.rs).

use crate::core::{self, Ctx, Outcome};
use crate::refb::{self, V};
use crate::strings;
use rdest::TrackerResp;
use serde_json::{json, Value};

fn get<'a>(d: &'a V, key: &[u8]) -> Option<&'a V> {
    match d {
        V::Dict(e) => e.iter().rev().find(|(k, _)| k == key).map(|(_, v)| v),
        _ => None,
    }
}

#[derive(Debug, PartialEq)]
pub enum Want {
    /// The reply carries a failure reason: must be reported as a failure.
    Failure,
    /// Well-formed reply: these peers, in this order.
    Peers(Vec<(String, [u8; 20])>),
    /// Not well-formed: only totality is demanded.
    Unspecified,
}

pub fn read(top: &V) -> Want {
    if let Some(V::Str(_)) = get(top, b"failure reason") {
        return Want::Failure;
    }
    match (get(top, b"interval"), get(top, b"peers")) {
        (Some(V::Int(i)), Some(V::List(l))) if *i >= 0 => Want::Peers(
            l.iter()
                .filter_map(|e| match (get(e, b"ip"), get(e, b"peer id"), get(e, b"port")) {
                    (Some(V::Str(ip)), Some(V::Str(id)), Some(V::Int(port))) if *port >= 0 && id.len() == 20 => {
                        let ip = String::from_utf8(ip.clone()).ok()?;
                        Some((format!("{}:{}", ip, port), <[u8; 20]>::try_from(&id[..]).unwrap()))
                    }
                    _ => None,
                })
                .collect(),
        ),
        _ => Want::Unspecified,
    }
}

pub fn check_reply(body: &[u8]) -> (bool, Option<(&'static str, String)>) {
    let got = match core::catch(|| TrackerResp::from_bencode(body)) {
        Err(p) => return (false, Some(("from_bencode-panic", format!("reply {}: {}", core::show(body), p)))),
        Ok(r) => r,
    };
    let vals = match refb::parse_all(body) {
        Ok(v) => v,
        Err(_) => return (got.is_ok(), None), // malformed bencode: C16's subject
    };
    let top = match vals.iter().find(|v| matches!(v, V::Dict(_))) {
        Some(t) => t,
        None => return (got.is_ok(), None),
    };
    // replies made of several dictionaries are outside the alphabet
    match (read(top), got) {
        (Want::Failure, Ok(r)) => (
            true,
            Some((
                if matches!(get(top, b"failure reason"), Some(V::Str(s)) if std::str::from_utf8(s).is_err()) {
                    "non-utf8-failure-reason-read-as-success"
                } else {
                    "failure-reason-read-as-success"
                },
                format!("reply {} carries a failure reason but was read as {:?}", core::show(body), r),
            )),
        ),
        (Want::Failure, Err(_)) => (false, None),
        (Want::Peers(want), Ok(r)) => {
            let peers = r.peers();
            if peers == want {
                (true, None)
            } else {
                (true, Some(("peers-differ", format!("reply {}: peers() = {:?}, reply lists {:?}", core::show(body), peers, want))))
            }
        }
        (Want::Peers(_), Err(e)) => (false, Some(("well-formed-reply-rejected", format!("reply {}: {:?}", core::show(body), e)))),
        (Want::Unspecified, r) => (r.is_ok(), None),
    }
}

pub fn grammar() -> Vec<Vec<u8>> {
    let id1: Vec<u8> = b"AAAAABBBBBCCCCCDDDDD".to_vec();
    let id2: Vec<u8> = (0u8..20).map(|i| 0xf0 ^ i).collect();
    let pe = |ip: Option<V>, id: Option<V>, port: Option<V>| {
        let mut e = vec![];
        if let Some(v) = ip {
            e.push((b"ip".to_vec(), v));
        }
        if let Some(v) = id {
            e.push((b"peer id".to_vec(), v));
        }
        if let Some(v) = port {
            e.push((b"port".to_vec(), v));
        }
        V::Dict(e)
    };
    let entries: Vec<V> = vec![
        pe(Some(refb::s("10.0.0.1")), Some(V::Str(id1.clone())), Some(V::Int(6881))),
        pe(Some(refb::s("host.example")), Some(V::Str(id2.clone())), Some(V::Int(1))),
        pe(None, Some(V::Str(id1.clone())), Some(V::Int(6881))),
        pe(Some(refb::s("10.0.0.2")), None, Some(V::Int(6881))),
        pe(Some(refb::s("10.0.0.3")), Some(V::Str(id1.clone())), None),
        pe(Some(refb::s("10.0.0.4")), Some(V::Str(id1[..19].to_vec())), Some(V::Int(6881))),
        pe(Some(refb::s("10.0.0.5")), Some(V::Str(id1.clone())), Some(V::Int(-1))),
        V::Int(5),
        pe(Some(V::Str(vec![0xff, 0xfe])), Some(V::Str(id1.clone())), Some(V::Int(6881))),
        pe(Some(V::Int(7)), Some(V::Str(id1.clone())), Some(V::Int(6881))),
        pe(Some(refb::s("10.0.0.6")), Some(V::Str(id1.clone())), Some(refb::s("6881"))),
    ];
    let mut peer_lists: Vec<Option<V>> = vec![None, Some(V::Int(0)), Some(V::List(vec![]))];
    for a in &entries {
        peer_lists.push(Some(V::List(vec![a.clone()])));
        for b in &entries {
            peer_lists.push(Some(V::List(vec![a.clone(), b.clone()])));
            for c in &entries {
                peer_lists.push(Some(V::List(vec![a.clone(), b.clone(), c.clone()])));
            }
        }
    }
    let intervals: Vec<Option<V>> = vec![Some(V::Int(900)), Some(V::Int(0)), None, Some(V::Int(-5)), Some(refb::s("900"))];
    let failures: Vec<Option<V>> = vec![None, Some(refb::s("torrent not registered")), Some(V::Str(vec![])), Some(V::Str(vec![0xff, 0xfe])), Some(V::Int(1))];
    let mut docs = vec![];
    for p in &peer_lists {
        for i in &intervals {
            for f in &failures {
                let mut top = vec![];
                if let Some(f) = f {
                    top.push((b"failure reason".to_vec(), f.clone()));
                }
                if let Some(i) = i {
                    top.push((b"interval".to_vec(), i.clone()));
                }
                if let Some(p) = p {
                    top.push((b"peers".to_vec(), p.clone()));
                }
                docs.push(refb::enc(&V::Dict(top)));
            }
        }
    }
    docs
}

pub fn run(ctx: &Ctx) -> Outcome {
    let max_len = ctx.tier.pick(6, 7);
    let accs = strings::for_all(max_len, || 0u64, |acc, s| {
        *acc += 1;
        if let (_, Some((class, summary))) = check_reply(s) {
            ctx.violation(class, summary, json!({"kind": "reply", "hex": core::hex(s), "text": core::show(s)}));
        }
    });
    let sigma: u64 = accs.iter().sum();
    let docs = grammar();
    let res = core::par_map(&docs, |_| core::set_quiet_panics(true), |_, _, d| check_reply(d));
    let mut accepted = 0u64;
    for (d, (ok, v)) in docs.iter().zip(res.iter()) {
        if *ok {
            accepted += 1;
        }
        if let Some((class, summary)) = v {
            ctx.violation(class, summary.clone(), json!({"kind": "reply", "hex": core::hex(d), "text": core::show(d)}));
        }
    }
    if accepted < 100 {
        ctx.machinery_error(format!("vacuity: only {} structured replies accepted", accepted));
    }

    let mut o = Outcome::new("model_checking");
    o.set("evaluations", json!(sigma + docs.len() as u64));
    o.set("distinct_nontrivial", json!(accepted));
    o.set("rule", json!(format!("(a) every string over the C16 alphabet of length 0..={} through TrackerResp::from_bencode (totality); structured replies = peers list of 0..3 entries drawn from 11 entry shapes (2 good, 9 malformed) or missing/ill-typed x 5 interval shapes x 5 failure-reason shapes (absent, text, empty, non-UTF-8, ill-typed), all distinct; non-trivial = structured replies read as success", max_len)));
    o.set("sigma_strings", json!(sigma));
    o.set("structured_replies", json!(docs.len()));
    let picks = ctx.seeded_pick(docs.len(), 4);
    o.set("samples", Value::Array(picks.iter().map(|i| json!({"reply": core::show(&docs[*i]), "read_as_success": res[*i].0})).collect()));
    o.set("exhaustive", json!(true));
    o.assume("a peers entry is malformed iff it is not a dictionary with a UTF-8 string ip, a 20-byte string peer id and a non-negative integer port; ports above 65535 and replies consisting of several dictionaries are outside the alphabet");
    o
}

pub fn replay(_ctx: &Ctx, r: &Value) -> i32 {
    let hexs = r["hex"].as_str().unwrap_or("");
    let bytes: Vec<u8> = (0..hexs.len() / 2).map(|i| u8::from_str_radix(&hexs[2 * i..2 * i + 2], 16).unwrap()).collect();
    println!("reply: {}", core::show(&bytes));
    println!("from_bencode: {:?}", core::catch(|| TrackerResp::from_bencode(&bytes)));
    match check_reply(&bytes).1 {
        Some((class, s)) => {
            println!("VIOLATION property=C19 replay=<this file>\n  class={} {}", class, s);
            1
        }
        None => {
            println!("holds for this reply");
            0
        }
    }
}
