//! C20 — silent peers are dropped, live ones are kept and kept alive.
//! E-SYS under tokio's paused clock: one real connection task that holds a reservation; every
//! 120 s keep-alive interval is cut into slots; BFS over every timed script (one symbol per slot),
//! deduplicated on the real objects' state + slot number.

use crate::core::{self, Ctx, Outcome};
use crate::explore::{self, Scenario};
use crate::fixture::Torrent;
use crate::refwire::{self, Msg};
use crate::world::{peer_cfg, Ev, World, WorldCfg};
use serde_json::{json, Value};

pub struct Timed {
    /// Slot offsets inside each 120 s interval, in seconds.
    pub slots: Vec<u64>,
    pub symbols: Vec<&'static str>,
    pub intervals: u64,
    /// false: the peer has not sent its handshake when the search starts ("Handshake" is a symbol)
    pub handshaken: bool,
    pub outgoing: bool,
}

#[derive(Default)]
pub struct Mon {
    pub slot: u64,
    /// Virtual time (ms) of the last non-keep-alive message fed (0 = connection start).
    pub last_live_ms: u64,
    /// A live message was fed but the connection task has not read it yet (it waits for the busy
    /// manager's answer to an earlier one): it arrives, for the client, when the task reads it.
    pub deferred_live: bool,
    /// For every completed tick-to-tick interval: did a non-keep-alive message arrive in it?
    pub live_in_interval: Vec<bool>,
    pub ended_at_slot: Option<u64>,
    pub hs_done: bool,
    /// Timer ticks that had passed when the peer's handshake arrived.
    pub ticks_before_hs: u64,
    pub pause_used: bool,
    pub paused_slots: u64,
}

impl Timed {
    fn slot_time_ms(&self, slot: u64) -> u64 {
        let per = self.slots.len() as u64;
        (slot / per) * 120_000 + self.slots[(slot % per) as usize] * 1000
    }
}

/// Messages with an id the client does not know (it skips them): BEP 10 extended (id 20, what idle
/// connections of today's clients mostly carry: peer exchange) and BEP 5 port (id 9).
fn sym_raw(sym: &str) -> Option<Vec<u8>> {
    match sym {
        "Extended" => Some(vec![0, 0, 0, 3, 20, 1, b'd']),
        "Port" => Some(vec![0, 0, 0, 3, 9, 0x1a, 0xe1]),
        _ => None,
    }
}

fn sym_msg(sym: &str) -> Option<Msg> {
    match sym {
        "KeepAlive" => Some(Msg::KeepAlive),
        "Choke" => Some(Msg::Choke),
        "Unchoke" => Some(Msg::Unchoke),
        "Have" => Some(Msg::Have(1)),
        "Request" => Some(Msg::Request(0, 0, 1)),
        "Interested" => Some(Msg::Interested),
        "NotInterested" => Some(Msg::NotInterested),
        "Cancel" => Some(Msg::Cancel(0, 0, 1)),
        "Bitfield" => Some(Msg::Bitfield(vec![0xc0])),
        "Piece" => Some(Msg::Piece(1, 0, vec![7])), // a block nobody asked for is still a sign of life
        "Handshake" => Some(refwire::handshake(&[0; 20], &[0; 20])), // placeholder, see concretize
        _ => None,
    }
}

impl Scenario for Timed {
    type Mon = Mon;
    fn name(&self) -> String {
        format!("timed-{:?}-{:?}-{}{}{}", self.slots, self.symbols, self.intervals, if self.handshaken { "" } else { "-nohs" }, if self.outgoing { "" } else { "-incoming" })
    }
    fn cfg(&self) -> WorldCfg {
        WorldCfg { torrent: Torrent::new("t", 16384, &[("f", 16384 * 2)], true), have: vec![], peers: vec![peer_cfg(0, self.outgoing)], gated: false, stale: vec![] }
    }
    fn setup(&self, w: &mut World, mon: &mut Mon) {
        if self.handshaken {
            let t = w.t.clone();
            let id = w.peers[0].cfg.id;
            w.feed(0, &[refwire::handshake(t.meta.info_hash(), &id), Msg::Bitfield(vec![0xc0]), Msg::Unchoke]);
            mon.hs_done = true;
        }
    }
    fn enabled(&self, w: &World, mon: &Mon, _depth: usize) -> Vec<String> {
        if w.peers[0].ended.get() || mon.slot >= self.intervals * self.slots.len() as u64 {
            return vec![];
        }
        // a busy manager (Pause .. Resume, once per history, at most two slots long): the connection
        // task that asks it something is held up across keep-alive deadlines
        if w.manager_paused {
            if mon.paused_slots >= 2 {
                return vec!["Resume".to_string()];
            }
            return self.symbols.iter().filter(|s| **s != "Pause" && **s != "Rotate").map(|s| s.to_string()).collect();
        }
        // before its handshake a peer can only stay silent or handshake (anything else is refused)
        self.symbols.iter().filter(|s| **s != "Resume" && (**s != "Pause" || !mon.pause_used)).filter(|s| mon.hs_done != (**s == "Handshake") || **s == "nothing").filter(|s| mon.hs_done || **s == "nothing" || **s == "Handshake").map(|s| s.to_string()).collect()
    }
    fn concretize(&self, _w: &World, mon: &Mon, sym: &str) -> Vec<Ev> {
        let mut evs = vec![Ev::AdvanceTo(self.slot_time_ms(mon.slot))];
        if sym == "Pause" {
            evs.push(Ev::PauseManager);
        } else if sym == "Resume" {
            evs.push(Ev::ResumeManager);
        } else if sym == "Rotate" {
            // a decision of the manager's choke rotation, not a message of the peer
            evs.push(Ev::Rotate);
        } else if sym == "Handshake" {
            evs.push(Ev::Feed(0, refwire::encode(&refwire::handshake(_w.t.meta.info_hash(), &_w.peers[0].cfg.id))));
        } else if let Some(raw) = sym_raw(sym) {
            evs.push(Ev::Feed(0, raw));
        } else if let Some(m) = sym_msg(sym) {
            evs.push(Ev::Feed(0, refwire::encode(&m)));
        }
        evs
    }
    fn check(&self, w: &World, mon: &mut Mon, last: Option<&str>) -> Option<(&'static str, String)> {
        if let Some(d) = &w.dead {
            return Some(("manager-died", d.clone()));
        }
        if let Some(p) = w.handler_panics.first() {
            return Some(("connection-task-panicked", p.clone()));
        }
        let p = &w.peers[0];
        let now = if last.is_some() { self.slot_time_ms(mon.slot) } else { 0 };
        if let Some(sym) = last {
            // intervals completed since the previous slot
            let prev = if mon.slot == 0 { 0 } else { self.slot_time_ms(mon.slot - 1) };
            for _ in (prev / 120_000)..(now / 120_000) {
                // the interval that just ended had a live message iff last_live_ms falls into it
                let idx = mon.live_in_interval.len() as u64;
                let live = mon.last_live_ms > idx * 120_000 && mon.last_live_ms <= (idx + 1) * 120_000;
                mon.live_in_interval.push(live);
            }
            if (sym_raw(sym).is_some() || sym_msg(sym).map(|m| m != Msg::KeepAlive).unwrap_or(false)) && !p.ended.get() {
                if p.pipe.pending() > 0 {
                    mon.deferred_live = true;
                } else {
                    mon.last_live_ms = now;
                }
            }
            if mon.deferred_live && p.pipe.pending() == 0 {
                // read in this step (the manager came back at this instant)
                mon.deferred_live = false;
                if !p.ended.get() {
                    mon.last_live_ms = now;
                }
            }
            if sym == "Handshake" {
                mon.hs_done = true;
                mon.ticks_before_hs = now / 120_000;
            }
            if sym == "Pause" {
                mon.pause_used = true;
                mon.paused_slots = 0;
            } else if w.manager_paused {
                mon.paused_slots += 1;
            }
            mon.slot += 1;
        }
        // a busy manager answers nothing and works off no KillReq: nothing is judged until the first
        // slot after it resumed (the monitor above keeps counting)
        if w.manager_paused {
            return None;
        }
        let ticks_passed = now / 120_000;
        let ended = p.ended.get();
        let listed = w.snap().peers.iter().any(|x| x.addr == p.cfg.addr);
        if ended && mon.ended_at_slot.is_none() {
            mon.ended_at_slot = Some(mon.slot);
        }
        // (a) silence since last_live_ms: closed within three intervals (360 s), state released
        // (not judged while the manager is busy: the task may be waiting for its answer, and a
        // KillReq cannot be worked off; the verdict falls at the first slot after it resumed)
        if now >= mon.last_live_ms + 360_000 && (!ended || listed) && !w.manager_paused {
            return Some((
                "silent-peer-not-dropped",
                format!("nothing but keep-alives since t={} s, now t={} s: connection task ended={}, manager still lists the peer={}", mon.last_live_ms / 1000, now / 1000, ended, listed),
            ));
        }
        if ended {
            let reason = w.cmds.iter().find(|c| c.starts_with("KillReq")).cloned();
            if listed {
                return Some(("closed-but-not-forgotten", format!("connection ended but the manager still lists the peer ({:?})", reason)));
            }
            let snap = w.snap();
            if snap.statuses.iter().any(|s| matches!(s, rdest::verif::Status::Reserved(_))) {
                return Some(("reservation-not-released", format!("peer gone, statuses {:?}", snap.statuses)));
            }
            // (b) never closed for inactivity while every interval had a live message
            if mon.ended_at_slot == Some(mon.slot) {
                let all_live = mon.live_in_interval.iter().all(|l| *l);
                if all_live {
                    return Some(("live-connection-closed", format!("every completed interval carried a non-keep-alive message ({:?}) but the connection was closed at t={} s ({:?})", mon.live_in_interval, now / 1000, reason)));
                }
                if let Some(r) = &reason {
                    // (the wording of the reason is the client's business: anything that speaks of
                    // keep-alives, silence, inactivity or a timeout is taken as "closed for inactivity")
                    let rl = r.to_lowercase();
                    if !(rl.contains("alive") || rl.contains("timeout") || rl.contains("timed out") || rl.contains("inactiv") || rl.contains("silen") || rl.contains("idle")) {
                        return Some(("closed-for-another-reason", format!("{}", r)));
                    }
                }
            }
        } else {
            // (c) one keep-alive written per tick on a live connection
            // keep-alives are owed from the client's own handshake on: on an incoming connection
            // that is once the peer's handshake has arrived (what is written in front of the own
            // handshake is C08's business: nothing may be); on an outgoing one from the start
            let own_hs_at = p.msgs.iter().position(|m| matches!(m, Msg::Handshake { .. }));
            let written = match own_hs_at {
                Some(at) => p.msgs[at..].iter().filter(|m| **m == Msg::KeepAlive).count() as u64,
                None => 0,
            };
            let ticks_passed = if self.outgoing { ticks_passed } else { ticks_passed.saturating_sub(mon.ticks_before_hs) };
            // (while the manager is busy a task waiting for its answer cannot emit; the overdue
            // keep-alives must all be there at the first slot after it resumed)
            let exempt = (!self.outgoing && !mon.hs_done) || w.manager_paused;
            if !exempt && written != ticks_passed {
                return Some(("keep-alive-not-emitted-every-interval", format!("{} ticks passed (t={} s) but the client wrote {} keep-alives", ticks_passed, now / 1000, written)));
            }
        }
        None
    }
    fn key(&self, w: &World, mon: &Mon) -> String {
        // byte counters are part of the key (they feed the rate statistics); the time of the last
        // live message matters only relative to the interval grid
        format!("{} hs={} slot={} live={} liv={:?} busy={}/{}/{}", w.default_key(), mon.hs_done, mon.slot, mon.last_live_ms / 120_000 * 1000 + (mon.last_live_ms > 0) as u64, mon.live_in_interval.iter().all(|l| *l), w.manager_paused, mon.pause_used, mon.paused_slots) + if mon.deferred_live { " deferred" } else { "" }
    }
}

// -------------------------------------------------------------------------------------------
// Two connections: A is silent (keep-alives at most) while B keeps completing the pieces both were
// asked for; the manager re-assigns A each time
// -------------------------------------------------------------------------------------------

pub struct Duo {
    pub pieces: usize,
    pub intervals: u64,
}

#[derive(Default)]
pub struct DuoMon {
    pub slot: u64,
    pub b_outstanding: Vec<(u32, u32, u32)>,
    pub b_scanned: usize,
    pub a_last_live_ms: u64,
}

impl Duo {
    fn slot_time_ms(&self, slot: u64) -> u64 {
        // two slots per interval, at +40 s and +100 s
        (slot / 2) * 120_000 + if slot % 2 == 0 { 40_000 } else { 100_000 }
    }
}

impl Scenario for Duo {
    type Mon = DuoMon;
    fn name(&self) -> String {
        format!("duo-{}pieces-{}", self.pieces, self.intervals)
    }
    fn cfg(&self) -> WorldCfg {
        WorldCfg { torrent: Torrent::new("t", 5, &[("f", 5 * self.pieces)], true), have: vec![], peers: vec![peer_cfg(0, true), peer_cfg(1, true)], gated: false, stale: vec![] }
    }
    fn explore_choices(&self) -> bool {
        true
    }
    fn setup(&self, w: &mut World, _mon: &mut DuoMon) {
        let t = w.t.clone();
        let all = refwire::bitfield_bytes(&vec![true; self.pieces]);
        for k in 0..2 {
            let id = w.peers[k].cfg.id;
            w.feed(k, &[refwire::handshake(t.meta.info_hash(), &id), Msg::Bitfield(all.clone()), Msg::Unchoke]);
        }
    }
    fn enabled(&self, w: &World, mon: &DuoMon, _depth: usize) -> Vec<String> {
        if mon.slot >= self.intervals * 2 {
            return vec![];
        }
        let mut e = vec!["nothing".to_string()];
        if !w.peers[0].ended.get() {
            e.push("Akeepalive".to_string());
        }
        if !w.peers[1].ended.get() && !mon.b_outstanding.is_empty() {
            e.push("Banswer".to_string());
        }
        if !w.peers[1].ended.get() {
            e.push("Bhave".to_string()); // any live message keeps B alive
        }
        e
    }
    fn concretize(&self, w: &World, mon: &DuoMon, sym: &str) -> Vec<Ev> {
        let mut evs = vec![Ev::AdvanceTo(self.slot_time_ms(mon.slot))];
        match sym {
            "Akeepalive" => evs.push(Ev::Feed(0, refwire::encode(&Msg::KeepAlive))),
            "Bhave" => evs.push(Ev::Feed(1, refwire::encode(&Msg::Have(0)))),
            "Banswer" => {
                let r = mon.b_outstanding[0];
                evs.push(Ev::Feed(1, refwire::encode(&Msg::Piece(r.0, r.1, w.t.pieces[r.0 as usize][r.1 as usize..(r.1 + r.2) as usize].to_vec()))));
            }
            _ => {}
        }
        evs
    }
    fn check(&self, w: &World, mon: &mut DuoMon, last: Option<&str>) -> Option<(&'static str, String)> {
        if let Some(d) = &w.dead {
            return Some(("manager-died", d.clone()));
        }
        if let Some(p) = w.handler_panics.first() {
            return Some(("connection-task-panicked", p.clone()));
        }
        let now = if last.is_some() { self.slot_time_ms(mon.slot) } else { 0 };
        if let Some(sym) = last {
            if sym == "Banswer" {
                mon.b_outstanding.remove(0);
            }
            mon.slot += 1;
        }
        for m in &w.peers[1].msgs[mon.b_scanned..] {
            match m {
                Msg::Request(a, b, l) => mon.b_outstanding.push((*a, *b, *l)),
                Msg::Cancel(a, b, l) => mon.b_outstanding.retain(|r| r != &(*a, *b, *l)),
                _ => {}
            }
        }
        mon.b_scanned = w.peers[1].msgs.len();
        // A delivered nothing but keep-alives since t = 0 (its handshake, bitfield and unchoke)
        let a = &w.peers[0];
        let listed = w.snap().peers.iter().any(|x| x.addr == a.cfg.addr);
        if now >= mon.a_last_live_ms + 360_000 && (!a.ended.get() || listed) {
            return Some((
                "silent-peer-not-dropped",
                format!("connection A delivered nothing but keep-alives since t={} s, now t={} s: task ended={}, manager still lists it={} (B completed pieces meanwhile: statuses {:?})", mon.a_last_live_ms / 1000, now / 1000, a.ended.get(), listed, w.snap().statuses),
            ));
        }
        if a.ended.get() && !listed {
            // its reservation must be gone: nothing may stay reserved for a peer that is not there
            if let Some(v) = crate::c12::reservation_backing(w) {
                return Some(v);
            }
        }
        None
    }
    fn key(&self, w: &World, mon: &DuoMon) -> String {
        format!("{} slot={} bout={:?}", w.default_key(), mon.slot, mon.b_outstanding)
    }
}

pub fn scenarios(thorough: bool) -> Vec<Timed> {
    if thorough {
        vec![
            Timed { slots: vec![30, 90], symbols: vec!["nothing", "KeepAlive", "Extended", "Port", "Have"], intervals: 8, handshaken: true, outgoing: true },
            Timed { slots: vec![60], symbols: vec!["nothing", "KeepAlive", "Extended", "Handshake"], intervals: 7, handshaken: false, outgoing: false },
            Timed { slots: vec![30, 60, 90], symbols: vec!["nothing", "KeepAlive", "Have", "Choke", "Unchoke", "Request", "Interested"], intervals: 16, handshaken: true, outgoing: true },
            Timed { slots: vec![1, 119], symbols: vec!["nothing", "KeepAlive", "Have", "Interested", "Choke", "Unchoke"], intervals: 12, handshaken: true, outgoing: true },
            Timed { slots: vec![5, 15, 25, 115], symbols: vec!["nothing", "KeepAlive", "Have"], intervals: 8, handshaken: true, outgoing: true },
            Timed { slots: vec![30, 90], symbols: vec!["nothing", "Handshake", "KeepAlive", "Have", "Unchoke"], intervals: 8, handshaken: false, outgoing: true },
            Timed { slots: vec![30, 90], symbols: vec!["nothing", "Handshake", "KeepAlive", "Have", "Unchoke"], intervals: 8, handshaken: false, outgoing: false },
            // manager decisions (choke rotation) at any slot next to the peer's interest changes
            Timed { slots: vec![30, 90], symbols: vec!["nothing", "Interested", "NotInterested", "Rotate", "KeepAlive"], intervals: 8, handshaken: true, outgoing: true },
            Timed { slots: vec![60], symbols: vec!["nothing", "Interested", "Rotate", "KeepAlive", "Have"], intervals: 9, handshaken: true, outgoing: false },
            Timed { slots: vec![30, 90], symbols: vec!["nothing", "Unchoke", "Choke", "Have", "Pause", "Resume"], intervals: 7, handshaken: true, outgoing: true },
            Timed { slots: vec![60], symbols: vec!["nothing", "KeepAlive", "Choke", "Unchoke", "Interested", "NotInterested", "Have", "Bitfield", "Request", "Piece", "Cancel"], intervals: 6, handshaken: true, outgoing: true },
            Timed { slots: vec![60], symbols: vec!["nothing", "KeepAlive", "Interested", "Have", "Request", "Piece", "Cancel"], intervals: 6, handshaken: true, outgoing: false },
        ]
    } else {
        vec![
            // messages of kinds the client does not know are messages too
            Timed { slots: vec![60], symbols: vec!["nothing", "KeepAlive", "Extended", "Port", "Have"], intervals: 6, handshaken: true, outgoing: true },
            Timed { slots: vec![30, 60, 90], symbols: vec!["nothing", "KeepAlive", "Have", "Choke", "Unchoke", "Request"], intervals: 6, handshaken: true, outgoing: true },
            Timed { slots: vec![1, 119], symbols: vec!["nothing", "KeepAlive", "Have", "Interested"], intervals: 6, handshaken: true, outgoing: true },
            // peers that connect (or are connected to) and stay silent, or handshake late
            Timed { slots: vec![60], symbols: vec!["nothing", "Handshake", "KeepAlive", "Have"], intervals: 5, handshaken: false, outgoing: true },
            Timed { slots: vec![60], symbols: vec!["nothing", "Handshake", "KeepAlive", "Have"], intervals: 5, handshaken: false, outgoing: false },
            // manager decisions (choke rotation: Choke / Unchoke written by the client) at any slot
            Timed { slots: vec![60], symbols: vec!["nothing", "Interested", "Rotate", "KeepAlive"], intervals: 7, handshaken: true, outgoing: true },
            // a busy manager holds the connection task up across keep-alive deadlines
            Timed { slots: vec![60], symbols: vec!["nothing", "Unchoke", "Choke", "Pause", "Resume"], intervals: 8, handshaken: true, outgoing: true },
            // every message kind as the only sign of life
            Timed { slots: vec![60], symbols: vec!["nothing", "KeepAlive", "Choke", "Unchoke", "Interested", "NotInterested", "Have", "Bitfield", "Request", "Piece", "Cancel"], intervals: 4, handshaken: true, outgoing: true },
        ]
    }
}

/// The inactivity close falls into a moment in which the manager is busy and its command queue is
/// full (the rest of a big swarm reported statistics): `busy_from` .. `busy_to` in ms. The silent
/// connection (it holds a reservation) must be closed, forgotten and its piece released once the
/// manager is back -- the task's last words must not get lost.
pub fn full_queue_close_case(dir: &std::path::PathBuf, busy_from: u64, busy_to: u64, verbose: bool) -> Option<(&'static str, String)> {
    let t = Torrent::new("t", 16384, &[("f", 16384 * 2)], true);
    let mut w = World::new(&WorldCfg { torrent: t.clone(), have: vec![], peers: vec![peer_cfg(0, true)], gated: false, stale: vec![] }, dir);
    w.add_mgr_peer();
    let id = w.peers[0].cfg.id;
    w.feed(0, &[refwire::handshake(t.meta.info_hash(), &id), Msg::Bitfield(vec![0xc0]), Msg::Unchoke]);
    w.step(&Ev::AdvanceTo(busy_from), &[]);
    w.step(&Ev::PauseManager, &[]);
    w.step(&Ev::FillQueue, &[]);
    if w.queue_filled == 0 {
        return Some(("MACHINERY", "the queue could not be filled".to_string()));
    }
    w.step(&Ev::AdvanceTo(busy_to), &[]);
    w.step(&Ev::ResumeManager, &[]);
    w.step(&Ev::AdvanceTo(busy_to.max(360_000) + 1_000), &[]);
    let snap = w.snap();
    let listed = snap.peers.iter().any(|x| x.addr == w.peers[0].cfg.addr);
    let ended = w.peers[0].ended.get();
    if verbose {
        println!("busy {}..{} ms: task ended={} listed={} statuses={:?} handled at the end: {:?}", busy_from, busy_to, ended, listed, snap.statuses, w.cmds);
    }
    if let Some(d) = &w.dead {
        return Some(("manager-died", d.clone()));
    }
    if !ended || listed || snap.statuses.iter().any(|x| matches!(x, rdest::verif::Status::Reserved(_))) {
        return Some(("silent-peer-not-dropped", format!("silent since t=0; the manager was busy with a full command queue from {} s to {} s; at {} s: connection task ended={}, manager still lists the peer={}, statuses {:?}", busy_from / 1000, busy_to / 1000, busy_to.max(360_000) / 1000 + 1, ended, listed, snap.statuses)));
    }
    None
}

/// A peer that asks for a lot and then neither reads nor writes any more: the client's connection
/// task ends up inside a socket write that cannot proceed, where no timer of its select loop runs.
/// Such a connection delivers nothing at all, so it must be closed and forgotten within three
/// intervals like any silent one. Real session (every piece owned), real accept path, loopback TCP;
/// paused clock: after the peer's single write the test lets 400 virtual seconds pass.
pub fn stuck_writer_case(dir: &std::path::PathBuf, requests: u32) -> Result<Option<(&'static str, String)>, String> {
    use tokio::io::AsyncWriteExt;
    core::wipe_dir(dir);
    rdest::verif::clear_snapshots();
    rdest::verif::set_choices(vec![]);
    rdest::verif::set_net(None);
    rdest::verif::publish_listen_addr(None);
    let t = Torrent::new("t", 16384, &[("f", 16384 * 2)], true);
    for i in 0..t.pieces.len() {
        t.store_piece(dir, i);
    }
    let rt = tokio::runtime::Builder::new_current_thread().enable_all().start_paused(true).build().map_err(|e| e.to_string())?;
    let local = tokio::task::LocalSet::new();
    let meta = t.meta.clone();
    // real time passes without the paused clock moving: this task stays runnable
    async fn real_ms(ms: u64) {
        let until = std::time::Instant::now() + std::time::Duration::from_millis(ms);
        while std::time::Instant::now() < until {
            tokio::task::yield_now().await;
            std::thread::sleep(std::time::Duration::from_micros(200));
        }
    }
    let res = local.block_on(&rt, async {
        rdest::verif::set_http(Some(Box::new(move |_req: &reqwest::Request| crate::httpfake::respond(200, crate::fullworld::tracker_body(&[])))));
        let mut session = rdest::Session::new(meta, *crate::world::OWN_ID);
        for i in 0..2 {
            session.verif_set_status(i, rdest::verif::Status::Have);
        }
        let session_task = tokio::task::spawn_local(async move { session.verif_run().await });
        let mut addr = None;
        for _ in 0..400 {
            real_ms(5).await;
            if let Some(a) = rdest::verif::listen_addr() {
                addr = Some(a);
                break;
            }
        }
        let addr = addr.ok_or("the session never published its listening address".to_string())?;
        let sock = tokio::net::TcpSocket::new_v4().map_err(|e| e.to_string())?;
        let _ = sock.set_recv_buffer_size(16 * 1024);
        let mut p = sock.connect(std::net::SocketAddr::from(([127, 0, 0, 1], addr.port()))).await.map_err(|e| format!("cannot dial the client: {}", e))?;
        let local_addr = p.local_addr().map_err(|e| e.to_string())?.to_string();
        let mut out = vec![];
        for m in [refwire::handshake(t.meta.info_hash(), b"-HS0001-stuckwriter0"), Msg::Bitfield(vec![0x00]), Msg::Interested] {
            out.extend(refwire::encode(&m));
        }
        for k in 0..requests {
            out.extend(refwire::encode(&Msg::Request(k % 2, 0, 16384)));
        }
        p.write_all(&out).await.map_err(|e| e.to_string())?;
        // the client works on it until its write cannot proceed (P never reads)
        real_ms(1500).await;
        let listed = |a: &str| rdest::verif::session_snapshot().map(|s| s.peers.iter().any(|x| x.addr == a)).unwrap_or(false);
        if !listed(&local_addr) {
            return Err(format!("the flooding peer {} is not registered with the manager after 1.5 s: {:?}", local_addr, rdest::verif::session_snapshot().map(|s| s.peers.iter().map(|p| p.addr.clone()).collect::<Vec<_>>())));
        }
        // silence: 400 virtual seconds (more than three keep-alive intervals)
        tokio::time::sleep(std::time::Duration::from_secs(400)).await;
        real_ms(300).await;
        let still = listed(&local_addr);
        let died = session_task.is_finished();
        session_task.abort();
        drop(p);
        if died {
            return Ok(Some(("manager-died", format!("{:?}", core::take_last_panic()))));
        }
        if still {
            return Ok(Some(("silent-peer-not-dropped", format!("a peer sent {} requests in one go and then neither read nor wrote anything: 400 s later the manager still lists it (its connection task sits in a socket write, where neither the keep-alive timer nor anything else of its loop runs)", requests))));
        }
        Ok(None)
    });
    rdest::verif::set_http(None);
    res
}

/// A silent peer that has also stopped reading, with only SHORT messages to write to it (real
/// loopback TCP with 4 KiB socket buffers, paused clock; the harness plays the manager and the
/// peer): the peer handshakes, unchokes us and then neither reads nor writes; pieces complete
/// elsewhere, one 9-byte Have per piece, until the connection task's write cannot proceed. Within
/// 400 virtual seconds the task must have reported the end of the connection (KillReq, whatever
/// the reason): nothing but silence came from the peer for more than three intervals.
pub fn stuck_small_writer_case(haves: usize) -> Result<Option<(&'static str, String)>, String> {
    use rdest::verif::{Bitfield, BroadCmd, InitCmd, PeerCmd, PeerHandler, UnchokeCmd};
    use std::cell::RefCell;
    use std::rc::Rc;
    use tokio::io::{AsyncReadExt, AsyncWriteExt};
    use tokio::sync::{broadcast, mpsc};
    rdest::verif::clear_snapshots();
    rdest::verif::set_choices(vec![]);
    rdest::verif::set_net(None);
    core::set_quiet_panics(true);
    let info_hash = [9u8; 20];
    let pieces_num = haves + 1;
    let rt = tokio::runtime::Builder::new_current_thread().enable_all().start_paused(true).build().map_err(|e| e.to_string())?;
    let local = tokio::task::LocalSet::new();
    async fn real_ms(ms: u64) {
        let until = std::time::Instant::now() + std::time::Duration::from_millis(ms);
        while std::time::Instant::now() < until {
            tokio::task::yield_now().await;
            std::thread::sleep(std::time::Duration::from_micros(200));
        }
    }
    local.block_on(&rt, async {
        let lsock = tokio::net::TcpSocket::new_v4().map_err(|e| e.to_string())?;
        lsock.set_recv_buffer_size(4096).map_err(|e| e.to_string())?;
        lsock.bind("127.0.0.1:0".parse().unwrap()).map_err(|e| e.to_string())?;
        let listener = lsock.listen(4).map_err(|e| e.to_string())?;
        let peer_addr = listener.local_addr().map_err(|e| e.to_string())?;
        let csock = tokio::net::TcpSocket::new_v4().map_err(|e| e.to_string())?;
        csock.set_send_buffer_size(4096).map_err(|e| e.to_string())?;
        let (ours, accepted) = tokio::join!(csock.connect(peer_addr), listener.accept());
        let ours = ours.map_err(|e| e.to_string())?;
        let (mut peer, _) = accepted.map_err(|e| e.to_string())?;
        let addr = peer_addr.to_string();
        let (peer_tx, mut peer_rx) = mpsc::channel(64);
        let (broad, broad_rx) = broadcast::channel(32);
        let killed: Rc<RefCell<Option<(u64, String)>>> = Rc::new(RefCell::new(None));
        let killed2 = killed.clone();
        let t0 = tokio::time::Instant::now();
        tokio::task::spawn_local(async move {
            while let Some(cmd) = peer_rx.recv().await {
                match cmd {
                    PeerCmd::Init { resp_ch, .. } => {
                        let _ = resp_ch.send(InitCmd::SendBitfield { bitfield: Bitfield::from_vec(&vec![false; pieces_num]) });
                    }
                    PeerCmd::RecvUnchoke { resp_ch, .. } => {
                        let _ = resp_ch.send(UnchokeCmd::Ignore);
                    }
                    PeerCmd::KillReq { reason, .. } => {
                        if killed2.borrow().is_none() {
                            *killed2.borrow_mut() = Some((t0.elapsed().as_secs(), reason));
                        }
                    }
                    _ => (),
                }
            }
        });
        let mut handler = PeerHandler::new(addr.clone(), *crate::world::OWN_ID, None, info_hash, pieces_num, peer_tx, broad_rx);
        let task = tokio::task::spawn_local(async move { handler.run_outgoing(ours).await });
        peer.write_all(&[refwire::encode(&refwire::handshake(&info_hash, b"-HS0001-smallwrites0")), refwire::encode(&Msg::Unchoke)].concat()).await.map_err(|e| e.to_string())?;
        // the peer reads the client's handshake and bitfield, then never again
        let mut hello = vec![0u8; 68 + 4 + 1 + (pieces_num + 7) / 8];
        let mut got = 0usize;
        let started = std::time::Instant::now();
        while got < hello.len() {
            if started.elapsed() > std::time::Duration::from_secs(10) {
                return Err("no handshake and bitfield from the client within 10 s".to_string());
            }
            tokio::select! {
                biased;
                r = peer.read(&mut hello[got..]) => match r {
                    Ok(0) | Err(_) => return Err("the client closed the connection during the handshake".to_string()),
                    Ok(n) => got += n,
                },
                _ = real_ms(5) => {}
            }
        }
        real_ms(100).await;
        // pieces complete elsewhere until the task no longer takes the broadcasts
        let mut sent = 0usize;
        'outer: for piece_index in 0..haves {
            if broad.send(BroadCmd::SendHave { piece_index }).is_err() {
                break;
            }
            sent += 1;
            let waiting = std::time::Instant::now();
            while broad.len() >= 16 {
                real_ms(1).await;
                if waiting.elapsed() > std::time::Duration::from_millis(500) {
                    break 'outer; // the task sits in its write
                }
            }
        }
        let blocked = broad.len() >= 16;
        // silence: 400 virtual seconds (more than three keep-alive intervals)
        tokio::time::sleep(std::time::Duration::from_secs(400)).await;
        real_ms(200).await;
        let k = killed.borrow().clone();
        task.abort();
        drop(peer);
        match k {
            Some(_) => Ok(None),
            None => Ok(Some(("silent-peer-not-dropped", format!("a peer handshook, unchoked us and then neither read nor wrote anything (socket buffers of 4 KiB); {} pieces completed elsewhere (one 9-byte Have each; the connection task stopped taking broadcasts: {}): 400 virtual seconds later the task has not reported the end of the connection, so the manager keeps the peer's record and reservation", sent, blocked)))),
        }
    })
}

pub fn run(ctx: &Ctx) -> Outcome {
    let mut total = explore::Stats { exhaustive: true, ..Default::default() };
    let mut per = vec![];
    for s in scenarios(ctx.tier == core::Tier::Thorough) {
        let depth = (s.intervals * s.slots.len() as u64) as usize;
        let scripts = (s.symbols.len() as f64).powi(depth as i32);
        let st = explore::bfs(ctx, &s, depth, ctx.tier.pick(20, 10));
        per.push(json!({"scenario": s.name(), "states": st.states, "transitions": st.transitions, "depth_completed": st.depth_completed, "timed_scripts_covered": scripts, "frontier": st.frontier_sizes}));
        total.merge(&st);
    }
    for d in if ctx.tier == core::Tier::Thorough { vec![Duo { pieces: 4, intervals: 5 }, Duo { pieces: 6, intervals: 6 }] } else { vec![Duo { pieces: 4, intervals: 4 }] } {
        let depth = (d.intervals * 2) as usize;
        let st = explore::bfs(ctx, &d, depth, ctx.tier.pick(20, 10));
        per.push(json!({"scenario": Scenario::name(&d), "states": st.states, "transitions": st.transitions, "depth_completed": st.depth_completed}));
        total.merge(&st);
    }
    // the close itself while the manager's queue is full
    {
        let dir = core::private_cwd("c20", "fullq");
        let mut rows = vec![];
        for (from, to) in [(355_000u64, 365_000u64), (359_000, 361_000), (350_000, 420_000), (235_000, 245_000), (115_000, 125_000)] {
            let v = full_queue_close_case(&dir, from, to, false);
            rows.push(json!({"busy_from_ms": from, "busy_to_ms": to, "ok": v.is_none()}));
            if let Some((class, why)) = v {
                if class == "MACHINERY" {
                    ctx.machinery_error(why);
                } else {
                    ctx.violation(class, why, json!({"scenario": "fullq", "from": from, "to": to, "history": []}));
                }
            }
        }
        per.push(json!({"scenario": "inactivity close while the manager's queue is full", "cases": rows}));
    }
    // a peer that stops reading: the connection task sits in a socket write
    {
        let dir = core::private_cwd("c20", "stuck");
        for requests in [0u32, 10, 3000] {
            match stuck_writer_case(&dir, requests) {
                Ok(None) => per.push(json!({"scenario": format!("peer sends {} requests, then neither reads nor writes (real socket, paused clock)", requests), "ok": true})),
                Ok(Some((class, why))) => {
                    per.push(json!({"scenario": format!("peer sends {} requests, then neither reads nor writes (real socket, paused clock)", requests), "violation": class}));
                    ctx.violation(class, why, json!({"scenario": "stuck", "requests": requests, "history": []}));
                }
                Err(e) => ctx.machinery_error(format!("stuck-writer run ({} requests) could not be carried out: {}", requests, e)),
            }
        }
        // the same with short messages only (a Have per piece completed elsewhere)
        for haves in [40usize, 20000] {
            match stuck_small_writer_case(haves) {
                Ok(None) => per.push(json!({"scenario": format!("silent peer that does not read, up to {} Have frames to write (real socket with 4 KiB buffers, paused clock)", haves), "ok": true})),
                Ok(Some((class, why))) => {
                    per.push(json!({"scenario": format!("silent peer that does not read, up to {} Have frames to write (real socket with 4 KiB buffers, paused clock)", haves), "violation": class}));
                    ctx.violation(class, why, json!({"scenario": "stucksmall", "haves": haves, "history": []}));
                }
                Err(e) => ctx.machinery_error(format!("stuck-small-writer run ({} haves) could not be carried out: {}", haves, e)),
            }
        }
    }
    let mut o = Outcome::new("model_checking");
    explore::stats_outcome(&total, &mut o);
    o.set("scenarios", Value::Array(per));
    o.set("rule", json!("each 120 s keep-alive interval is cut at the listed slot offsets; an event = advance the paused clock to the next slot, then feed one symbol of the alphabet (or nothing); BFS over all scripts for the stated number of intervals; states are merged when manager snapshot, connection-task snapshot (keep-alive counter, flags, reservation, byte counters), slot number and the monitor's summary agree, so the number of timed scripts covered (symbols^slots) is far larger than the number of states. duo-* scenarios: two connections asked for the same pieces (end game); A sends at most keep-alives, B answers its outstanding request (completing a piece, which cancels and re-assigns A) or sends another live message, at two slots per interval; A must be gone 360 s after its last live message whatever B does. Plus five scripted cases in which the manager is busy with a FULL command queue (64 statistics reports of a manager-only peer) around a keep-alive tick of a silent connection that holds a reservation (355..365 s, 359..361 s, 350..420 s, 235..245 s, 115..125 s): once the manager is back the connection must be closed, forgotten and its piece released. Plus one real-socket run under the paused clock: a peer dials the real listener of a session that owns every piece, sends handshake, bitfield, interest and 0 / 10 / 3000 requests in one write and then neither reads nor writes; 400 virtual seconds later it must be gone from the manager's records."));
    o.assume("the connection holds a reservation (handshake, bitfield, unchoke are fed at t=0) except in the -nohs scenarios, where the peer is silent from the start or handshakes at some slot (outgoing and incoming connections); messages arrive at slot times only, i.e. at fixed offsets from the 120 s timer; slots at +1 s and +119 s probe both sides of each tick");
    o.assume("merging states by (real state, slot, which interval the last live message fell into) is sound for the oracle because (a)-(c) only read those");
    o
}

pub fn replay(_ctx: &Ctx, r: &Value) -> i32 {
    let name = r["scenario"].as_str().unwrap();
    if name == "stuck" {
        let dir = core::private_cwd("c20", "replay");
        return match stuck_writer_case(&dir, r["requests"].as_u64().unwrap_or(3000) as u32) {
            Ok(Some((class, why))) => {
                println!("VIOLATION property=C20 replay=<this file>\n  class={} {}", class, why);
                1
            }
            Ok(None) => {
                println!("holds for this run");
                0
            }
            Err(e) => {
                eprintln!("could not be carried out: {}", e);
                2
            }
        };
    }
    if name == "stucksmall" {
        return match stuck_small_writer_case(r["haves"].as_u64().unwrap_or(20000) as usize) {
            Ok(Some((class, why))) => {
                println!("VIOLATION property=C20 replay=<this file>\n  class={} {}", class, why);
                1
            }
            Ok(None) => {
                println!("holds for this run");
                0
            }
            Err(e) => {
                eprintln!("could not be carried out: {}", e);
                2
            }
        };
    }
    if name == "fullq" {
        let dir = core::private_cwd("c20", "replay");
        return match full_queue_close_case(&dir, r["from"].as_u64().unwrap(), r["to"].as_u64().unwrap(), true) {
            Some((class, why)) => {
                println!("VIOLATION property=C20 replay=<this file>\n  class={} {}", class, why);
                1
            }
            None => {
                println!("holds for this case");
                0
            }
        };
    }
    if let Some(rest) = name.strip_prefix("duo-") {
        let pieces: usize = rest.split("pieces-").next().unwrap().parse().unwrap();
        let intervals: u64 = rest.split("pieces-").nth(1).unwrap().parse().unwrap();
        return explore::replay_verbose(&Duo { pieces, intervals }, &explore::hist_from_json(&r["history"]), "C20");
    }
    for thorough in [false, true] {
        for s in scenarios(thorough) {
            if s.name() == name {
                return explore::replay_verbose(&s, &explore::hist_from_json(&r["history"]), "C20");
            }
        }
    }
    eprintln!("unknown scenario {}", name);
    2
}
