//! Common core of every check: tiers, seeds, violations with replay files, known findings,
//! evidence files, panic capture, per-thread scratch directories and a small worker pool.

use serde_json::{json, Map, Value};
use std::cell::RefCell;
use std::collections::{BTreeMap, BTreeSet};
use std::path::{Path, PathBuf};
use std::sync::atomic::{AtomicUsize, Ordering};
use std::sync::Mutex;
use std::time::Instant;

pub const VERIF_DIR: &str = "/verif";

#[derive(Clone, Copy, PartialEq, Eq, Debug)]
pub enum Tier {
    Quick,
    Thorough,
}

impl Tier {
    pub fn name(self) -> &'static str {
        match self {
            Tier::Quick => "quick",
            Tier::Thorough => "thorough",
        }
    }
    pub fn pick<T>(self, quick: T, thorough: T) -> T {
        match self {
            Tier::Quick => quick,
            Tier::Thorough => thorough,
        }
    }
}

/// One violation of a property: `class` is the specific failing input class / history
/// signature (matched against known_findings.json), `replay` everything needed to re-execute it.
#[derive(Clone, Debug)]
pub struct Violation {
    pub class: String,
    pub summary: String,
    pub replay: Value,
}

pub struct Ctx {
    pub id: String,
    pub tier: Tier,
    pub seed: u64,
    pub start: Instant,
    violations: Mutex<BTreeMap<String, Vec<Violation>>>,
    violation_count: AtomicUsize,
    machinery_errors: Mutex<Vec<String>>,
    pub wall_cap_s: f64,
}

/// Maximum number of violations kept per class (all are counted).
const KEEP_PER_CLASS: usize = 5;

impl Ctx {
    pub fn new(id: &str, tier: Tier, seed: u64) -> Ctx {
        Ctx {
            id: id.to_string(),
            tier,
            seed,
            start: Instant::now(),
            violations: Mutex::new(BTreeMap::new()),
            violation_count: AtomicUsize::new(0),
            machinery_errors: Mutex::new(vec![]),
            wall_cap_s: match tier {
                Tier::Quick => 50.0,
                Tier::Thorough => 1500.0,
            },
        }
    }

    pub fn elapsed(&self) -> f64 {
        self.start.elapsed().as_secs_f64()
    }

    /// True once the wall-clock cap of the tier is exceeded; engines then stop expanding and
    /// report `exhaustive: false` together with what was completely covered.
    pub fn over_budget(&self) -> bool {
        self.elapsed() > self.wall_cap_s
    }

    pub fn violation(&self, class: &str, summary: String, replay: Value) {
        self.violation_count.fetch_add(1, Ordering::Relaxed);
        let mut v = self.violations.lock().unwrap();
        let e = v.entry(class.to_string()).or_default();
        if e.len() < KEEP_PER_CLASS {
            e.push(Violation {
                class: class.to_string(),
                summary,
                replay,
            });
        }
    }

    pub fn violation_total(&self) -> usize {
        self.violation_count.load(Ordering::Relaxed)
    }

    pub fn class_count(&self, class: &str) -> usize {
        self.violations
            .lock()
            .unwrap()
            .get(class)
            .map(|v| v.len())
            .unwrap_or(0)
    }

    /// A failure of the machinery itself (nondeterministic replay, engine crash): never a verdict.
    pub fn machinery_error(&self, msg: String) {
        self.machinery_errors.lock().unwrap().push(msg);
    }

    pub fn seeded_pick(&self, n: usize, k: usize) -> Vec<usize> {
        // `k` indices out of `n`, spread by the seed; used only to choose printed samples.
        if n == 0 {
            return vec![];
        }
        let mut x = self.seed.wrapping_mul(0x9E3779B97F4A7C15).wrapping_add(0xD1B54A32D192ED03);
        let mut out = BTreeSet::new();
        out.insert(0);
        out.insert(n - 1);
        for _ in 0..k * 4 {
            x ^= x << 13;
            x ^= x >> 7;
            x ^= x << 17;
            out.insert((x % n as u64) as usize);
            if out.len() >= k {
                break;
            }
        }
        out.into_iter().collect()
    }
}

/// What a check hands back for its evidence file.
pub struct Outcome {
    pub level: &'static str,
    pub coverage: Map<String, Value>,
    pub assumptions: Vec<String>,
}

impl Outcome {
    pub fn new(level: &'static str) -> Outcome {
        Outcome {
            level,
            coverage: Map::new(),
            assumptions: vec![],
        }
    }
    pub fn set(&mut self, key: &str, v: Value) -> &mut Self {
        self.coverage.insert(key.to_string(), v);
        self
    }
    pub fn assume(&mut self, s: &str) -> &mut Self {
        self.assumptions.push(s.to_string());
        self
    }
}

#[derive(Clone, Debug)]
pub struct KnownFinding {
    pub property: String,
    pub class: String,
    pub what: String,
}

pub fn load_known_findings() -> Vec<KnownFinding> {
    let path = Path::new(VERIF_DIR).join("known_findings.json");
    let text = match std::fs::read_to_string(&path) {
        Ok(t) => t,
        Err(_) => return vec![],
    };
    let v: Value = serde_json::from_str(&text).expect("known_findings.json is not valid JSON");
    let mut out = vec![];
    if let Some(arr) = v.get("findings").and_then(|f| f.as_array()) {
        for f in arr {
            out.push(KnownFinding {
                property: f["property"].as_str().unwrap_or("").to_string(),
                class: f["class"].as_str().unwrap_or("").to_string(),
                what: f["what"].as_str().unwrap_or("").to_string(),
            });
        }
    }
    out
}

fn digest(v: &Value) -> String {
    let mut h = sha1_smol::Sha1::new();
    h.update(v.to_string().as_bytes());
    h.digest().to_string()[..12].to_string()
}

/// Print verdict lines, write replay files and the evidence file; returns the process exit code.
pub fn finish(ctx: &Ctx, mut outcome: Outcome) -> i32 {
    let known = load_known_findings();
    let violations = ctx.violations.lock().unwrap();
    let mut unknown = 0usize;
    let mut known_hit = vec![];
    let replay_dir = Path::new(VERIF_DIR).join("replays");
    let _ = std::fs::create_dir_all(&replay_dir);
    let mut classes = vec![];
    for (class, list) in violations.iter() {
        classes.push(json!({"class": class, "kept": list.len(), "first": list[0].summary}));
        let is_known = known
            .iter()
            .find(|k| k.property == ctx.id && &k.class == class);
        match is_known {
            Some(k) => {
                println!(
                    "KNOWN-FINDING: property={} class={} {} (e.g. {})",
                    ctx.id, class, k.what, list[0].summary
                );
                known_hit.push(class.clone());
            }
            None => {
                for (n, v) in list.iter().enumerate() {
                    let body = json!({
                        "property": ctx.id,
                        "class": v.class,
                        "summary": v.summary,
                        "tier": ctx.tier.name(),
                        "replay": v.replay,
                    });
                    let path = replay_dir.join(format!("{}-{}.json", ctx.id, digest(&body)));
                    let _ = std::fs::write(&path, serde_json::to_string_pretty(&body).unwrap());
                    if n == 0 {
                        println!(
                            "VIOLATION property={} replay={}",
                            ctx.id,
                            path.display()
                        );
                        println!("  class={} {}", v.class, v.summary);
                    }
                    unknown += 1;
                }
            }
        }
    }
    let merrs = ctx.machinery_errors.lock().unwrap();
    for e in merrs.iter().take(10) {
        eprintln!("MACHINERY-ERROR property={} {}", ctx.id, e);
    }

    outcome.set("violation_classes", Value::Array(classes));
    outcome.set("known_findings_hit", json!(known_hit));
    let ev = json!({
        "property_id": ctx.id,
        "tier": ctx.tier.name(),
        "seed": ctx.seed,
        "level": outcome.level,
        "coverage": Value::Object(outcome.coverage),
        "assumptions": outcome.assumptions,
        "wall_s": (ctx.elapsed() * 1000.0).round() / 1000.0,
        "violations": ctx.violation_total(),
    });
    let ev_dir = Path::new(VERIF_DIR).join("evidence");
    let _ = std::fs::create_dir_all(&ev_dir);
    std::fs::write(
        ev_dir.join(format!("{}.json", ctx.id)),
        serde_json::to_string_pretty(&ev).unwrap() + "\n",
    )
    .expect("cannot write evidence file");

    // a violation that was found stays a verdict even if the machinery also complained (a broken
    // tree can make a scripted context impossible to establish); machinery trouble alone is exit 2
    if unknown > 0 {
        return 1;
    }
    if !merrs.is_empty() {
        return 2;
    }
    println!(
        "OK property={} tier={} wall={:.1}s violations_known={}",
        ctx.id,
        ctx.tier.name(),
        ctx.elapsed(),
        ctx.violation_total()
    );
    0
}

// -------------------------------------------------------------------------------------------
// Panic capture
// -------------------------------------------------------------------------------------------

thread_local! {
    static LAST_PANIC: RefCell<Option<String>> = RefCell::new(None);
    static QUIET: RefCell<bool> = RefCell::new(false);
}

pub fn install_panic_hook() {
    let default = std::panic::take_hook();
    std::panic::set_hook(Box::new(move |info| {
        let quiet = QUIET.with(|q| *q.borrow());
        let msg = {
            let payload = info.payload();
            let text = if let Some(s) = payload.downcast_ref::<&str>() {
                s.to_string()
            } else if let Some(s) = payload.downcast_ref::<String>() {
                s.clone()
            } else {
                "<non-string panic>".to_string()
            };
            match info.location() {
                Some(l) => format!("{} at {}:{}", text, l.file(), l.line()),
                None => text,
            }
        };
        LAST_PANIC.with(|p| *p.borrow_mut() = Some(msg));
        if !quiet {
            default(info);
        }
    }));
}

/// Panics on this thread are recorded instead of printed while `quiet` is set.
pub fn set_quiet_panics(quiet: bool) {
    QUIET.with(|q| *q.borrow_mut() = quiet);
}

pub fn take_last_panic() -> Option<String> {
    LAST_PANIC.with(|p| p.borrow_mut().take())
}

/// Run `f`, turning a panic into `Err(message with location)`.
pub fn catch<R>(f: impl FnOnce() -> R) -> Result<R, String> {
    let prev = QUIET.with(|q| *q.borrow());
    set_quiet_panics(true);
    let _ = take_last_panic();
    let r = std::panic::catch_unwind(std::panic::AssertUnwindSafe(f));
    set_quiet_panics(prev);
    match r {
        Ok(v) => Ok(v),
        Err(_) => Err(take_last_panic().unwrap_or_else(|| "panic".to_string())),
    }
}

// -------------------------------------------------------------------------------------------
// Scratch directories and workers
// -------------------------------------------------------------------------------------------

pub fn scratch_root() -> PathBuf {
    PathBuf::from(format!("/dev/shm/rdv.{}", std::process::id()))
}

pub fn cleanup_scratch() {
    let _ = std::fs::remove_dir_all(scratch_root());
}

/// Remove scratch trees left behind by runs that were killed (their pid is gone).
pub fn cleanup_stale_scratch() {
    if let Ok(rd) = std::fs::read_dir("/dev/shm") {
        for e in rd.flatten() {
            let name = e.file_name().to_string_lossy().to_string();
            if let Some(pid) = name.strip_prefix("rdv.") {
                if pid.parse::<u32>().is_ok() && !std::path::Path::new(&format!("/proc/{}", pid)).exists() {
                    let _ = std::fs::remove_dir_all(e.path());
                }
            }
        }
    }
}

/// Give the calling thread (and the threads it spawns later, e.g. tokio's blocking pool) a private
/// working directory `<scratch>/<name>/<nest...>` and return it.
pub fn private_cwd(name: &str, nest: &str) -> PathBuf {
    unsafe {
        if libc::unshare(libc::CLONE_FS) != 0 {
            panic!("unshare(CLONE_FS) failed: {}", std::io::Error::last_os_error());
        }
    }
    let dir = scratch_root().join(name).join(nest);
    std::fs::create_dir_all(&dir).expect("cannot create scratch dir");
    std::env::set_current_dir(&dir).expect("cannot chdir to scratch dir");
    dir
}

/// Remove everything inside `dir` (but keep `dir`).
pub fn wipe_dir(dir: &Path) {
    if let Ok(rd) = std::fs::read_dir(dir) {
        for e in rd.flatten() {
            let p = e.path();
            if p.is_dir() && !p.is_symlink() {
                let _ = std::fs::remove_dir_all(&p);
            } else {
                let _ = std::fs::remove_file(&p);
            }
        }
    }
}

pub fn workers() -> usize {
    std::env::var("VERIF_WORKERS")
        .ok()
        .and_then(|v| v.parse().ok())
        .unwrap_or_else(|| {
            std::thread::available_parallelism()
                .map(|n| n.get())
                .unwrap_or(4)
                .min(16)
        })
}

/// Apply `f(worker_state, index, item)` to every item on a pool of threads; each thread builds its
/// own state with `init(worker_no)` (scratch directory, runtime, ...). Results keep input order.
pub fn par_map<T: Sync, S, R: Send>(
    items: &[T],
    init: impl Fn(usize) -> S + Sync,
    f: impl Fn(&mut S, usize, &T) -> R + Sync,
) -> Vec<R> {
    let n = workers().min(items.len().max(1));
    let next = AtomicUsize::new(0);
    let results: Mutex<Vec<Option<R>>> = Mutex::new((0..items.len()).map(|_| None).collect());
    let chunk = (items.len() / (n * 8)).clamp(1, 256);
    std::thread::scope(|scope| {
        for w in 0..n {
            let next = &next;
            let results = &results;
            let init = &init;
            let f = &f;
            std::thread::Builder::new()
                .stack_size(16 << 20)
                .spawn_scoped(scope, move || {
                    let mut state = init(w);
                    loop {
                        let start = next.fetch_add(chunk, Ordering::Relaxed);
                        if start >= items.len() {
                            break;
                        }
                        let end = (start + chunk).min(items.len());
                        let mut local = Vec::with_capacity(end - start);
                        for i in start..end {
                            local.push(f(&mut state, i, &items[i]));
                        }
                        let mut r = results.lock().unwrap();
                        for (k, v) in local.into_iter().enumerate() {
                            r[start + k] = Some(v);
                        }
                    }
                })
                .expect("cannot spawn worker");
        }
    });
    results
        .into_inner()
        .unwrap()
        .into_iter()
        .map(|r| r.expect("worker died"))
        .collect()
}

/// Split the index range `0..total` into contiguous slices processed in parallel; `f` returns a
/// per-slice accumulator which the caller merges.
pub fn par_ranges<S, A: Send>(
    total: u64,
    slices: usize,
    init: impl Fn(usize) -> S + Sync,
    f: impl Fn(&mut S, u64, u64) -> A + Sync,
) -> Vec<A> {
    let slices = slices.max(1) as u64;
    let step = (total + slices - 1) / slices.max(1);
    let ranges: Vec<(u64, u64)> = (0..slices)
        .map(|i| (i * step, ((i + 1) * step).min(total)))
        .filter(|(a, b)| a < b)
        .collect();
    par_map(&ranges, init, |s, _, (a, b)| f(s, *a, *b))
}

pub fn hex(bytes: &[u8]) -> String {
    bytes.iter().map(|b| format!("{:02X}", b)).collect()
}

/// Printable rendering of a byte string for samples and replays.
pub fn show(bytes: &[u8]) -> String {
    let mut s = String::new();
    for &b in bytes.iter().take(200) {
        if (0x20..0x7f).contains(&b) && b != b'\\' {
            s.push(b as char);
        } else {
            s.push_str(&format!("\\x{:02x}", b));
        }
    }
    if bytes.len() > 200 {
        s.push_str(&format!("...({} bytes)", bytes.len()));
    }
    s
}

pub fn sha1(data: &[u8]) -> [u8; 20] {
    let mut h = sha1_smol::Sha1::new();
    h.update(data);
    h.digest().bytes()
}
