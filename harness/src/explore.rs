//! Explicit-state breadth-first search over environment-event histories of a pumped world.
//! A state is the history reaching it; a successor is computed by building fresh real objects and
//! replaying (hist + event). States are deduplicated on a canonical key of the real objects.

use crate::core::{self, Ctx};
use crate::world::{Ev, World, WorldCfg};
use serde_json::{json, Value};
use std::collections::HashSet;
use std::path::PathBuf;

pub type Step = (String, Vec<usize>);

pub trait Scenario: Sync {
    type Mon: Default;
    fn name(&self) -> String;
    fn cfg(&self) -> WorldCfg;
    /// Enumerate the alternatives of every `thread_rng` draw the real code makes (tie-breaks)?
    fn explore_choices(&self) -> bool {
        false
    }
    /// Symbolic events enabled in this state (unique names).
    fn enabled(&self, w: &World, mon: &Self::Mon, depth: usize) -> Vec<String>;
    /// Concrete event for a symbolic one; may inspect what the client wrote so far.
    fn concretize(&self, w: &World, mon: &Self::Mon, sym: &str) -> Vec<Ev>;
    /// Invariants + monitor update; called after world creation (last = None) and after each step.
    fn check(&self, w: &World, mon: &mut Self::Mon, last: Option<&str>) -> Option<(&'static str, String)>;
    fn key(&self, w: &World, mon: &Self::Mon) -> String;
    /// Called before the first step of every replay (e.g. to register extra state).
    fn setup(&self, _w: &mut World, _mon: &mut Self::Mon) {}
    /// Situations of interest that hold in this state; counted per transition for the evidence
    /// (vacuity check: did the guarded situations actually occur?).
    fn tags(&self, _w: &World, _mon: &Self::Mon) -> Vec<&'static str> {
        vec![]
    }
}

/// What the search needs from any closed world (pumped or full-session).
pub trait Sys: Sync {
    type W;
    type Mon: Default;
    fn name(&self) -> String;
    fn explore_choices(&self) -> bool;
    /// Fresh real objects in their initial state (prefix events already applied).
    fn build(&self, dir: &PathBuf) -> (Self::W, Self::Mon);
    /// The world cannot take further events (e.g. the manager died).
    fn dead(&self, w: &Self::W) -> bool;
    fn enabled(&self, w: &Self::W, mon: &Self::Mon, depth: usize) -> Vec<String>;
    /// Execute one symbolic event; returns the choice points met: (arity, digit, group, is_shuffle).
    fn apply(&self, w: &mut Self::W, mon: &Self::Mon, sym: &str, digits: &[usize], verbose: bool) -> Vec<(usize, usize, usize, bool)>;
    fn check(&self, w: &Self::W, mon: &mut Self::Mon, last: Option<&str>) -> Option<(&'static str, String)>;
    fn key(&self, w: &Self::W, mon: &Self::Mon) -> String;
    fn tags(&self, _w: &Self::W, _mon: &Self::Mon) -> Vec<&'static str> {
        vec![]
    }
    /// Extra obligation for states the search does not expand (no event enabled, or depth bound
    /// reached); may run the world forward (e.g. "the fair continuation completes the download").
    fn final_check(&self, _w: &mut Self::W, _mon: &mut Self::Mon, _verbose: bool) -> Option<(&'static str, String)> {
        None
    }
    /// Classes of recorded findings (known_findings.json) of this scenario: a state showing one is
    /// reported (as KNOWN-FINDING by the front end) and explored further like any other state, so
    /// that other violations behind it are still found.
    fn tolerate(&self, _class: &str) -> bool {
        false
    }
}

impl<T: Scenario> Sys for T {
    type W = World;
    type Mon = <T as Scenario>::Mon;
    fn name(&self) -> String {
        Scenario::name(self)
    }
    fn explore_choices(&self) -> bool {
        Scenario::explore_choices(self)
    }
    fn build(&self, dir: &PathBuf) -> (World, Self::Mon) {
        let cfg = self.cfg();
        let mut world = World::new(&cfg, dir);
        let mut mon = <T as Scenario>::Mon::default();
        self.setup(&mut world, &mut mon);
        (world, mon)
    }
    fn dead(&self, w: &World) -> bool {
        w.dead.is_some()
    }
    fn enabled(&self, w: &World, mon: &Self::Mon, depth: usize) -> Vec<String> {
        Scenario::enabled(self, w, mon, depth)
    }
    fn apply(&self, world: &mut World, mon: &Self::Mon, sym: &str, digits: &[usize], verbose: bool) -> Vec<(usize, usize, usize, bool)> {
        let evs = self.concretize(world, mon, sym);
        let mut choice_log = vec![];
        let mut used = 0;
        for ev in &evs {
            // the scripted digits are consumed in order over the sub-steps of one event
            world.step(ev, &digits[used.min(digits.len())..]);
            used += world.choice_log.len();
            let offset = choice_log.last().map(|l: &(usize, usize, usize, bool)| l.2 + 1).unwrap_or(0);
            for (l, g) in world.choice_log.iter().zip(world.choice_groups.iter()) {
                choice_log.push((l.0, l.1, g.0 + offset, g.1));
            }
        }
        if verbose {
            let evs: Vec<String> = evs
                .iter()
                .map(|ev| match ev {
                    Ev::Feed(i, b) => format!("Feed({}, {} bytes: {:?})", i, b.len(), crate::refwire::decode_stream(b).0.iter().map(|m| m.short()).collect::<Vec<_>>()),
                    other => format!("{:?}", other),
                })
                .collect();
            println!("== {} {:?} -> {:?}", sym, digits, evs);
            println!("   manager handled: {:?}", world.cmds);
            for i in 0..world.peers.len() {
                if !world.new_msgs(i).is_empty() {
                    println!("   client wrote to peer {}: {:?}", i, world.new_msgs(i).iter().map(|m| m.short()).collect::<Vec<_>>());
                }
            }
            if let Some(d) = &world.dead {
                println!("   MANAGER DEAD: {}", d);
            }
        }
        choice_log
    }
    fn check(&self, w: &World, mon: &mut Self::Mon, last: Option<&str>) -> Option<(&'static str, String)> {
        Scenario::check(self, w, mon, last)
    }
    fn key(&self, w: &World, mon: &Self::Mon) -> String {
        Scenario::key(self, w, mon)
    }
    fn tags(&self, w: &World, mon: &Self::Mon) -> Vec<&'static str> {
        Scenario::tags(self, w, mon)
    }
}

pub struct Replayed<W, M> {
    pub world: W,
    pub mon: M,
    pub violation: Option<(&'static str, String)>,
    /// A tolerated (recorded) finding shown by the state after the LAST event of the history.
    pub tolerated: Option<(&'static str, String)>,
    /// Choice points of the last event: (arity, digit taken, group, group is a shuffle).
    pub choice_log: Vec<(usize, usize, usize, bool)>,
}

pub fn replay<S: Sys>(s: &S, dir: &PathBuf, hist: &[Step], verbose: bool) -> Replayed<S::W, S::Mon> {
    let (mut world, mut mon) = s.build(dir);
    let mut violation = s.check(&world, &mut mon, None);
    let mut tolerated = None;
    let mut choice_log = vec![];
    if verbose {
        println!("-- initial state: {}", s.key(&world, &mon));
    }
    if violation.is_none() {
        for (sym, digits) in hist {
            choice_log = s.apply(&mut world, &mon, sym, digits, verbose);
            violation = s.check(&world, &mut mon, Some(sym));
            tolerated = None;
            if verbose {
                println!("   state: {}", s.key(&world, &mon));
                println!("   situations: {:?}", s.tags(&world, &mon));
            }
            if let Some((class, why)) = &violation {
                if s.tolerate(class) {
                    if verbose {
                        println!("   recorded finding shown here: {} {}", class, why);
                    }
                    tolerated = violation.take();
                    continue;
                }
                break;
            }
        }
    }
    Replayed { world, mon, violation, tolerated, choice_log }
}

#[derive(Default, Clone, Debug)]
pub struct Stats {
    pub states: u64,
    pub transitions: u64,
    pub executions: u64,
    pub depth_completed: usize,
    pub exhaustive: bool,
    pub determinism_replays: u64,
    pub frontier_sizes: Vec<usize>,
    pub violations: u64,
    pub terminal_states: u64,
    pub samples: Vec<Value>,
    pub choice_points: u64,
    pub tags: std::collections::BTreeMap<String, u64>,
}

impl Stats {
    pub fn merge(&mut self, o: &Stats) {
        self.states += o.states;
        self.transitions += o.transitions;
        self.executions += o.executions;
        self.determinism_replays += o.determinism_replays;
        self.violations += o.violations;
        self.terminal_states += o.terminal_states;
        self.choice_points += o.choice_points;
        self.exhaustive &= o.exhaustive;
        self.samples.extend(o.samples.iter().cloned());
        for (k, v) in &o.tags {
            *self.tags.entry(k.clone()).or_default() += v;
        }
    }
}

struct Node {
    hist: Vec<Step>,
    enabled: Vec<String>,
}

struct Child {
    hist: Vec<Step>,
    tags: Vec<&'static str>,
    key: String,
    enabled: Vec<String>,
    violation: Option<(&'static str, String)>,
    tolerated: Option<(&'static str, String)>,
}

fn key_hash(k: &str) -> u128 {
    let d = core::sha1(k.as_bytes());
    u128::from_be_bytes(d[..16].try_into().unwrap())
}

/// Alternatives of one group of choice points. A shuffle of m elements is explored through the
/// m digit vectors that bring each element to the front once (the chooser returns the first
/// acceptable element of the shuffled, stably sorted list, so these cover every outcome of the
/// call without walking all m! permutations); a plain choice through all its values.
fn group_alternatives(arities: &[usize], is_shuffle: bool) -> Vec<Vec<usize>> {
    if is_shuffle {
        let m = arities[0];
        let mut alts = vec![vec![0; arities.len()]];
        for k in 1..m {
            let mut d = vec![0; arities.len()];
            // the draw for position i = k is the (m-1-k)-th of the group
            if m - 1 - k < d.len() {
                d[m - 1 - k] = k;
                alts.push(d);
            }
        }
        alts
    } else {
        (0..arities[0]).map(|v| vec![v]).collect()
    }
}

/// Run (hist + sym) for every alternative of every choice group met in the last event.
fn expand_child<S: Sys>(s: &S, dir: &PathBuf, hist: &[Step], sym: &str, depth: usize, max_depth: usize, out: &mut Vec<Child>, execs: &mut u64, choice_points: &mut u64) {
    fn rec<S: Sys>(s: &S, dir: &PathBuf, hist: &[Step], sym: &str, prefix: Vec<usize>, group_idx: usize, depth: usize, max_depth: usize, out: &mut Vec<Child>, execs: &mut u64, choice_points: &mut u64) {
        let mut h = hist.to_vec();
        h.push((sym.to_string(), prefix.clone()));
        let mut r = replay(s, dir, &h, false);
        *execs += 1;
        let log = r.choice_log.clone();
        // split the log into groups
        let mut groups: Vec<(usize, usize, bool)> = vec![]; // (start, len, is_shuffle)
        for (i, l) in log.iter().enumerate() {
            match groups.last_mut() {
                Some(g) if log[g.0].2 == l.2 => g.1 += 1,
                _ => groups.push((i, 1, l.3)),
            }
        }
        if !s.explore_choices() || group_idx >= groups.len() {
            let taken: Vec<usize> = log.iter().map(|l| l.1).collect();
            h.last_mut().unwrap().1 = if s.explore_choices() { taken } else { vec![] };
            let enabled = if r.violation.is_some() || s.dead(&r.world) { vec![] } else { s.enabled(&r.world, &r.mon, depth + 1) };
            let key = s.key(&r.world, &r.mon);
            let tags = s.tags(&r.world, &r.mon);
            let mut violation = r.violation.take();
            if violation.is_none() && !s.dead(&r.world) && (enabled.is_empty() || depth + 1 >= max_depth) {
                violation = s.final_check(&mut r.world, &mut r.mon, false);
            }
            let tolerated = r.tolerated.take();
            out.push(Child { key, tags, hist: h, enabled, violation, tolerated });
            return;
        }
        let (start, len, is_shuffle) = groups[group_idx];
        *choice_points += 1;
        let arities: Vec<usize> = log[start..start + len].iter().map(|l| l.0).collect();
        drop(r);
        for alt in group_alternatives(&arities, is_shuffle) {
            let mut p: Vec<usize> = log[..start].iter().map(|l| l.1).collect();
            p.extend(alt);
            rec(s, dir, hist, sym, p, group_idx + 1, depth, max_depth, out, execs, choice_points);
        }
    }
    rec(s, dir, hist, sym, vec![], 0, depth, max_depth, out, execs, choice_points);
}

pub fn hist_json(h: &[Step]) -> Value {
    Value::Array(h.iter().map(|(s, d)| if d.is_empty() { json!(s) } else { json!([s, d]) }).collect())
}

pub fn hist_from_json(v: &Value) -> Vec<Step> {
    v.as_array()
        .unwrap()
        .iter()
        .map(|e| match e {
            Value::String(s) => (s.clone(), vec![]),
            Value::Array(a) => (a[0].as_str().unwrap().to_string(), a[1].as_array().unwrap().iter().map(|d| d.as_u64().unwrap() as usize).collect()),
            _ => panic!("bad history entry"),
        })
        .collect()
}

/// Breadth-first search to `max_depth` events. Violations are reported to `ctx` with a replayable
/// history; a violating or dead state is not expanded further.
pub fn bfs<S: Sys>(ctx: &Ctx, s: &S, max_depth: usize, det_every: u64) -> Stats {
    let mut stats = Stats { exhaustive: true, ..Default::default() };
    let scen = s.name();
    // root
    let root_dir = core::private_cwd("bfs", &format!("root-{}", scen.replace(|c: char| !c.is_alphanumeric(), "_")));
    let mut r = replay(s, &root_dir, &[], false);
    stats.executions += 1;
    if r.violation.is_none() && s.enabled(&r.world, &r.mon, 0).is_empty() {
        r.violation = s.final_check(&mut r.world, &mut r.mon, false);
    }
    if let Some((class, why)) = &r.violation {
        ctx.violation(class, format!("[{}] initial state: {}", scen, why), json!({"scenario": scen, "history": []}));
        stats.violations += 1;
        return stats;
    }
    let mut visited: HashSet<u128> = HashSet::new();
    visited.insert(key_hash(&s.key(&r.world, &r.mon)));
    stats.states = 1;
    let mut frontier = vec![Node { hist: vec![], enabled: s.enabled(&r.world, &r.mon, 0) }];
    drop(r);

    for depth in 0..max_depth {
        stats.frontier_sizes.push(frontier.len());
        if frontier.is_empty() {
            stats.depth_completed = max_depth;
            break;
        }
        if ctx.over_budget() {
            stats.exhaustive = false;
            break;
        }
        let items: Vec<(usize, usize)> = frontier.iter().enumerate().flat_map(|(n, node)| (0..node.enabled.len()).map(move |e| (n, e))).collect();
        stats.terminal_states += frontier.iter().filter(|n| n.enabled.is_empty()).count() as u64;
        let results = core::par_map(
            &items,
            |w| {
                core::set_quiet_panics(true);
                core::private_cwd("bfs", &format!("w{}", w))
            },
            |dir, idx, (n, e)| {
                if ctx.over_budget() {
                    return (vec![], 0u64, 0u64, 0u64, false);
                }
                let node = &frontier[*n];
                let mut out = vec![];
                let mut execs = 0;
                let mut cps = 0;
                expand_child(s, dir, &node.hist, &node.enabled[*e], depth, max_depth, &mut out, &mut execs, &mut cps);
                let mut det = 0;
                if det_every > 0 && (idx as u64) % det_every == 0 {
                    for c in out.iter().take(1) {
                        let again = replay(s, dir, &c.hist, false);
                        det += 1;
                        let k2 = s.key(&again.world, &again.mon);
                        if k2 != c.key || again.violation.is_some() != c.violation.is_some() {
                            ctx.machinery_error(format!("nondeterministic replay in {} of {:?}: {} vs {}", s.name(), c.hist, c.key, k2));
                        }
                    }
                }
                (out, execs, det, cps, true)
            },
        );
        let mut next = vec![];
        let mut complete = true;
        for (children, execs, det, cps, done) in results {
            stats.executions += execs;
            stats.determinism_replays += det;
            stats.choice_points += cps;
            complete &= done;
            for c in children {
                stats.transitions += 1;
                if let Some((class, why)) = &c.violation {
                    stats.violations += 1;
                    ctx.violation(class, format!("[{}] after {:?}: {}", scen, c.hist.iter().map(|h| h.0.as_str()).collect::<Vec<_>>(), why), json!({"scenario": scen, "history": hist_json(&c.hist)}));
                    continue;
                }
                if let Some((class, why)) = &c.tolerated {
                    ctx.violation(class, format!("[{}] after {:?}: {}", scen, c.hist.iter().map(|h| h.0.as_str()).collect::<Vec<_>>(), why), json!({"scenario": scen, "history": hist_json(&c.hist)}));
                }
                for t in &c.tags {
                    *stats.tags.entry(t.to_string()).or_default() += 1;
                }
                if visited.insert(key_hash(&c.key)) {
                    stats.states += 1;
                    next.push(Node { hist: c.hist, enabled: c.enabled });
                }
            }
        }
        if !complete {
            stats.exhaustive = false;
            break;
        }
        stats.depth_completed = depth + 1;
        frontier = next;
    }
    if stats.depth_completed == max_depth && !frontier.is_empty() {
        stats.frontier_sizes.push(frontier.len());
    }
    for i in ctx.seeded_pick(frontier.len(), 2) {
        stats.samples.push(json!({"scenario": scen, "history": hist_json(&frontier[i].hist)}));
    }
    stats
}

/// Re-execute one recorded history step by step, printing everything.
pub fn replay_verbose<S: Sys>(s: &S, hist: &[Step], property: &str) -> i32 {
    let dir = core::private_cwd("bfs", "replay");
    core::set_quiet_panics(true);
    println!("scenario {} history {:?}", s.name(), hist);
    let mut r = replay(s, &dir, hist, true);
    if r.violation.is_none() && !s.dead(&r.world) {
        println!("-- obligation for unexpanded states (fair continuation etc.):");
        r.violation = s.final_check(&mut r.world, &mut r.mon, true);
    }
    match r.violation {
        Some((class, why)) => {
            println!("VIOLATION property={} replay=<this file>\n  class={} {}", property, class, why);
            1
        }
        None => {
            println!("no violation along this history");
            0
        }
    }
}

pub fn stats_outcome(stats: &Stats, o: &mut crate::core::Outcome) {
    o.set("states", json!(stats.states));
    o.set("transitions", json!(stats.transitions));
    o.set("traces_validated_against_impl", json!(stats.executions));
    o.set("executions", json!(stats.executions));
    o.set("determinism_replays", json!(stats.determinism_replays));
    o.set("choice_points_expanded", json!(stats.choice_points));
    o.set("terminal_states", json!(stats.terminal_states));
    o.set("exhaustive", json!(stats.exhaustive));
    o.set("transitions_in_which_situation_occurred", json!(stats.tags));
    if stats.samples.is_empty() {
        o.set("samples", json!([{"note": "no open frontier: every history ended"}]));
    } else {
        o.set("samples", Value::Array(stats.samples.clone()));
    }
}
