//! Torrent fixtures: position-coded content, a bencoded metainfo document built by the harness and
//! parsed by the real `Metainfo`, piece files on disk.

use crate::core;
use crate::refb::{self, V};
use rdest::Metainfo;
use std::path::Path;

#[derive(Clone, Debug)]
pub struct Torrent {
    pub name: String,
    pub piece_len: usize,
    pub files: Vec<(String, usize)>,
    /// `length` key (single-file form) instead of a `files` list.
    pub single: bool,
    pub content: Vec<u8>,
    pub pieces: Vec<Vec<u8>>,
    pub hashes: Vec<[u8; 20]>,
    pub doc: Vec<u8>,
    pub meta: Metainfo,
}

/// Every position has its own value for the first 63 001 bytes (two coprime counters), so a
/// misplaced, duplicated or missing byte is visible.
pub fn content(len: usize) -> Vec<u8> {
    (0..len).map(|i| ((i % 251) as u8) ^ (((i / 251) % 251) as u8).rotate_left(3)).collect()
}

impl Torrent {
    pub fn new(name: &str, piece_len: usize, files: &[(&str, usize)], single: bool) -> Torrent {
        Self::with_announce(name, piece_len, files, single, "http://tracker.invalid/announce")
    }

    pub fn with_announce(name: &str, piece_len: usize, files: &[(&str, usize)], single: bool, announce: &str) -> Torrent {
        Self::try_with_announce(name, piece_len, files, single, announce).expect("fixture torrent must parse")
    }

    /// Like `new`, but a torrent the client refuses at parse time is an `Err` (hostile names/paths).
    pub fn try_new(name: &str, piece_len: usize, files: &[(&str, usize)], single: bool) -> Result<Torrent, String> {
        Self::try_with_announce(name, piece_len, files, single, "http://tracker.invalid/announce")
    }

    pub fn try_with_announce(name: &str, piece_len: usize, files: &[(&str, usize)], single: bool, announce: &str) -> Result<Torrent, String> {
        let total: usize = files.iter().map(|f| f.1).sum();
        let content = content(total);
        let pieces: Vec<Vec<u8>> = if piece_len == 0 { vec![] } else { content.chunks(piece_len).map(|c| c.to_vec()).collect() };
        let hashes: Vec<[u8; 20]> = pieces.iter().map(|p| core::sha1(p)).collect();
        let mut info = vec![];
        if single {
            assert_eq!(files.len(), 1);
            info.push(("length", V::Int(total as i64)));
        } else {
            info.push((
                "files",
                V::List(files.iter().map(|(p, l)| refb::dict(vec![("length", V::Int(*l as i64)), ("path", refb::s(p))])).collect()),
            ));
        }
        info.push(("name", refb::s(name)));
        info.push(("piece length", V::Int(piece_len as i64)));
        info.push(("pieces", V::Str(hashes.iter().flat_map(|h| h.to_vec()).collect())));
        let doc = refb::enc(&refb::dict(vec![("announce", refb::s(announce)), ("info", refb::dict(info))]));
        let meta = match crate::core::catch(|| Metainfo::from_bencode(&doc)) {
            Ok(Ok(m)) => m,
            Ok(Err(e)) => return Err(format!("{:?}", e)),
            Err(p) => return Err(format!("PANIC: {}", p)),
        };
        Ok(Torrent {
            name: name.to_string(),
            piece_len,
            files: files.iter().map(|(p, l)| (p.to_string(), *l)).collect(),
            single,
            content,
            pieces,
            hashes,
            doc,
            meta,
        })
    }

    pub fn total(&self) -> usize {
        self.content.len()
    }

    pub fn piece_file(&self, i: usize) -> String {
        format!("{}.piece", core::hex(&self.hashes[i]))
    }

    /// Store piece `i` in `dir` the way the client does after verifying it.
    pub fn store_piece(&self, dir: &Path, i: usize) {
        std::fs::write(dir.join(self.piece_file(i)), &self.pieces[i]).expect("cannot write piece file");
    }

    /// Where each listed file goes relative to the download directory, and its expected bytes.
    pub fn expected_outputs(&self) -> Vec<(std::path::PathBuf, Vec<u8>)> {
        let mut pos = 0;
        let mut out = vec![];
        for (p, l) in &self.files {
            // single-file form: the file is called `name`; files-list form with several entries:
            // the files live in the directory `name`; with one entry: directly in the download dir
            let rel = if self.single {
                Path::new(&self.name).to_path_buf()
            } else if self.files.len() > 1 {
                Path::new(&self.name).join(p)
            } else {
                Path::new(p).to_path_buf()
            };
            out.push((rel, self.content[pos..pos + l].to_vec()));
            pos += l;
        }
        out
    }
}
