//! The full-session E-SYS world: the real `Session::verif_run()` (= `run()` without the terminal
//! view) as a task — real `event_loop` with its `select!`, real tracker task and retry loop over the
//! HTTP seam, real `handle_tracker_cmd` / `spawn_peer_handler` / `run_incoming` over the connect
//! seam, real `handle_kill_req`, real extractor — under tokio's paused clock. Scripted peers and a
//! scripted tracker live in the harness. Only outgoing connections exist here.

use crate::core;
use crate::fixture::Torrent;
use crate::httpfake;
use crate::refb::{self, V};
use crate::refwire::{self, Msg};
use crate::world::{PeerCfg, OWN_ID};
use rdest::verif::{HandlerSnap, MemPipe, SessionSnap};
use rdest::Session;
use std::cell::RefCell;
use std::collections::VecDeque;
use std::path::PathBuf;
use std::rc::Rc;
use std::time::Duration;
use tokio::task::LocalSet;

#[derive(Clone, Debug, PartialEq)]
pub enum TrackerOutcome {
    Refused,
    Http500,
    Garbage,
    FailureReason,
    /// Good reply listing these peers (indices into the world's peer list).
    Good(Vec<usize>),
}

/// See `FullWorld::new_gated`.
pub static WITH_VIEW: std::sync::atomic::AtomicBool = std::sync::atomic::AtomicBool::new(false);

pub struct Conn {
    pub pipe: MemPipe,
    pub msgs: Vec<Msg>,
    pub new_from: usize,
    writes_seen: usize,
    pub closed_by_peer: bool,
}

pub struct FPeer {
    pub cfg: PeerCfg,
    pub refuse: bool,
    pub conn: Option<Conn>,
    pub connects: usize,
}

#[derive(Clone, Debug, PartialEq)]
pub enum FEv {
    Feed(usize, Vec<u8>),
    Close(usize),
    /// Let this much virtual time pass.
    Advance(u64),
    /// Several things that happen before the client gets to run (simultaneous arrivals).
    Batch(Vec<FEv>),
    /// Hand the oldest held-back manager broadcast to peer i's connection task (gated worlds).
    Release(usize),
    /// Let a held re-write of this piece file go on (gated worlds: the file was truncated and is
    /// empty until then).
    FsRelease(String),
}

pub struct FullWorld {
    rt: tokio::runtime::Runtime,
    local: LocalSet,
    session_task: tokio::task::JoinHandle<()>,
    pub peers: Vec<FPeer>,
    new_conns: Rc<RefCell<Vec<(String, MemPipe)>>>,
    pub tracker_script: Rc<RefCell<VecDeque<TrackerOutcome>>>,
    /// Default answer once the script is exhausted.
    pub tracker_default: Rc<RefCell<TrackerOutcome>>,
    pub announces: Rc<RefCell<Vec<String>>>,
    pub dir: PathBuf,
    pub t: Torrent,
    pub panics: Vec<String>,
    pub hung: Option<String>,
    pub steps: usize,
    pub choice_log: Vec<(usize, usize, usize, bool)>,
    refusing: Rc<RefCell<Vec<String>>>,
    storm: Rc<RefCell<(Option<tokio::time::Instant>, usize, bool)>>,
    /// Per peer: everything the client wrote on the first connection to it (short form).
    pub first_conn_msgs: Vec<Vec<String>>,
}

pub fn tracker_body(peers: &[&PeerCfg]) -> Vec<u8> {
    let list: Vec<V> = peers
        .iter()
        .map(|p| {
            let (ip, port) = p.addr.rsplit_once(':').unwrap();
            refb::dict(vec![("ip", refb::s(ip)), ("peer id", V::Str(p.id.to_vec())), ("port", V::Int(port.parse().unwrap()))])
        })
        .collect();
    refb::enc(&refb::dict(vec![("interval", V::Int(1800)), ("peers", V::List(list))]))
}

impl FullWorld {
    pub fn new(t: &Torrent, peer_cfgs: &[PeerCfg], script: Vec<TrackerOutcome>, default: TrackerOutcome, dir: &PathBuf) -> FullWorld {
        Self::new_gated(t, peer_cfgs, script, default, dir, false)
    }

    pub fn new_gated(t: &Torrent, peer_cfgs: &[PeerCfg], script: Vec<TrackerOutcome>, default: TrackerOutcome, dir: &PathBuf, gated: bool) -> FullWorld {
        rdest::verif::set_gating(gated);
        rdest::verif::set_fs_gating(gated);
        core::wipe_dir(dir);
        rdest::verif::clear_snapshots();
        rdest::verif::set_choices(vec![]);
        let rt = httpfake::runtime();
        let local = LocalSet::new();
        let new_conns: Rc<RefCell<Vec<(String, MemPipe)>>> = Rc::new(RefCell::new(vec![]));
        let tracker_script = Rc::new(RefCell::new(VecDeque::from(script)));
        let tracker_default = Rc::new(RefCell::new(default));
        let announces = Rc::new(RefCell::new(vec![]));
        let refusing: Rc<RefCell<Vec<String>>> = Rc::new(RefCell::new(vec![]));

        let nc = new_conns.clone();
        let rf = refusing.clone();
        rdest::verif::set_net(Some(Box::new(move |addr: &str| {
            if rf.borrow().iter().any(|a| a == addr) {
                return None;
            }
            let pipe = MemPipe::new();
            nc.borrow_mut().push((addr.to_string(), pipe.clone()));
            Some(pipe)
        })));
        let ts = tracker_script.clone();
        let td = tracker_default.clone();
        let an = announces.clone();
        let cfgs: Vec<PeerCfg> = peer_cfgs.to_vec();
        let storm: Rc<RefCell<(Option<tokio::time::Instant>, usize, bool)>> = Rc::new(RefCell::new((None, 0, false)));
        let storm2 = storm.clone();
        rdest::verif::set_http(Some(Box::new(move |req: &reqwest::Request| {
            an.borrow_mut().push(req.url().as_str().to_string());
            // an announce loop that makes no virtual time pass would never let a step end: after 64
            // announces at one instant the tracker stops answering and the world is marked as hung
            {
                let mut st = storm2.borrow_mut();
                let now = tokio::time::Instant::now();
                if st.0 == Some(now) {
                    st.1 += 1;
                } else {
                    *st = (Some(now), 1, st.2);
                }
                if st.1 > 64 {
                    st.2 = true;
                    return httpfake::refused();
                }
            }
            let outcome = ts.borrow_mut().pop_front().unwrap_or_else(|| td.borrow().clone());
            match outcome {
                TrackerOutcome::Refused => httpfake::refused(),
                TrackerOutcome::Http500 => httpfake::respond(500, b"oops".to_vec()),
                TrackerOutcome::Garbage => httpfake::respond(200, b"<html>not bencode</html>".to_vec()),
                TrackerOutcome::FailureReason => httpfake::respond(200, b"d14:failure reason11:overloaded!e".to_vec()),
                TrackerOutcome::Good(list) => {
                    let ps: Vec<&PeerCfg> = list.iter().map(|i| &cfgs[*i]).collect();
                    httpfake::respond(200, tracker_body(&ps))
                }
            }
        })));

        let mut session = Session::new(t.meta.clone(), *OWN_ID);
        // the public entry point `Session::run()` (with the terminal progress view) instead of
        // `verif_run()`: only in the view-run subprocess, whose stdout is discarded
        let with_view = WITH_VIEW.load(std::sync::atomic::Ordering::Relaxed);
        let session_task = local.spawn_local(async move {
            if with_view {
                session.run().await;
            } else {
                session.verif_run().await;
            }
        });
        let mut w = FullWorld {
            rt,
            local,
            session_task,
            peers: peer_cfgs.iter().map(|c| FPeer { cfg: c.clone(), refuse: false, conn: None, connects: 0 }).collect(),
            new_conns,
            tracker_script,
            tracker_default,
            announces,
            dir: dir.clone(),
            t: t.clone(),
            panics: vec![],
            hung: None,
            steps: 0,
            choice_log: vec![],
            refusing,
            storm,
            first_conn_msgs: vec![vec![]; peer_cfgs.len()],
        };
        w.run_step(None, &[]);
        w
    }

    pub fn step(&mut self, ev: &FEv) {
        self.run_step(Some(ev), &[]);
    }

    /// One event with scripted tie-break digits; the choice points met are left in `choice_log`.
    pub fn step_with(&mut self, ev: &FEv, digits: &[usize]) {
        self.run_step(Some(ev), digits);
    }

    fn run_step(&mut self, ev: Option<&FEv>, digits: &[usize]) {
        rdest::verif::set_choices(digits.to_vec());
        for p in self.peers.iter_mut() {
            if let Some(c) = p.conn.as_mut() {
                c.new_from = c.msgs.len();
            }
        }
        if self.hung.is_some() {
            return;
        }
        self.steps += 1;
        let mut inputs: Vec<&FEv> = vec![];
        match ev {
            Some(FEv::Batch(list)) => inputs.extend(list.iter()),
            Some(other) => inputs.push(other),
            None => {}
        }
        for e in inputs {
            match e {
                FEv::Feed(i, bytes) => {
                    if let Some(c) = self.peers[*i].conn.as_ref() {
                        c.pipe.feed(bytes);
                    }
                }
                FEv::Close(i) => {
                    if let Some(c) = self.peers[*i].conn.as_mut() {
                        c.pipe.close();
                        c.closed_by_peer = true;
                    }
                }
                FEv::Release(i) => {
                    rdest::verif::gate_release(&self.peers[*i].cfg.addr);
                }
                FEv::FsRelease(path) => {
                    rdest::verif::fs_release(path);
                }
                _ => {}
            }
        }
        let FullWorld { rt, local, .. } = self;
        let res = core::catch(|| {
            local.block_on(rt, async {
                let wait = match ev {
                    Some(FEv::Advance(ms)) => Duration::from_millis(*ms),
                    _ => Duration::from_millis(1),
                };
                // deadlocks cannot make this hang: the sleep is itself a timer, and the paused clock
                // auto-advances to it whenever every task is blocked
                tokio::time::sleep(wait).await;
                tokio::time::sleep(Duration::from_millis(1)).await;
            })
        });
        if let Err(p) = res {
            self.hung = Some(format!("harness step panicked: {}", p));
        }
        if self.storm.borrow().2 && self.hung.is_none() {
            self.hung = Some("announce storm: more than 64 tracker requests without any virtual time passing".to_string());
        }
        let groups = rdest::verif::take_choice_groups();
        let log = rdest::verif::take_choice_log();
        self.choice_log = log.iter().zip(groups.iter()).map(|(l, g)| (l.0, l.1, g.0, g.1)).collect();
        if let Some(p) = core::take_last_panic() {
            self.panics.push(p);
        }
        rdest::verif::gates_pump();
        // new connections
        let fresh: Vec<(String, MemPipe)> = self.new_conns.borrow_mut().drain(..).collect();
        for (addr, pipe) in fresh {
            // several scripted peers may share an address (a peer that restarted with a new id):
            // the connection goes to the first of them that has none yet, else to the first
            let idx = self.peers.iter().position(|p| p.cfg.addr == addr && p.conn.is_none()).or_else(|| self.peers.iter().position(|p| p.cfg.addr == addr));
            if let Some(p) = idx.map(|i| &mut self.peers[i]) {
                p.connects += 1;
                p.conn = Some(Conn { pipe, msgs: vec![], new_from: 0, writes_seen: 0, closed_by_peer: false });
            }
        }
        for p in self.peers.iter_mut() {
            if let Some(c) = p.conn.as_mut() {
                let writes = c.pipe.writes();
                for w in &writes[c.writes_seen..] {
                    if let Ok(m) = refwire::decode_writes(std::slice::from_ref(w)) {
                        c.msgs.extend(m);
                    }
                }
                c.writes_seen = writes.len();
            }
        }
        for (i, p) in self.peers.iter().enumerate() {
            if p.connects == 1 {
                if let Some(c) = p.conn.as_ref() {
                    self.first_conn_msgs[i] = c.msgs.iter().map(|m| m.short()).collect();
                }
            }
        }
    }

    /// From now on connects to this peer's address are refused (or accepted again).
    pub fn set_refuse(&mut self, i: usize, refuse: bool) {
        let addr = self.peers[i].cfg.addr.clone();
        let mut r = self.refusing.borrow_mut();
        r.retain(|a| *a != addr);
        if refuse {
            r.push(addr);
        }
        self.peers[i].refuse = refuse;
    }

    pub fn session_alive(&self) -> bool {
        !self.session_task.is_finished()
    }

    pub fn snap(&self) -> Option<SessionSnap> {
        rdest::verif::session_snapshot()
    }

    pub fn handler(&self, i: usize) -> Option<HandlerSnap> {
        rdest::verif::handler_snapshot(&self.peers[i].cfg.addr)
    }

    pub fn new_msgs(&self, i: usize) -> &[Msg] {
        match self.peers[i].conn.as_ref() {
            Some(c) => &c.msgs[c.new_from..],
            None => &[],
        }
    }

    pub fn has_piece_file(&self, i: usize) -> bool {
        match std::fs::read(self.dir.join(self.t.piece_file(i))) {
            Ok(d) => core::sha1(&d) == self.t.hashes[i],
            Err(_) => false,
        }
    }

    /// Manager broadcasts held back for peer i's connection task.
    pub fn pending(&self, i: usize) -> Vec<String> {
        rdest::verif::gate_pending(&self.peers[i].cfg.addr).iter().map(crate::world::short_broad).collect()
    }

    /// Is the manager still listing this peer (i.e. the connection is live from its point of view)?
    pub fn listed(&self, i: usize) -> bool {
        self.snap().map(|s| s.peers.iter().any(|p| p.addr == self.peers[i].cfg.addr)).unwrap_or(false)
    }

    pub fn session_key(&self) -> String {
        match self.snap() {
            None => "no-snapshot".to_string(),
            Some(s) => {
                let peers: Vec<String> = s
                    .peers
                    .iter()
                    .map(|p| format!("{}:{}{}{}{}{} idx={:?} pcs={}", p.addr, if p.am_interested { 'I' } else { 'i' }, if p.am_choked { 'C' } else { 'c' }, if p.interested { 'N' } else { 'n' }, if p.choked { 'K' } else { 'k' }, if p.optimistic_unchoke { 'O' } else { 'o' }, p.piece_index, p.pieces.iter().map(|b| if *b { '1' } else { '0' }).collect::<String>()))
                    .collect();
                format!("st={:?} peers={:?} cand={:?} ext={} trk={} exr={}", s.statuses, peers, s.candidates.iter().map(|c| c.0.clone()).collect::<Vec<_>>(), s.files_extracted, s.tracker_running, s.extractor_running)
            }
        }
    }
}

impl Drop for FullWorld {
    fn drop(&mut self) {
        self.session_task.abort();
        rdest::verif::set_http(None);
        rdest::verif::set_net(None);
        rdest::verif::set_gating(false);
        rdest::verif::set_fs_gating(false);
    }
}
