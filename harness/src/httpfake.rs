//! Scripted tracker outcomes for the HTTP seam (rdest::verif::set_http).

use rdest::verif::HttpOutcome;

pub fn respond(status: u16, body: Vec<u8>) -> HttpOutcome {
    let resp = http::Response::builder().status(status).body(body).unwrap();
    HttpOutcome::Respond(reqwest::Response::from(resp))
}

/// A genuine `reqwest::Error` (from a request that cannot be built), standing for "connection refused".
pub fn refused() -> HttpOutcome {
    // building a client loads the TLS root store (~100 ms): once per process
    static CLIENT: std::sync::OnceLock<reqwest::Client> = std::sync::OnceLock::new();
    let err = CLIENT
        .get_or_init(|| reqwest::Client::builder().build().unwrap())
        .get("http://[bad")
        .build()
        .unwrap_err();
    HttpOutcome::Fail(err)
}

pub fn runtime() -> tokio::runtime::Runtime {
    tokio::runtime::Builder::new_current_thread()
        .enable_all()
        .start_paused(true)
        .rng_seed(tokio::runtime::RngSeed::from_bytes(b"rdv"))
        // tokio::fs goes through the blocking pool: one short-lived OS thread per world
        .max_blocking_threads(1)
        .thread_stack_size(256 * 1024)
        .build()
        .expect("cannot build tokio runtime")
}
