//! rdv — bounded-exhaustive / explicit-state checks of the rdest properties C01..C20.
//!
//! usage: rdv <ID> [--tier quick|thorough] [--replay <file>]
//!        rdv --probe <name> <args...>      (subprocess probes; may crash by design)

mod core;
mod explore;
mod world;
mod fixture;
mod fullworld;
mod httpfake;
mod refb;
mod refwire;
mod strings;
mod c01;
mod c02;
mod c03;
mod c04;
mod c05;
mod c06;
mod c07;
mod c08;
mod c09;
mod c10;
mod c11;
mod c12;
mod c13;
mod c14;
mod c15;
mod c16;
mod c17;
mod c18;
mod c19;
mod c20;

use crate::core::{Ctx, Tier};

fn usage() -> ! {
    eprintln!("usage: rdv <C01..C20> [--tier quick|thorough] [--replay <file>]");
    std::process::exit(2);
}

fn main() {
    let args: Vec<String> = std::env::args().skip(1).collect();
    if args.is_empty() {
        usage();
    }
    if args[0] == "--bench" {
        core::install_panic_hook();
        let dir = core::private_cwd("bench", "w");
        let t = fixture::Torrent::new("t", 16387, &[("f", 2 * 16387 + 5)], true);
        let cfg = world::WorldCfg { torrent: t.clone(), have: vec![0, 2], peers: vec![world::peer_cfg(0, true)], gated: false, stale: vec![] };
        let n = 200;
        let t0 = std::time::Instant::now();
        for _ in 0..n {
            let rt = httpfake::runtime();
            drop(rt);
        }
        println!("runtime create+drop: {:?}/iter", t0.elapsed() / n);
        let t0 = std::time::Instant::now();
        for _ in 0..n {
            let w = world::World::new(&cfg, &dir);
            drop(w);
        }
        println!("world new+drop (2 piece files): {:?}/iter", t0.elapsed() / n);
        let t0 = std::time::Instant::now();
        for _ in 0..n {
            let mut w = world::World::new(&cfg, &dir);
            let id = w.peers[0].cfg.id;
            w.feed(0, &[refwire::handshake(t.meta.info_hash(), &id)]);
            w.feed(0, &[refwire::Msg::Bitfield(vec![0xe0])]);
            w.feed(0, &[refwire::Msg::Request(0, 0, 1)]);
            drop(w);
        }
        println!("world + 3 steps incl. piece load: {:?}/iter", t0.elapsed() / n);
        let mut w = world::World::new(&cfg, &dir);
        let id = w.peers[0].cfg.id;
        w.feed(0, &[refwire::handshake(t.meta.info_hash(), &id)]);
        let t0 = std::time::Instant::now();
        for _ in 0..n {
            w.feed(0, &[refwire::Msg::KeepAlive]);
        }
        println!("one step (keepalive): {:?}/iter", t0.elapsed() / n);
        let t0 = std::time::Instant::now();
        w.step(&world::Ev::AdvanceTo(20_500), &[]);
        println!("advance 20.5s: {:?}", t0.elapsed());
        let t0 = std::time::Instant::now();
        for k in 1..=12u64 {
            w.step(&world::Ev::AdvanceTo(20_500 + k * 40_000), &[]);
        }
        println!("advance 12 x 40 s: {:?}; dead={:?} ended={}", t0.elapsed(), w.dead, w.peers[0].ended.get());
        let t0 = std::time::Instant::now();
        let c = reqwest::Client::new();
        println!("reqwest client: {:?}", t0.elapsed());
        drop(c);
        return;
    }
    if args[0] == "--probe" && args.get(1).map(|s| s.as_str()) == Some("fsfault") {
        std::process::exit(c02::fsfault_main());
    }
    if args[0] == "--probe" && args.get(1).map(|s| s.as_str()) == Some("viewrun") {
        std::process::exit(c02::viewrun_main(&args[2..]));
    }
    if args[0] == "--probe" {
        std::process::exit(c16::probe_main(&args[1..]));
    }
    let id = args[0].to_uppercase();
    let mut tier = match std::env::var("VERIF_TIER").ok().as_deref() {
        Some("thorough") => Tier::Thorough,
        _ => Tier::Quick,
    };
    let mut replay: Option<String> = None;
    let mut i = 1;
    while i < args.len() {
        match args[i].as_str() {
            "--tier" => {
                i += 1;
                tier = match args.get(i).map(|s| s.as_str()) {
                    Some("quick") => Tier::Quick,
                    Some("thorough") => Tier::Thorough,
                    _ => usage(),
                };
            }
            "--replay" => {
                i += 1;
                replay = Some(args.get(i).cloned().unwrap_or_else(|| usage()));
            }
            _ => usage(),
        }
        i += 1;
    }
    let seed: u64 = std::env::var("VERIF_SEED")
        .ok()
        .and_then(|s| s.parse::<i64>().ok())
        .map(|v| v as u64)
        .unwrap_or(0);

    core::install_panic_hook();
    core::cleanup_scratch();
    core::cleanup_stale_scratch();
    let ctx = Ctx::new(&id, tier, seed);
    // watchdog: a run that exceeds three times its wall cap or 40 GiB is a machinery failure
    {
        let cap = ctx.wall_cap_s * 3.0 + 120.0;
        let id = id.clone();
        std::thread::spawn(move || {
            let t0 = std::time::Instant::now();
            loop {
                std::thread::sleep(std::time::Duration::from_secs(2));
                let rss_pages: u64 = std::fs::read_to_string("/proc/self/statm").ok().and_then(|s| s.split_whitespace().nth(1).and_then(|v| v.parse().ok())).unwrap_or(0);
                let rss_gib = rss_pages as f64 * 4096.0 / (1u64 << 30) as f64;
                if t0.elapsed().as_secs_f64() > cap || rss_gib > 40.0 {
                    println!("MACHINERY-ERROR property={} watchdog: wall {:.0}s (cap {:.0}s), rss {:.1} GiB", id, t0.elapsed().as_secs_f64(), cap, rss_gib);
                    core::cleanup_scratch();
                    std::process::exit(2);
                }
            }
        });
    }

    if let Some(path) = replay {
        let text = std::fs::read_to_string(&path).expect("cannot read replay file");
        let v: serde_json::Value = serde_json::from_str(&text).expect("replay file is not JSON");
        let code = match id.as_str() {
            "C01" => c01::replay(&ctx, &v["replay"]),
            "C02" => c02::replay(&ctx, &v["replay"]),
            "C03" => c03::replay(&ctx, &v["replay"]),
            "C04" => c04::replay(&ctx, &v["replay"]),
            "C05" => c05::replay(&ctx, &v["replay"]),
            "C06" => c06::replay(&ctx, &v["replay"]),
            "C07" => c07::replay(&ctx, &v["replay"]),
            "C08" => c08::replay(&ctx, &v["replay"]),
            "C09" => c09::replay(&ctx, &v["replay"]),
            "C10" => c10::replay(&ctx, &v["replay"]),
            "C11" => c11::replay(&ctx, &v["replay"]),
            "C12" => c12::replay(&ctx, &v["replay"]),
            "C13" => c13::replay(&ctx, &v["replay"]),
            "C14" => c14::replay(&ctx, &v["replay"]),
            "C15" => c15::replay(&ctx, &v["replay"]),
            "C16" => c16::replay(&ctx, &v["replay"]),
            "C17" => c17::replay(&ctx, &v["replay"]),
            "C18" => c18::replay(&ctx, &v["replay"]),
            "C19" => c19::replay(&ctx, &v["replay"]),
            "C20" => c20::replay(&ctx, &v["replay"]),
            _ => usage(),
        };
        core::cleanup_scratch();
        std::process::exit(code);
    }

    let run = || match id.as_str() {
        "C01" => c01::run(&ctx),
        "C02" => c02::run(&ctx),
        "C03" => c03::run(&ctx),
        "C04" => c04::run(&ctx),
        "C05" => c05::run(&ctx),
        "C06" => c06::run(&ctx),
        "C07" => c07::run(&ctx),
        "C08" => c08::run(&ctx),
        "C09" => c09::run(&ctx),
        "C10" => c10::run(&ctx),
        "C11" => c11::run(&ctx),
        "C12" => c12::run(&ctx),
        "C13" => c13::run(&ctx),
        "C14" => c14::run(&ctx),
        "C15" => c15::run(&ctx),
        "C16" => c16::run(&ctx),
        "C17" => c17::run(&ctx),
        "C18" => c18::run(&ctx),
        "C19" => c19::run(&ctx),
        "C20" => c20::run(&ctx),
        _ => usage(),
    };
    let outcome = match std::panic::catch_unwind(std::panic::AssertUnwindSafe(run)) {
        Ok(o) => o,
        Err(_) => {
            // violations recorded before the engine failed are still reported (they decide the
            // exit code); the failure itself is a machinery error
            ctx.machinery_error("engine panicked".to_string());
            let mut o = core::Outcome::new("other");
            o.set("exhaustive", serde_json::json!(false));
            o
        }
    };
    let code = core::finish(&ctx, outcome);
    core::cleanup_scratch();
    std::process::exit(code);
}
