//! Independent reference model of bencode, written from BEP3 and the wording of C15/C16:
//! recogniser + parser (with byte spans), canonical encoder, conversion from rdest's `BValue`.

use rdest::BValue;

#[derive(Clone, PartialEq, Eq, Debug, PartialOrd, Ord, Hash)]
pub enum V {
    Int(i64),
    Str(Vec<u8>),
    List(Vec<V>),
    /// Entries in document order (duplicates possible).
    Dict(Vec<(Vec<u8>, V)>),
}

#[derive(Clone, Debug, PartialEq)]
pub struct Spanned {
    pub v: V,
    pub start: usize,
    pub end: usize,
    /// For dictionaries: (key, span of value) in document order.
    pub entries: Vec<(Vec<u8>, Spanned)>,
}

pub const MAX_DEPTH: usize = 100_000;

struct P<'a> {
    d: &'a [u8],
    pos: usize,
}

impl<'a> P<'a> {
    fn peek(&self) -> Option<u8> {
        self.d.get(self.pos).copied()
    }

    fn value(&mut self, depth: usize) -> Result<Spanned, String> {
        if depth > MAX_DEPTH {
            return Err("too deep".into());
        }
        let start = self.pos;
        match self.peek() {
            None => Err("eof".into()),
            Some(b'i') => {
                self.pos += 1;
                let s = self.pos;
                while let Some(c) = self.peek() {
                    if c == b'e' {
                        break;
                    }
                    self.pos += 1;
                }
                if self.peek() != Some(b'e') {
                    return Err("int: missing e".into());
                }
                let txt = &self.d[s..self.pos];
                self.pos += 1;
                let (neg, digits) = match txt.first() {
                    Some(b'-') => (true, &txt[1..]),
                    _ => (false, txt),
                };
                if digits.is_empty() || !digits.iter().all(|c| c.is_ascii_digit()) {
                    return Err("int: not a number".into());
                }
                if digits.len() > 1 && digits[0] == b'0' {
                    return Err("int: leading zero".into());
                }
                if neg && digits == b"0" {
                    return Err("int: -0".into());
                }
                // magnitude, checked against the i64 range
                let mut acc: i128 = 0;
                for c in digits {
                    acc = acc * 10 + (*c - b'0') as i128;
                    if acc > (i64::MAX as i128) + 1 {
                        return Err("int: out of range".into());
                    }
                }
                let val = if neg { -acc } else { acc };
                if val > i64::MAX as i128 || val < i64::MIN as i128 {
                    return Err("int: out of range".into());
                }
                Ok(Spanned {
                    v: V::Int(val as i64),
                    start,
                    end: self.pos,
                    entries: vec![],
                })
            }
            Some(c) if c.is_ascii_digit() => {
                let s = self.pos;
                while let Some(c) = self.peek() {
                    if !c.is_ascii_digit() {
                        break;
                    }
                    self.pos += 1;
                }
                if self.peek() != Some(b':') {
                    return Err("str: missing ':'".into());
                }
                let mut len: u128 = 0;
                for c in &self.d[s..self.pos] {
                    len = len * 10 + (*c - b'0') as u128;
                    if len > usize::MAX as u128 {
                        return Err("str: length overflow".into());
                    }
                }
                self.pos += 1;
                let len = len as usize;
                if self.d.len() - self.pos < len {
                    return Err("str: truncated".into());
                }
                let v = self.d[self.pos..self.pos + len].to_vec();
                self.pos += len;
                Ok(Spanned {
                    v: V::Str(v),
                    start,
                    end: self.pos,
                    entries: vec![],
                })
            }
            Some(b'l') => {
                self.pos += 1;
                let mut items = vec![];
                loop {
                    match self.peek() {
                        None => return Err("list: unterminated".into()),
                        Some(b'e') => {
                            self.pos += 1;
                            break;
                        }
                        Some(_) => items.push(self.value(depth + 1)?.v),
                    }
                }
                Ok(Spanned {
                    v: V::List(items),
                    start,
                    end: self.pos,
                    entries: vec![],
                })
            }
            Some(b'd') => {
                self.pos += 1;
                let mut entries = vec![];
                loop {
                    match self.peek() {
                        None => return Err("dict: unterminated".into()),
                        Some(b'e') => {
                            self.pos += 1;
                            break;
                        }
                        Some(_) => {
                            let k = self.value(depth + 1)?;
                            let key = match k.v {
                                V::Str(s) => s,
                                _ => return Err("dict: key is not a string".into()),
                            };
                            match self.peek() {
                                None => return Err("dict: unterminated".into()),
                                Some(b'e') => return Err("dict: key without value".into()),
                                _ => {}
                            }
                            let val = self.value(depth + 1)?;
                            entries.push((key, val));
                        }
                    }
                }
                Ok(Spanned {
                    v: V::Dict(entries.iter().map(|(k, s)| (k.clone(), s.v.clone())).collect()),
                    start,
                    end: self.pos,
                    entries,
                })
            }
            Some(_) => Err("unexpected byte".into()),
        }
    }
}

/// Parse a sequence of well-formed values covering the whole input.
pub fn parse_all_spanned(d: &[u8]) -> Result<Vec<Spanned>, String> {
    let mut p = P { d, pos: 0 };
    let mut out = vec![];
    while p.pos < d.len() {
        out.push(p.value(0)?);
    }
    Ok(out)
}

pub fn parse_all(d: &[u8]) -> Result<Vec<V>, String> {
    parse_all_spanned(d).map(|v| v.into_iter().map(|s| s.v).collect())
}

/// Canonical form used to compare with rdest's HashMap-based dictionaries: the last duplicate of a
/// key wins, entries sorted by key.
pub fn normalize(v: &V) -> V {
    match v {
        V::Int(_) | V::Str(_) => v.clone(),
        V::List(l) => V::List(l.iter().map(normalize).collect()),
        V::Dict(entries) => {
            let mut map = std::collections::BTreeMap::new();
            for (k, val) in entries {
                map.insert(k.clone(), normalize(val));
            }
            V::Dict(map.into_iter().collect())
        }
    }
}

pub fn from_bvalue(b: &BValue) -> V {
    match b {
        BValue::Int(i) => V::Int(*i),
        BValue::ByteStr(s) => V::Str(s.clone()),
        BValue::List(l) => V::List(l.iter().map(from_bvalue).collect()),
        BValue::Dict(d) => {
            let mut e: Vec<(Vec<u8>, V)> = d.iter().map(|(k, v)| (k.clone(), from_bvalue(v))).collect();
            e.sort_by(|a, b| a.0.cmp(&b.0));
            V::Dict(e)
        }
    }
}

pub fn to_bvalue(v: &V) -> BValue {
    match v {
        V::Int(i) => BValue::Int(*i),
        V::Str(s) => BValue::ByteStr(s.clone()),
        V::List(l) => BValue::List(l.iter().map(to_bvalue).collect()),
        V::Dict(e) => BValue::Dict(e.iter().map(|(k, v)| (k.clone(), to_bvalue(v))).collect()),
    }
}

/// Encode exactly as written (entries in the given order): used to build documents.
pub fn encode_raw(v: &V, out: &mut Vec<u8>) {
    match v {
        V::Int(i) => {
            out.push(b'i');
            out.extend_from_slice(i.to_string().as_bytes());
            out.push(b'e');
        }
        V::Str(s) => {
            out.extend_from_slice(s.len().to_string().as_bytes());
            out.push(b':');
            out.extend_from_slice(s);
        }
        V::List(l) => {
            out.push(b'l');
            for x in l {
                encode_raw(x, out);
            }
            out.push(b'e');
        }
        V::Dict(e) => {
            out.push(b'd');
            for (k, x) in e {
                encode_raw(&V::Str(k.clone()), out);
                encode_raw(x, out);
            }
            out.push(b'e');
        }
    }
}

/// Canonical bencode of a value: keys ascending by raw bytes.
pub fn encode_canonical(v: &V) -> Vec<u8> {
    let mut out = vec![];
    encode_raw(&normalize(v), &mut out);
    out
}

pub fn enc(v: &V) -> Vec<u8> {
    let mut out = vec![];
    encode_raw(v, &mut out);
    out
}

pub fn s(x: &str) -> V {
    V::Str(x.as_bytes().to_vec())
}

pub fn dict(entries: Vec<(&str, V)>) -> V {
    V::Dict(entries.into_iter().map(|(k, v)| (k.as_bytes().to_vec(), v)).collect())
}
