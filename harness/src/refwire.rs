//! Independent reference model of the BEP3 peer wire format: encoder, single-message decoder and
//! stream decoder. Written from the BEP3 text, shares no code with rdest.

pub const PSTR: &[u8; 19] = b"BitTorrent protocol";
pub const MAX_FRAME: usize = 65536;
pub const BLOCK: usize = 16384;

#[derive(Clone, Debug, PartialEq, Eq, Hash, PartialOrd, Ord)]
pub enum Msg {
    Handshake { reserved: [u8; 8], info_hash: [u8; 20], peer_id: [u8; 20] },
    KeepAlive,
    Choke,
    Unchoke,
    Interested,
    NotInterested,
    Have(u32),
    Bitfield(Vec<u8>),
    Request(u32, u32, u32),
    Piece(u32, u32, Vec<u8>),
    Cancel(u32, u32, u32),
}

impl Msg {
    pub fn short(&self) -> String {
        match self {
            Msg::Handshake { info_hash, peer_id, .. } => format!(
                "Handshake(hash={}..,id={})",
                crate::core::hex(&info_hash[..3]),
                crate::core::show(&peer_id[..4])
            ),
            Msg::Piece(i, b, d) => format!("Piece({},{},{}B)", i, b, d.len()),
            Msg::Bitfield(b) => format!("Bitfield({})", crate::core::hex(b)),
            other => format!("{:?}", other),
        }
    }
}

pub fn handshake(info_hash: &[u8; 20], peer_id: &[u8; 20]) -> Msg {
    Msg::Handshake {
        reserved: [0; 8],
        info_hash: *info_hash,
        peer_id: *peer_id,
    }
}

fn lp(id: u8, body: &[u8]) -> Vec<u8> {
    let mut v = ((1 + body.len()) as u32).to_be_bytes().to_vec();
    v.push(id);
    v.extend_from_slice(body);
    v
}

pub fn encode(m: &Msg) -> Vec<u8> {
    match m {
        Msg::Handshake { reserved, info_hash, peer_id } => {
            let mut v = vec![19u8];
            v.extend_from_slice(PSTR);
            v.extend_from_slice(reserved);
            v.extend_from_slice(info_hash);
            v.extend_from_slice(peer_id);
            v
        }
        Msg::KeepAlive => vec![0, 0, 0, 0],
        Msg::Choke => lp(0, &[]),
        Msg::Unchoke => lp(1, &[]),
        Msg::Interested => lp(2, &[]),
        Msg::NotInterested => lp(3, &[]),
        Msg::Have(i) => lp(4, &i.to_be_bytes()),
        Msg::Bitfield(b) => lp(5, b),
        Msg::Request(i, b, l) => {
            let mut body = i.to_be_bytes().to_vec();
            body.extend_from_slice(&b.to_be_bytes());
            body.extend_from_slice(&l.to_be_bytes());
            lp(6, &body)
        }
        Msg::Piece(i, b, d) => {
            let mut body = i.to_be_bytes().to_vec();
            body.extend_from_slice(&b.to_be_bytes());
            body.extend_from_slice(d);
            lp(7, &body)
        }
        Msg::Cancel(i, b, l) => {
            let mut body = i.to_be_bytes().to_vec();
            body.extend_from_slice(&b.to_be_bytes());
            body.extend_from_slice(&l.to_be_bytes());
            lp(8, &body)
        }
    }
}

/// Bit i of a bitfield = bit (7 - i mod 8) of byte i / 8.
pub fn bitfield_bytes(bits: &[bool]) -> Vec<u8> {
    let mut out = vec![0u8; (bits.len() + 7) / 8];
    for (i, b) in bits.iter().enumerate() {
        if *b {
            out[i / 8] |= 1 << (7 - (i % 8));
        }
    }
    out
}

pub fn bitfield_bits(bytes: &[u8], n: usize) -> Option<Vec<bool>> {
    if bytes.len() != (n + 7) / 8 {
        return None;
    }
    Some((0..n).map(|i| bytes[i / 8] & (1 << (7 - (i % 8))) != 0).collect())
}

fn be(b: &[u8]) -> u32 {
    u32::from_be_bytes([b[0], b[1], b[2], b[3]])
}

#[derive(Clone, Debug, PartialEq)]
pub enum Step {
    /// A complete message and the number of bytes it occupies.
    Msg(Msg, usize),
    /// A complete message with an id this client does not know; skipped.
    Skip(u8, usize),
    /// The buffer is a proper prefix of one frame.
    NeedMore,
    /// The stream is undecodable; the error must have been raised by the time `due` bytes of this
    /// frame have arrived (the whole malformed message, or the 5-byte header of an oversized one).
    Error(&'static str, usize),
}

/// Decode the next message at the start of `buf`.
pub fn next(buf: &[u8]) -> Step {
    if buf.is_empty() {
        return Step::NeedMore;
    }
    if buf[0] == 19 {
        // only a handshake starts with 0x13: as a length prefix it would announce >= 318 MB
        let n = buf.len().min(20);
        if buf[1..n] != PSTR[..n - 1] {
            return Step::Error("bad protocol string / oversized", 68);
        }
        if buf.len() < 68 {
            return Step::NeedMore;
        }
        let mut reserved = [0u8; 8];
        reserved.copy_from_slice(&buf[20..28]);
        let mut info_hash = [0u8; 20];
        info_hash.copy_from_slice(&buf[28..48]);
        let mut peer_id = [0u8; 20];
        peer_id.copy_from_slice(&buf[48..68]);
        return Step::Msg(Msg::Handshake { reserved, info_hash, peer_id }, 68);
    }
    if buf.len() < 4 {
        return Step::NeedMore;
    }
    let len = be(&buf[0..4]) as usize;
    if len == 0 {
        return Step::Msg(Msg::KeepAlive, 4);
    }
    if len > MAX_FRAME {
        return Step::Error("oversized frame", 5);
    }
    if buf.len() < 5 {
        return Step::NeedMore;
    }
    let id = buf[4];
    let fixed = match id {
        0..=3 => Some(1),
        4 => Some(5),
        6 | 8 => Some(13),
        _ => None,
    };
    if let Some(f) = fixed {
        if len != f {
            return Step::Error("wrong length for message id", 4 + len);
        }
    }
    if id == 7 && len < 9 {
        return Step::Error("piece message shorter than its header", 4 + len);
    }
    if buf.len() < 4 + len {
        return Step::NeedMore;
    }
    let body = &buf[5..4 + len];
    let m = match id {
        0 => Msg::Choke,
        1 => Msg::Unchoke,
        2 => Msg::Interested,
        3 => Msg::NotInterested,
        4 => Msg::Have(be(body)),
        5 => Msg::Bitfield(body.to_vec()),
        6 => Msg::Request(be(&body[0..4]), be(&body[4..8]), be(&body[8..12])),
        7 => Msg::Piece(be(&body[0..4]), be(&body[4..8]), body[8..].to_vec()),
        8 => Msg::Cancel(be(&body[0..4]), be(&body[4..8]), be(&body[8..12])),
        other => return Step::Skip(other, 4 + len),
    };
    Step::Msg(m, 4 + len)
}

/// Decode as many complete messages as `buf` holds. Returns (messages, bytes consumed, error).
pub fn decode_stream(buf: &[u8]) -> (Vec<Msg>, usize, Option<&'static str>) {
    let mut pos = 0;
    let mut out = vec![];
    loop {
        match next(&buf[pos..]) {
            Step::Msg(m, n) => {
                out.push(m);
                pos += n;
            }
            Step::Skip(_, n) => pos += n,
            Step::NeedMore => return (out, pos, None),
            Step::Error(e, _) => return (out, pos, Some(e)),
        }
    }
}

/// Decode the concatenation of everything a client wrote on one connection; every write must end
/// on a message boundary (rdest writes one message per `write_all`).
pub fn decode_writes(writes: &[Vec<u8>]) -> Result<Vec<Msg>, String> {
    let mut all = vec![];
    for w in writes {
        let (msgs, used, err) = decode_stream(w);
        if let Some(e) = err {
            return Err(format!("client wrote undecodable bytes: {}", e));
        }
        if used != w.len() {
            return Err("client wrote a partial message".to_string());
        }
        all.extend(msgs);
    }
    Ok(all)
}
