//! Exhaustive enumeration of byte strings over a small delimiter-rich alphabet (shared by the
//! totality halves of C16, C17 and C19).

use crate::core;

/// i l d e (structure), 0 1 2 (lengths / numbers), ':' '-' (separators), 'a' (payload / junk).
pub const SIGMA: &[u8] = b"ilde012:-a";

pub fn total(len: usize) -> u64 {
    (SIGMA.len() as u64).pow(len as u32)
}

pub fn nth(len: usize, mut idx: u64, out: &mut Vec<u8>) {
    out.clear();
    out.resize(len, 0);
    for i in (0..len).rev() {
        out[i] = SIGMA[(idx % SIGMA.len() as u64) as usize];
        idx /= SIGMA.len() as u64;
    }
}

/// Run `f(acc, string)` over every string of length 0..=max_len, in parallel; one accumulator per
/// slice, returned for merging.
pub fn for_all<A: Send>(
    max_len: usize,
    new_acc: impl Fn() -> A + Sync,
    f: impl Fn(&mut A, &[u8]) + Sync,
) -> Vec<A> {
    let mut accs = vec![];
    for len in 0..=max_len {
        let t = total(len);
        let slices = if t < 10_000 { 1 } else { core::workers() * 8 };
        let mut part = core::par_ranges(
            t,
            slices,
            |_| {
                core::set_quiet_panics(true);
            },
            |_, a, b| {
                let mut acc = new_acc();
                let mut buf = Vec::with_capacity(len);
                for idx in a..b {
                    nth(len, idx, &mut buf);
                    f(&mut acc, &buf);
                }
                acc
            },
        );
        accs.append(&mut part);
    }
    accs
}
