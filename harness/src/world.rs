//! The pumped E-SYS world: the real `Session` value (the harness plays its event loop, handing
//! every queued command to the real `handle_peer_cmd`) plus k real `PeerHandler::run()` tasks over
//! in-memory pipes, under tokio's paused clock, with real piece files in a thread-private cwd.
//! One `step` = one environment event followed by a run to quiescence.

use crate::core;
use crate::fixture::Torrent;
use crate::httpfake;
use crate::refwire::{self, Msg};
use rdest::verif::{BroadCmd, HandlerSnap, MemPipe, PeerHandler, SessionSnap, Status};
use rdest::Session;
use std::cell::Cell;
use std::collections::VecDeque;
use std::path::PathBuf;
use std::rc::Rc;
use std::time::Duration;
use tokio::sync::broadcast;
use tokio::task::LocalSet;

pub const OWN_ID: &[u8; 20] = b"-RD0001-ownownownown";

#[derive(Clone, Debug, PartialEq)]
pub struct PeerCfg {
    pub addr: String,
    pub id: [u8; 20],
    /// true: the client connected to this peer (it knows the id the tracker announced and sends its
    /// handshake first); false: the peer connected to us.
    pub outgoing: bool,
    /// Broadcasts reach this connection task at once even in a gated world.
    pub ungated: bool,
}

pub fn peer_cfg(n: usize, outgoing: bool) -> PeerCfg {
    // peer ids are arbitrary bytes: NUL, 0xff, and sequences that are not valid UTF-8
    let mut id = *b"-PE\xff\x80-\x00\xfe0000000000\xc3\x28";
    id[6] = b'0' + n as u8;
    PeerCfg { addr: format!("10.0.0.{}:6881", n + 1), id, outgoing, ungated: false }
}

#[derive(Clone)]
pub struct WorldCfg {
    pub torrent: Torrent,
    /// Pieces the client already owns (stored and marked) when the world starts.
    pub have: Vec<usize>,
    pub peers: Vec<PeerCfg>,
    /// Broadcasts from the manager are held back per handler until a `Release` event.
    pub gated: bool,
    /// Pieces for which a leftover of an interrupted earlier run lies in the download directory:
    /// a file under the piece's name, of the right length, zero-filled (never verified).
    pub stale: Vec<usize>,
}

#[derive(Clone, Debug, PartialEq)]
pub enum Ev {
    /// Bytes that arrive on connection i as exactly one read.
    Feed(usize, Vec<u8>),
    Close(usize),
    Reset(usize),
    /// Deliver the oldest held-back broadcast to handler i.
    Release(usize),
    /// One firing of the manager's choke-rotation timer.
    Rotate,
    /// Let virtual time pass until this many milliseconds after the world was created.
    AdvanceTo(u64),
    /// Commands as a connection task would send them, for manager-only peers (no task behind them).
    MgrBitfield(usize, Vec<bool>),
    MgrInterested(usize),
    MgrNotInterested(usize),
    MgrStats(usize, Option<u32>, Option<u32>),
    MgrKill(usize),
    MgrHave(usize, usize),
    MgrChoke(usize),
    /// Unchoke command with a live reply channel: the manager's answer is kept in `mgr_reply`.
    MgrUnchoke(usize),
    /// A new connection appears (outgoing: the client connects and speaks first).
    AddPeer(PeerCfg),
    /// The manager is busy from now on (it awaits something inside a handler): commands of the
    /// connection tasks queue up unprocessed, the tasks themselves keep running.
    PauseManager,
    /// The manager comes back and works off its queue in arrival order, without any task running
    /// in between.
    ResumeManager,
    /// Only while the manager is busy: the other connections of a big swarm have filled the
    /// manager's command queue (64 slots) to the brim with statistics reports of a manager-only
    /// peer ("crowd"), so that the next command of a connection task finds no free slot.
    FillQueue,
}

pub struct PeerSide {
    pub cfg: PeerCfg,
    pub pipe: MemPipe,
    pub ended: Rc<Cell<bool>>,
    gate: broadcast::Sender<BroadCmd>,
    pub pending: VecDeque<BroadCmd>,
    /// Everything the client wrote on this connection, decoded by the reference codec.
    pub msgs: Vec<Msg>,
    /// Index into `msgs` where the messages written during the last step start.
    pub new_from: usize,
    writes_seen: usize,
    pub undecodable_write: Option<String>,
}

pub struct World {
    rt: tokio::runtime::Runtime,
    local: LocalSet,
    pub session: Session,
    pub peers: Vec<PeerSide>,
    harness_rx: broadcast::Receiver<BroadCmd>,
    pub dir: PathBuf,
    pub t: Torrent,
    pub gated: bool,
    /// The manager (event loop) is gone: a panic, or an Err that `event_loop` turns into one.
    pub dead: Option<String>,
    pub manager_paused: bool,
    /// How many filler commands the last FillQueue event could place.
    pub queue_filled: usize,
    pub handler_panics: Vec<String>,
    /// Commands the manager handled during the last step (Debug, shortened).
    pub cmds: Vec<String>,
    pub choice_log: Vec<(usize, usize)>,
    pub choice_groups: Vec<(usize, bool)>,
    /// Broadcasts the manager sent during the last step.
    pub broadcasts: Vec<BroadCmd>,
    /// Broadcasts handed to a connection task by `Release` events of the last step: (peer, command).
    pub released: Vec<(usize, BroadCmd)>,
    /// Debug rendering of the manager's answer to the last MgrUnchoke / MgrHave command.
    pub mgr_reply: Option<String>,
    /// Addresses of manager-only peers (registered with the manager, no connection task).
    pub mgr_peers: Vec<String>,
    start: tokio::time::Instant,
    pub steps: usize,
}

fn short_cmd(cmd: &rdest::verif::PeerCmd) -> String {
    let s = format!("{:?}", cmd);
    let head: String = s.chars().take_while(|c| *c != '{' && *c != '(').collect();
    let addr = s.split("addr: \"").nth(1).and_then(|r| r.split('"').next()).unwrap_or("");
    let mut out = format!("{}@{}", head.trim(), addr);
    for key in ["piece_index: ", "reason: "] {
        if let Some(r) = s.split(key).nth(1) {
            let v: String = r.chars().take_while(|c| *c != ',' && *c != '}').collect();
            out.push_str(&format!(" {}{}", key, v.trim()));
        }
    }
    out
}

impl World {
    /// Must be called on a thread that owns a private cwd (core::private_cwd); the cwd is wiped.
    pub fn new(cfg: &WorldCfg, dir: &PathBuf) -> World {
        core::wipe_dir(dir);
        rdest::verif::clear_snapshots();
        rdest::verif::set_choices(vec![]);
        // a re-announce (after a peer is gone and no candidates are left) gets an empty peer list
        rdest::verif::set_http(Some(Box::new(|_req| httpfake::respond(200, b"d8:intervali1800e5:peerslee".to_vec()))));
        rdest::verif::set_net(Some(Box::new(|_addr| None)));
        let rt = httpfake::runtime();
        let local = LocalSet::new();
        let mut session = Session::new(cfg.torrent.meta.clone(), *OWN_ID);
        for &i in &cfg.have {
            cfg.torrent.store_piece(dir, i);
            session.verif_set_status(i, Status::Have);
        }
        for &i in &cfg.stale {
            std::fs::write(dir.join(cfg.torrent.piece_file(i)), vec![0u8; cfg.torrent.pieces[i].len()]).expect("cannot write stale piece file");
        }
        let harness_rx = session.verif_subscribe();
        let start = {
            let _g = rt.enter();
            tokio::time::Instant::now()
        };
        let mut w = World {
            rt,
            local,
            session,
            peers: vec![],
            harness_rx,
            dir: dir.clone(),
            t: cfg.torrent.clone(),
            gated: cfg.gated,
            dead: None,
            manager_paused: false,
            queue_filled: 0,
            handler_panics: vec![],
            cmds: vec![],
            choice_log: vec![],
            choice_groups: vec![],
            broadcasts: vec![],
            released: vec![],
            mgr_reply: None,
            mgr_peers: vec![],
            start,
            steps: 0,
        };
        for p in &cfg.peers {
            w.add_peer(p.clone());
        }
        w.run_step(None, &[]);
        w
    }

    /// Create a real connection task for this peer and register it with the manager exactly as
    /// `spawn_peer_handler` / `spawn_peer_listener` do.
    pub fn add_peer(&mut self, cfg: PeerCfg) -> usize {
        let pipe = MemPipe::new();
        let (gate, gate_rx) = broadcast::channel(32);
        let mut handler = PeerHandler::new(
            cfg.addr.clone(),
            *OWN_ID,
            if cfg.outgoing { Some(cfg.id) } else { None },
            *self.t.meta.info_hash(),
            self.t.meta.pieces_num(),
            self.session.verif_peer_tx(),
            gate_rx,
        );
        let ended = Rc::new(Cell::new(false));
        let ended2 = ended.clone();
        let pipe2 = pipe.clone();
        let job = self.local.spawn_local(async move {
            handler.verif_run(pipe2).await;
            ended2.set(true);
        });
        self.session.verif_register_peer(cfg.addr.clone(), if cfg.outgoing { Some(cfg.id) } else { None }, job);
        self.peers.push(PeerSide {
            cfg,
            pipe,
            ended,
            gate,
            pending: VecDeque::new(),
            msgs: vec![],
            new_from: 0,
            writes_seen: 0,
            undecodable_write: None,
        });
        self.peers.len() - 1
    }

    /// Register a peer with the manager without a connection task behind it (E-MGR).
    pub fn add_mgr_peer(&mut self) -> usize {
        let k = self.mgr_peers.len();
        let addr = format!("10.1.0.{}:6881", k + 1);
        let job = self.local.spawn_local(async {});
        self.session.verif_register_peer(addr.clone(), Some([k as u8 + 1; 20]), job);
        self.mgr_peers.push(addr);
        k
    }

    pub fn step(&mut self, ev: &Ev, digits: &[usize]) {
        self.run_step(Some(ev), digits);
    }

    fn run_step(&mut self, ev: Option<&Ev>, digits: &[usize]) {
        self.cmds.clear();
        self.broadcasts.clear();
        self.released.clear();
        self.mgr_reply = None;
        if let Some(Ev::Release(i)) = ev {
            if let Some(cmd) = self.peers[*i].pending.front() {
                self.released.push((*i, cmd.clone()));
            }
        }
        for p in self.peers.iter_mut() {
            p.new_from = p.msgs.len();
        }
        if self.dead.is_some() {
            return;
        }
        if let Some(Ev::AddPeer(cfg)) = ev {
            self.add_peer(cfg.clone());
        }
        match ev {
            Some(Ev::PauseManager) => self.manager_paused = true,
            Some(Ev::ResumeManager) => self.manager_paused = false,
            _ => {}
        }
        let manager_paused = self.manager_paused;
        self.steps += 1;
        rdest::verif::set_choices(digits.to_vec());
        let World { rt, local, session, peers, harness_rx, cmds, gated, start, broadcasts, mgr_peers, mgr_reply, queue_filled, .. } = self;
        let gated = *gated;
        let start = *start;
        let res = core::catch(|| {
            local.block_on(rt, async {
                // a deadlock between manager and a connection task shows as virtual time running
                // away (only timers are left to fire): bound it
                let horizon = match ev {
                    Some(Ev::AdvanceTo(ms)) => start + Duration::from_millis(*ms) + Duration::from_secs(3600),
                    _ => tokio::time::Instant::now() + Duration::from_secs(3600),
                };
                let mut unchoke_rx: Option<tokio::sync::oneshot::Receiver<rdest::verif::UnchokeCmd>> = None;
                let mut have_rx: Option<tokio::sync::oneshot::Receiver<rdest::verif::HaveCmd>> = None;
                let body = async {
                let mut manager_err: Option<String> = None;
                match ev {
                    Some(Ev::Feed(i, bytes)) => peers[*i].pipe.feed(bytes),
                    Some(Ev::Close(i)) => peers[*i].pipe.close(),
                    Some(Ev::Reset(i)) => peers[*i].pipe.reset(),
                    Some(Ev::Release(i)) => {
                        if let Some(cmd) = peers[*i].pending.pop_front() {
                            let _ = peers[*i].gate.send(cmd);
                        }
                    }
                    Some(Ev::Rotate) => {
                        if let Err(e) = session.verif_rotate().await {
                            manager_err = Some(format!("rotation failed: {} (event_loop: expect(\"Can't change connection state\"))", e));
                        }
                    }
                    Some(Ev::AdvanceTo(ms)) => {
                        tokio::time::sleep_until(start + Duration::from_millis(*ms)).await;
                    }
                    Some(Ev::AddPeer(_)) => {}
                    Some(Ev::PauseManager) | Some(Ev::ResumeManager) => {}
                    Some(Ev::FillQueue) => {
                        let crowd = mgr_peers.last().expect("FillQueue needs a manager-only peer (the crowd)").clone();
                        let tx = session.verif_peer_tx();
                        let mut n = 0;
                        while tx.try_send(rdest::verif::PeerCmd::SyncStats { addr: crowd.clone(), downloaded_rate: None, uploaded_rate: None, unexpected_blocks: 0 }).is_ok() {
                            n += 1;
                        }
                        *queue_filled = n;
                    }
                    Some(mgr_ev) => {
                        use rdest::verif::{Bitfield, PeerCmd};
                        let tx = session.verif_peer_tx();
                        let cmd = match mgr_ev {
                            Ev::MgrBitfield(k, bits) => {
                                let (resp_ch, _rx) = tokio::sync::oneshot::channel();
                                PeerCmd::RecvBitfield { addr: mgr_peers[*k].clone(), bitfield: Bitfield::from_vec(bits), resp_ch }
                            }
                            Ev::MgrInterested(k) => PeerCmd::RecvInterested { addr: mgr_peers[*k].clone() },
                            Ev::MgrNotInterested(k) => {
                                let (resp_ch, _rx) = tokio::sync::oneshot::channel();
                                PeerCmd::RecvNotInterested { addr: mgr_peers[*k].clone(), resp_ch }
                            }
                            Ev::MgrStats(k, d, u) => PeerCmd::SyncStats { addr: mgr_peers[*k].clone(), downloaded_rate: *d, uploaded_rate: *u, unexpected_blocks: 0 },
                            Ev::MgrKill(k) => PeerCmd::KillReq { addr: mgr_peers[*k].clone(), reason: "scripted".to_string() },
                            Ev::MgrChoke(k) => PeerCmd::RecvChoke { addr: mgr_peers[*k].clone() },
                            Ev::MgrUnchoke(k) => {
                                let (resp_ch, rx) = tokio::sync::oneshot::channel();
                                unchoke_rx = Some(rx);
                                PeerCmd::RecvUnchoke { addr: mgr_peers[*k].clone(), resp_ch }
                            }
                            Ev::MgrHave(k, i) => {
                                let (resp_ch, rx) = tokio::sync::oneshot::channel();
                                have_rx = Some(rx);
                                PeerCmd::RecvHave { addr: mgr_peers[*k].clone(), piece_index: *i, resp_ch }
                            }
                            _ => unreachable!(),
                        };
                        let _ = tx.send(cmd).await;
                    }
                    None => {}
                }
                let mut rounds = 0;
                while manager_err.is_none() {
                    tokio::time::sleep(Duration::from_millis(1)).await;
                    let mut progressed = false;
                    if manager_paused {
                        // tasks ran during the sleep above; their commands stay queued
                        rounds += 1;
                        if rounds >= 3 {
                            break;
                        }
                        continue;
                    }
                    while let Some(cmd) = session.verif_try_recv_peer_cmd() {
                        progressed = true;
                        cmds.push(short_cmd(&cmd));
                        match session.verif_handle_peer_cmd(cmd).await {
                            Ok(_) => {}
                            Err(e) => {
                                manager_err = Some(format!("handle_peer_cmd returned {:?} (event_loop: expect(\"Can't handle command\"))", e));
                                break;
                            }
                        }
                    }
                    while let Some(cmd) = session.verif_try_recv_tracker_cmd() {
                        progressed = true;
                        cmds.push("TrackerCmd".to_string());
                        session.verif_handle_tracker_cmd(cmd).await;
                    }
                    while let Some(cmd) = session.verif_try_recv_extractor_cmd() {
                        progressed = true;
                        cmds.push(format!("{:?}", cmd));
                        session.verif_handle_extractor_cmd(cmd).await;
                    }
                    loop {
                        match harness_rx.try_recv() {
                            Ok(cmd) => {
                                broadcasts.push(cmd.clone());
                                for p in peers.iter_mut() {
                                    if gated && !p.cfg.ungated {
                                        p.pending.push_back(cmd.clone());
                                    } else {
                                        progressed = true;
                                        let _ = p.gate.send(cmd.clone());
                                    }
                                }
                            }
                            Err(broadcast::error::TryRecvError::Lagged(_)) => continue,
                            Err(_) => break,
                        }
                    }
                    rounds += 1;
                    if !progressed {
                        break;
                    }
                    if rounds > 2000 {
                        manager_err = Some("LIVELOCK: no quiescence after 2000 rounds".to_string());
                    }
                }
                manager_err
                };
                let r = tokio::time::timeout_at(horizon, body).await;
                if let Some(mut rx) = unchoke_rx {
                    *mgr_reply = rx.try_recv().ok().map(|c| format!("{:?}", c));
                }
                if let Some(mut rx) = have_rx {
                    *mgr_reply = rx.try_recv().ok().map(|c| format!("{:?}", c));
                }
                match r {
                    Ok(r) => r,
                    Err(_) => Some("DEADLOCK: the step did not reach quiescence within an hour of virtual time (manager and a task wait for each other)".to_string()),
                }
            })
        });
        self.choice_groups = rdest::verif::take_choice_groups();
        self.choice_log = rdest::verif::take_choice_log();
        match res {
            Ok(None) => {}
            Ok(Some(e)) => self.dead = Some(e),
            Err(p) => self.dead = Some(format!("manager panicked: {}", p)),
        }
        if self.dead.is_none() {
            if let Some(p) = core::take_last_panic() {
                self.handler_panics.push(p);
            }
        } else {
            let _ = core::take_last_panic();
        }
        for p in self.peers.iter_mut() {
            let writes = p.pipe.writes();
            for w in &writes[p.writes_seen..] {
                match refwire::decode_writes(std::slice::from_ref(w)) {
                    Ok(m) => p.msgs.extend(m),
                    Err(e) => p.undecodable_write = Some(e),
                }
            }
            p.writes_seen = writes.len();
        }
    }

    pub fn feed(&mut self, i: usize, msgs: &[Msg]) {
        let bytes: Vec<u8> = msgs.iter().flat_map(refwire::encode).collect();
        self.step(&Ev::Feed(i, bytes), &[]);
    }

    pub fn snap(&self) -> SessionSnap {
        self.session.verif_snapshot()
    }

    pub fn handler(&self, i: usize) -> Option<HandlerSnap> {
        if self.peers[i].ended.get() {
            return None;
        }
        rdest::verif::handler_snapshot(&self.peers[i].cfg.addr)
    }

    pub fn new_msgs(&self, i: usize) -> &[Msg] {
        &self.peers[i].msgs[self.peers[i].new_from..]
    }

    pub fn now_ms(&self) -> u64 {
        let _g = self.rt.enter();
        (tokio::time::Instant::now() - self.start).as_millis() as u64
    }

    /// Names of the files in the download directory (sorted), with piece files classified:
    /// `piece:<index>` verified content of that index, `BADPIECE:<name>` anything else named *.piece.
    pub fn files(&self) -> Vec<String> {
        let mut out = vec![];
        fn walk(base: &std::path::Path, dir: &std::path::Path, out: &mut Vec<String>, t: &Torrent) {
            if let Ok(rd) = std::fs::read_dir(dir) {
                for e in rd.flatten() {
                    let p = e.path();
                    if p.is_dir() {
                        walk(base, &p, out, t);
                        continue;
                    }
                    let rel = p.strip_prefix(base).unwrap().display().to_string();
                    if rel.ends_with(".piece") {
                        let data = std::fs::read(&p).unwrap_or_default();
                        let h = core::sha1(&data);
                        let stem = rel.trim_end_matches(".piece");
                        match t.hashes.iter().position(|x| *x == h) {
                            Some(i) if stem == core::hex(&h) => out.push(format!("piece:{}", i)),
                            _ if data.iter().all(|b| *b == 0) && t.hashes.iter().any(|x| core::hex(x) == stem) => out.push(format!("leftover:{}", rel)),
                            _ => out.push(format!("BADPIECE:{}", rel)),
                        }
                    } else {
                        out.push(rel);
                    }
                }
            }
        }
        walk(&self.dir, &self.dir, &mut out, &self.t);
        out.sort();
        out
    }

    pub fn has_piece_file(&self, i: usize) -> bool {
        match std::fs::read(self.dir.join(self.t.piece_file(i))) {
            Ok(d) => core::sha1(&d) == self.t.hashes[i],
            Err(_) => false,
        }
    }

    /// Canonical text of the handler's state with payload bytes abstracted to per-block tags.
    pub fn handler_key(&self, i: usize) -> String {
        let p = &self.peers[i];
        let mut s = format!("[{} ended={} pend={} in={}", i, p.ended.get(), p.pending.iter().map(|c| short_broad(c)).collect::<Vec<_>>().join(","), p.pipe.pending());
        if let Some(h) = self.handler(i) {
            s.push_str(&format!(" id={} ck={} in={} ka={} tx={:?} buf={:?} dl={:?} ul={:?} ub={} cb={}", h.peer_id.is_some(), h.choked, h.interested, h.keep_alive, h.piece_tx, h.msg_buff, h.downloaded, h.uploaded, h.unexpected_blocks, h.conn_buffer_len));
            if let Some(rx) = &h.piece_rx {
                let off: usize = (0..rx.piece_index).map(|k| self.t.pieces[k].len()).sum();
                let tags: String = rdest::verif::verif_blocks(rx.buff.len())
                    .iter()
                    .map(|(b, l)| {
                        let got = &rx.buff[*b..*b + *l];
                        if rx.piece_index < self.t.pieces.len() && off + b + l <= self.t.content.len() && got == &self.t.content[off + b..off + b + l] {
                            'C'
                        } else if got.iter().all(|x| *x == 0) {
                            'Z'
                        } else {
                            'X'
                        }
                    })
                    .collect();
                s.push_str(&format!(" rx={} req={:?} left={:?} blocks={}", rx.piece_index, rx.requested, rx.left, tags));
            }
        }
        s.push(']');
        s
    }

    pub fn session_key(&self) -> String {
        let s = self.snap();
        let peers: Vec<String> = s
            .peers
            .iter()
            .map(|p| {
                format!(
                    "{}:{}{}{}{}{}{} idx={:?} pcs={} r={:?}/{:?} id={}",
                    p.addr,
                    if p.am_interested { 'I' } else { 'i' },
                    if p.am_choked { 'C' } else { 'c' },
                    if p.interested { 'N' } else { 'n' },
                    if p.choked { 'K' } else { 'k' },
                    if p.optimistic_unchoke { 'O' } else { 'o' },
                    if p.has_job { 'J' } else { 'j' },
                    p.piece_index,
                    p.pieces.iter().map(|b| if *b { '1' } else { '0' }).collect::<String>(),
                    p.download_rate,
                    p.uploaded_rate,
                    p.id.is_some(),
                )
            })
            .collect();
        format!("st={:?} peers={:?} cand={} round={} ext={} trk={} exr={}", s.statuses, peers, s.candidates.len(), s.round, s.files_extracted, s.tracker_running, s.extractor_running)
    }

    pub fn default_key(&self) -> String {
        let mut k = self.session_key();
        for i in 0..self.peers.len() {
            k.push_str(&self.handler_key(i));
        }
        k.push_str(&format!(" files={:?} dead={:?}", self.files(), self.dead.is_some()));
        k
    }
}

pub fn short_broad(c: &BroadCmd) -> String {
    match c {
        BroadCmd::SendHave { piece_index } => format!("H{}", piece_index),
        BroadCmd::SendOwnState { am_choked_map } => {
            let mut v: Vec<String> = am_choked_map.iter().map(|(a, c)| format!("{}={}", a, if *c { 'C' } else { 'U' })).collect();
            v.sort();
            format!("S[{}]", v.join(";"))
        }
    }
}

impl Drop for World {
    fn drop(&mut self) {
        rdest::verif::set_http(None);
        rdest::verif::set_net(None);
    }
}
