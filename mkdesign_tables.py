#!/usr/bin/env python3
"""Regenerates the generated tables of DESIGN.md (between <!-- BEGIN x --> / <!-- END x --> markers)
from seeded/*/meta.json and evidence/*.json."""
import json, glob, re, os

def seeded_table():
    rows = ["| seed | breaks | change | needs in order to manifest | reported by | history |", "|---|---|---|---|---|---|"]
    for f in sorted(glob.glob('/verif/seeded/*/meta.json')):
        m = json.load(open(f))
        name = os.path.basename(os.path.dirname(f))
        rows.append("| %s | %s | %s | %s | %s | %s |" % (name, m['breaks_property'], m['change'].replace('|', '\\|'), m['needs_to_manifest'].replace('|', '\\|'), ", ".join(m['checks_that_report_it']) or "—", m['history'].replace('|', '\\|')))
    return "\n".join(rows)

def evidence_table():
    rows = ["| id | tier of the committed evidence | level | what the run covered (from evidence/<id>.json) | wall s |", "|---|---|---|---|---|"]
    for f in sorted(glob.glob('/verif/evidence/C*.json')):
        e = json.load(open(f)); c = e['coverage']
        if e['level'] == 'model_checking' and 'states' in c:
            cov = "%s states, %s transitions, %s replays of the real code" % (c['states'], c['transitions'], c['traces_validated_against_impl'])
            if 'evaluations' in c and e['property_id'] in ('C19',):
                cov += "; %s enumerated inputs" % c['evaluations']
        else:
            cov = "%s evaluations, %s distinct non-trivial" % (c['evaluations'], c['distinct_nontrivial'])
        cov += ", exhaustive=%s" % c.get('exhaustive')
        rows.append("| %s | %s | %s | %s | %s |" % (e['property_id'], e['tier'], e['level'], cov, e['wall_s']))
    return "\n".join(rows)

def main():
    s = open('/verif/DESIGN.md').read()
    for name, gen in (("SEEDED", seeded_table), ("EVIDENCE", evidence_table)):
        b, e = "<!-- BEGIN %s -->" % name, "<!-- END %s -->" % name
        if b in s:
            s = s[:s.index(b) + len(b)] + "\n" + gen() + "\n" + s[s.index(e):]
    open('/verif/DESIGN.md', 'w').write(s)

main()
