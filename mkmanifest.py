#!/usr/bin/env python3
"""Generates /verif/MANIFEST.json from the table below (kept next to the checks it describes)."""
import json, subprocess

ENUM = "bounded-exhaustive enumeration of inputs against a reference model (explicit enumeration, no sampling)"
CHECKS = {
 # id: (level, technique, engine, text, note, design_ref)
 "C03": ("exploration", ENUM, "E-ENUM",
         "Every (piece length, file-length list) geometry inside the stated bound is built as a real .torrent, parsed by the real Metainfo, its verified pieces stored as real piece files and extracted by the real Extractor::run(); outputs are compared byte for byte with slices of position-coded content and the per-piece lengths must partition the total. Exhaustive inside the bound, silent outside it.",
         "reference model = slicing the concatenated content (harness/src/fixture.rs); real filesystem in a per-thread scratch cwd under /dev/shm", "DESIGN.md C03"),
 "C04": ("exploration", ENUM, "E-ENUM",
         "Every name / path string of <=3 components over {a,b,..,.,empty} (relative and absolute into a canary directory), for single- and multi-file torrents, is extracted by the real extractor inside a disposable tree; a recursive listing before/after shows every file or directory created. Anything outside the download directory (or outside ./name for an ordinary multi-file name) is a violation; refusing is fine.",
         "filesystem oracle; symlinks and bare '/'-rooted paths (which would hit the real root) are outside the alphabet", "DESIGN.md C04"),
 "C05": ("exploration", ENUM, "E-ENUM",
         "All documents of a grammar (key subsets and orders, 5 sibling value shapes incl. nested keys spelled info, 6 info dictionaries, 04:info spelling, trailers) go through the real Metainfo::from_bencode; for every accepted one info_hash() must equal SHA-1 of the byte span of the top-level info value found by the harness's own span parser.",
         "reference span parser harness/src/refb.rs; duplicate top-level keys not in the alphabet", "DESIGN.md C05"),
 "C07": ("exploration", ENUM, "E-ENUM",
         "For every message kind, products of a 14-value boundary alphabet per u32 field, 9 payload sizes up to and beyond the frame limit, 36 hash/id patterns and every bit vector up to 17 (quick) / 21 (thorough) bits: emitted bytes equal the reference BEP3 encoder, Frame::parse of those bytes (alone and followed by junk) yields the same fields, consumes exactly the message and re-serialises identically; bitfield bit order checked in both directions.",
         "reference codec harness/src/refwire.rs written from BEP3; nothing claimed outside the field alphabet", "DESIGN.md C07"),
 "C15": ("exploration", ENUM, "E-ENUM",
         "Every value of three index-addressable families (depth<=3, width<=2 quick / 3 thorough, leaf alphabet incl. i64 extremes, delimiter-like strings, prefix-related keys) is encoded by the real BEncoder and compared byte for byte with the harness's canonical encoder, decoded by the real BDecoder and compared with the original, and re-encoded; non-canonical key order decodes to the same value.",
         "reference encoder/parser harness/src/refb.rs", "DESIGN.md C15"),
 "C16": ("exploration", ENUM, "E-ENUM",
         "EVERY byte string over the 10-symbol alphabet 'ilde012:-a' up to length 8 (quick, 1.1e8 strings) / 9 (thorough), every truncation and single-symbol substitution of a document corpus, and a nesting ladder run in subprocesses: accept/reject and decoded values must agree with the reference recogniser and nothing may panic or crash. One known finding (unterminated containers accepted at end of input) is listed in known_findings.json and identified by a completion predicate; every other disagreement fails the check.",
         "reference recogniser harness/src/refb.rs; the ladder is a labelled probe outside the exhaustive bound", "DESIGN.md C16"),
 "C17": ("exploration", ENUM, "E-ENUM",
         "Totality of Metainfo::from_bencode on every string over the C16 alphabet up to length 6/7; a grammar of ~9000 well-formed documents (present/absent/ill-typed/zero/huge fields, file lists with malformed entries, overflowing sums): on success every field is compared with the harness's reading and every accessor is called for every valid index under catch_unwind; create_file round-trips for 7 boundary sizes x 3 names.",
         "harness reading skips malformed files entries like the repository's own tests; overflow checks on (as in cargo test builds)", "DESIGN.md C17"),
 "C18": ("exploration", ENUM + "; the real TrackerClient::run is executed and the request reqwest built is captured at the HTTP seam", "E-ENUM over the HTTP seam",
         "For every byte value at 3 (quick) / 6 (thorough) positions of the info-hash plus all-equal hashes, 5 announce URLs (with and without query string), 5 ids and 3 lengths, the real TrackerClient::run builds its request with reqwest; the final URL is split and percent-decoded by the harness: same host/port/path, original query pairs kept, exactly one info_hash decoding to the 20 bytes, peer_id, port=6881, left.",
         "request observed after reqwest built it (seam), not on a socket", "DESIGN.md C18"),
}
PENDING = {
 "C01": "check under construction in this session (E-SYS pumped world); not claimed until it runs soundly",
 "C02": "check under construction (E-SYS full-session world); not claimed until it runs soundly",
 "C06": "check under construction (E-SEG); not claimed until it runs soundly",
 "C08": "check under construction (E-SYS pumped world)",
 "C09": "check under construction (E-SYS pumped world)",
 "C10": "check under construction (E-ENUM + E-SYS)",
 "C11": "check under construction (E-SYS pumped world)",
 "C12": "check under construction (E-SYS pumped world)",
 "C13": "check under construction (E-MGR)",
 "C14": "check under construction (E-MGR)",
 "C19": "part (a) reply grammar runs; part (b) fault sequences in the full-session world under construction; not claimed until both run",
 "C20": "check under construction (E-SYS, virtual time)",
}

def hook_commits():
    out = subprocess.check_output(["git", "-C", "/repo", "log", "--format=%h %s"]).decode().splitlines()
    return [l.split(" ", 1)[0] for l in out if l.split(" ", 1)[1].startswith("verif hooks")][::-1]

def main():
    checks = []
    for pid in sorted(CHECKS):
        level, technique, engine, text, note, ref = CHECKS[pid]
        checks.append({
            "property_id": pid,
            "quick_cmd": "./check %s --tier quick" % pid,
            "thorough_cmd": "./check %s --tier thorough" % pid,
            "evidence_file": "/verif/evidence/%s.json" % pid,
            "replay_cmd_template": "./check %s --replay {path}" % pid,
            "engine": engine,
            "level_claimed": {"category": level, "text": text, "design_ref": ref},
            "level_note": note,
            "technique": technique,
        })
    m = {
        "version": 1,
        "setup_cmd": "cd /verif/harness && CARGO_NET_OFFLINE=true cargo build --release -q 2>/dev/null; test -x /verif/harness/target/release/rdv",
        "hooks": {
            "guard": "cargo feature `verif` of the rdest crate ([features] verif = [] in /repo/Cargo.toml)",
            "enable": "the harness crate depends on rdest = { path = \"/repo\", features = [\"verif\"] }; every ./check run does `cargo build --release` in /verif/harness first, i.e. rebuilds from /repo's working tree",
            "baseline_off_cmd": "cd /repo && cargo test --workspace --no-fail-fast --offline --tests",
            "source_commits": hook_commits(),
            "add_only": True,
        },
        "engines": [
            {"name": "E-ENUM", "path": "/verif/harness/src (strings.rs, refb.rs, refwire.rs, fixture.rs, c03 c04 c05 c07 c15 c16 c17 c18 c19)", "serves_properties": sorted(CHECKS), "kind_free_text": "bounded-exhaustive input enumeration against reference models written in the harness"},
        ],
        "checks": checks,
        "not_applicable": [{"property_id": k, "reason": v} for k, v in sorted(PENDING.items()) if k not in CHECKS],
        "notes": "All checks are run through /verif/check <ID>; exit 0 held / 1 VIOLATION / 2 machinery failure. known_findings.json lists recorded defects and fixed: entries.",
    }
    json.dump(m, open("/verif/MANIFEST.json", "w"), indent=1)
    print("checks:", len(checks), "not_applicable:", len(m["not_applicable"]))

main()
