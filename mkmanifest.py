#!/usr/bin/env python3
"""Generates /verif/MANIFEST.json from the table below (kept next to the checks it describes)."""
import json, subprocess

MC = 'explicit-state model checking of the real code: breadth-first search over environment-event histories of a closed world (real Session manager + real PeerHandler::run() tasks over in-memory pipes, paused tokio clock, real piece files), every successor computed by replaying the history against fresh real objects, states deduplicated on a canonical snapshot'
ENUM = "bounded-exhaustive enumeration of inputs against a reference model (explicit enumeration, no sampling)"
CHECKS = {
 "C02": ("model_checking", "explicit-state model checking of the real code in the full-session world: the real Session event loop (select!), tracker task, connection tasks and extractor run as tokio tasks under the paused clock over HTTP/connect seams; BFS over honest-peer event orders with replay-from-scratch successors, plus a fair-continuation liveness obligation from every unexpanded state", "E-SYS full-session world",
         "For a family of geometries (single-block and 16387-byte multi-block pieces, short/exact last piece, single file, multi-file with a boundary inside a piece and a zero-length file, 11 pieces = no end game) and piece distributions over 1..3 honest peers (seeder, complementary sets, redundant peers that leave and are offered again, Have-only announcers): BFS over all orders of handshake/bitfield/have/unchoke/answer(oldest|newest|split in two reads)/choke/interest/disconnect/tick events with every chooser tie-break; in every state no task panicked and the session is alive; every state that is not expanded must reach all pieces owned + extractor ran + every output file byte-identical + event loop still iterating under the fair continuation (900 s virtual horizon). Further scenarios: simultaneous arrival of one peer's answer and another peer's FIN (both orders), manager broadcasts held back per connection task (gate hook), a connected address re-listed under another peer id; further state invariants: Have implies a stored verified piece, an owned piece stays owned, no connection task waits for a block its honest peer already delivered. Unseamed: the one-seeder downloads are repeated over real loopback TCP (connect seam inactive) and must produce the same message sequence and files.",
         "fairness assumptions stated in the evidence; only outgoing connections exist in this world", "DESIGN.md C02"),

 "C01": ("model_checking", MC, "E-SYS pumped world",
         "BFS over all histories (depth 10 / 12) of 1..2 adversarial peers (correct, bit-flipped, mis-indexed, shifted, short/long, duplicated, unrequested blocks; choke; close; reset) plus an observer that requests data, at most 3 (quick) / 4 (thorough) dishonest events per history, every tie-break of the piece chooser enumerated. In every reachable state: every *.piece file hashes to its name and to a piece of the torrent, Have implies a stored verified file, every Have/Bitfield/Piece frame written refers to stored verified data and carries the right bytes, output files only from complete verified data, no live task sits on a fully assembled piece, every Reserved status is backed by a live unchoking peer that is fetching it. Two full-session scenarios borrowed from C02 (a host re-listed by the tracker under a new peer id while its old connection lives; two seeders with held-back broadcasts) are run with the storage invariants only.",
         "payload bytes abstracted to per-block tags in the state key; 2-piece torrent (16387 B + 5 B); bounds as stated in the evidence", "DESIGN.md C01"),
 "C06": ("model_checking", "exhaustive enumeration of (message stream, segmentation into reads, ending) triples against the real Connection::recv_frame polled by hand, reference stream decoder as oracle; plus exhaustive undecodable/closed endings inside the real connection task", "E-SEG + E-SYS",
         "Every stream of <=2 (quick) / <=3 (thorough) messages over a 20-symbol alphabet (valid, unknown ids, wrong fixed lengths, variable-length kinds shorter than their fixed part, oversized, bad protocol strings, 16 KiB and maximal frames) x every segmentation (all 2^(n-1) for short streams, all subsets of <=2/3 cuts from a cut-point set otherwise) x {open, EOF, truncation points}: frames delivered after each read equal the reference decoding of the delivered prefix (nothing complete is withheld, unknown ids skipped), no panic, the buffer is always a proper frame prefix <= one maximal frame, undecodable or truncated streams raise an error once the offending message is complete. E-SYS: the same endings in a real PeerHandler::run() task must end the task and make the manager drop the peer in that very step, without any timer.",
         "reference decoder harness/src/refwire.rs; id 0x54 deliberately outside the alphabet (see DESIGN.md)", "DESIGN.md C06"),
 "C08": ("model_checking", MC, "E-SYS pumped world",
         "BFS to depth 6 / 8 over a 14-symbol alphabet (good handshake, two single-bit hash corruptions, foreign peer id, wrong protocol string, wrong pstrlen, truncated handshake, 7 ordinary messages) on an outgoing and an incoming connection with the manager owning all pieces, plus all 160 single-bit hash corruptions: first written message is the own correct handshake, nothing is written on an incoming connection before a valid handshake, after a foreign handshake nothing more is written, the task ends and the manager forgets the peer, no Piece frame without a completed valid handshake.",
         "handshakes are recognised by the reference stream decoder over all bytes fed, so misaligned ones do not count", "DESIGN.md C08"),
 "C09": ("model_checking", "exhaustive enumeration of request histories (240-request boundary alphabet x choke contexts x pairs/triples with real rotation decisions in between) executed in the pumped world (real connection task + real manager); oracle on written frames", "E-SYS pumped world",
         "Every request of {5 indices}x{8 offsets}x{6 lengths} in each of 5 choke contexts on both connection directions, every pair (loader request, any request) with nothing / choke / choke+unchoke by the real rotation in between (thorough: all 240^2 pairs and triples over 12 requests): at most one Piece per request, same index and offset, exactly the stored bytes, only while the last choke-state frame written is Unchoke, only owned pieces, length <= 16 KiB inside the piece, no panic. Plus a BFS (depth 8 / 10, both directions) over interest / bitfield / real rotation / request events that reaches the manager states in which the peer holds or held the optimistic unchoke.",
         "overflow checks on (as cargo test / cargo run builds); nothing claimed for fields outside the alphabet", "DESIGN.md C09"),
 "C10": ("model_checking", MC + "; plus exhaustive enumeration of the block list for every piece length 1..=81921", "E-ENUM + E-SYS pumped world",
         "PieceRx::left(n) for EVERY n in 1..=81921 tiles n exactly (contiguous, <=16 KiB, only the last shorter). For 7 piece lengths around the block size plus the short last piece: BFS over every order in which the peer answers outstanding requests, duplicates an answered block or stops: requests name the piece being fetched, never overlap, cover it exactly; an accepted block is followed by a further request while blocks are unrequested; the piece is stored exactly when the last outstanding block arrives. Two-connection end-game scenarios: an assignment cancelled because the other connection finished the piece, re-assignment, no connection waits for a delivered block, requested blocks are tracked.",
         "one connection, honest payloads", "DESIGN.md C10"),
 "C11": ("model_checking", MC, "E-SYS pumped world (gated broadcasts)",
         "BFS (depth 9-11 quick / 11-14 thorough) over all interleavings of piece completions on a downloading connection with connect/handshake/choke/unchoke of an outgoing and an incoming observer and the release of each held-back manager broadcast: the bitfield written equals the set of verified stored pieces at that moment, every Have(i) is written only when piece i is stored, and whenever an observer is not choking us every completion released to its connection task has been announced, in completion order.",
         "single-block pieces; completion order = order of SendHave broadcasts", "DESIGN.md C11"),
 "C12": ("model_checking", MC, "E-SYS pumped world",
         "BFS (depth 6 quick / 8-9 thorough; 675k states, 5.1M transitions in the thorough tier) over all peer-event histories of 2..3 real connection tasks (bitfield subsets, have, choke, unchoke incl. repeated, interest, answering the outstanding request also while choking, disconnect, gated broadcast release) on a 3-piece (end game) and a 13-piece torrent, every chooser tie-break enumerated. In every quiescent state: Have is monotone, every Reserved status is backed by a connected peer that does not choke us, holds that assignment and whose task fetches it, every Request names an advertised piece the client lacks, neither manager nor task panics. Dedicated scenarios allow repeated / late bitfields and, with held-back broadcasts, peers that leave before their task saw a completion.",
         "invariants evaluated at quiescence (Lipton reduction argued in DESIGN.md 0.2)", "DESIGN.md C12"),
 "C13": ("model_checking", "exhaustive enumeration of manager states x every tie-break (every Fisher-Yates digit vector of the real shuffle) against the statement's definition; the real choose_piece_index is called for each", "E-MGR",
         "n<=4 pieces: every status vector over {Missing, Reserved(1), Reserved(2), Have} x every advertised set of the asked peer and 1-2 others x all n! tie-breaks (quick 1.2M, thorough more); end-game threshold family n=9..12: every (have,reserved,missing) split, structured advertised sets, every candidate brought to the front once. The pick must be advertised, not owned, not reserved unless fewer than ten remain, and of minimal availability; nothing is picked iff no such piece exists. Plus BFS over real Bitfield / Have / Choke / Unchoke commands of 2-3 peers (3- and 12-piece torrents): every pick the manager makes on an unchoke is judged against the harness's own record of what the peers advertised.",
         "the asked peer holds no own assignment; observed at choose_piece_index", "DESIGN.md C13"),
 "C14": ("model_checking", MC + " (manager-only peers for E-MGR)", "E-MGR + E-SYS",
         "BFS over command histories handed to the real manager for N=2,3 (all events), N=12/13 symmetric (brought to the slot limit, then all events) with the optimistic choice enumerated: never more than 10 regular + 1 optimistic unchokes; after every rotation that was carried out slot holders are interested, no better interested peer is left choked, uninterested peers are choked, and the broadcast equals the state change. E-SYS: 3 real connection tasks with gated broadcasts: once nothing is held back, the Choke/Unchoke frames each peer received add up to the manager's view.",
         "both reported rates set to the same value (which rate the policy should use is not judged)", "DESIGN.md C14"),
 "C19": ("model_checking", "(a) bounded-exhaustive enumeration of reply bodies against a reference reading; (b) exhaustive enumeration of tracker fault words F^n.S (all words n<=3, homogeneous n<=70) executed in the full-session world: real event_loop, tracker task, retry loop, handle_tracker_cmd, spawn_peer_handler over HTTP and connect seams", "E-ENUM + E-SYS full-session world",
         "(a) totality on every string over the C16 alphabet up to length 6/7; 27k structured replies (peer entries good/malformed, interval and failure-reason shapes) read exactly as the harness reads them. (b) for every fault word, with a live connection present: after each failed announce the manager must process that connection's next message in the same quiescent step, after the good announce the listed peers are contacted; no panic, no deadlock (n=65..70 cross the 64-slot channel). Every fault word is also run with a second connection ending after 0..2 failures.",
         "HTTP layer replaced by the seam (request observed after reqwest built it)", "DESIGN.md C19"),
 "C20": ("model_checking", MC + ", virtual time", "E-SYS pumped world, paused clock",
         "BFS over every timed script: each 120 s interval cut into slots (30/60/90 s and 1/119 s), one of up to 7 symbols per slot, 6 (quick) / 12 (thorough) intervals, states merged on real state + slot: a connection with only keep-alives or silence since t is ended, forgotten and its reservation released by t+360 s; a connection with a live message in every interval is never closed for inactivity; exactly one KeepAlive frame is written per tick on a live connection. Scenarios in which the peer never handshakes or handshakes late (outgoing and incoming) are included.",
         "messages arrive at slot times only", "DESIGN.md C20"),
 # id: (level, technique, engine, text, note, design_ref)
 "C03": ("exploration", ENUM, "E-ENUM",
         "Every (piece length, file-length list) geometry inside the stated bound is built as a real .torrent, parsed by the real Metainfo, its verified pieces stored as real piece files and extracted by the real Extractor::run(); outputs are compared byte for byte with slices of position-coded content and the per-piece lengths must partition the total. Exhaustive inside the bound, silent outside it.",
         "reference model = slicing the concatenated content (harness/src/fixture.rs); real filesystem in a per-thread scratch cwd under /dev/shm", "DESIGN.md C03"),
 "C04": ("exploration", ENUM, "E-ENUM",
         "Every name / path string of <=3 components over {a,b,..,.,empty} (relative and absolute into a canary directory), for single- and multi-file torrents, is extracted by the real extractor inside a disposable tree; a recursive listing before/after shows every file or directory created. Anything outside the download directory (or outside ./name for an ordinary multi-file name) is a violation; refusing is fine.",
         "filesystem oracle; symlinks and bare '/'-rooted paths (which would hit the real root) are outside the alphabet", "DESIGN.md C04"),
 "C05": ("exploration", ENUM, "E-ENUM",
         "All documents of a grammar (key subsets and orders, 5 sibling value shapes incl. nested keys spelled info, 6 info dictionaries, 04:info spelling, trailers) go through the real Metainfo::from_bencode; for every accepted one info_hash() must equal SHA-1 of the byte span of the top-level info value found by the harness's own span parser. The grammar also puts values in front of the torrent dictionary (non-dictionaries, decoy dictionaries with an info key) and repeats the info key inside it (hash and fields must then come from the same, last, occurrence).",
         "reference span parser harness/src/refb.rs; duplicate top-level keys not in the alphabet", "DESIGN.md C05"),
 "C07": ("exploration", ENUM, "E-ENUM",
         "For every message kind, products of a 14-value boundary alphabet per u32 field, 9 payload sizes up to and beyond the frame limit, 36 hash/id patterns and every bit vector up to 19 (quick) / 24 (thorough) bits: emitted bytes equal the reference BEP3 encoder, Frame::parse of those bytes (alone and followed by junk) yields the same fields, consumes exactly the message and re-serialises identically; bitfield bit order checked in both directions.",
         "reference codec harness/src/refwire.rs written from BEP3; nothing claimed outside the field alphabet", "DESIGN.md C07"),
 "C15": ("exploration", ENUM, "E-ENUM",
         "Every value of three index-addressable families (depth<=3, width<=2 quick / 3 thorough, leaf alphabet incl. i64 extremes, delimiter-like strings, prefix-related and non-UTF-8 keys) is encoded by the real BEncoder and compared byte for byte with the harness's canonical encoder, decoded by the real BDecoder and compared with the original, and re-encoded; non-canonical key order decodes to the same value.",
         "reference encoder/parser harness/src/refb.rs", "DESIGN.md C15"),
 "C16": ("exploration", ENUM, "E-ENUM",
         "EVERY byte string over the 10-symbol alphabet 'ilde012:-a' up to length 8 (quick, 1.1e8 strings) / 9 (thorough), every truncation and single-symbol substitution of a document corpus, and a nesting ladder run in subprocesses: accept/reject and decoded values must agree with the reference recogniser and nothing may panic or crash. One known finding (unterminated containers accepted at end of input) is listed in known_findings.json and identified by a completion predicate; every other disagreement fails the check. A family of 108 huge / overflowing / zero-padded string-length headers is decoded in a subprocess (allocation aborts are not catchable in-process).",
         "reference recogniser harness/src/refb.rs; the ladder is a labelled probe outside the exhaustive bound", "DESIGN.md C16"),
 "C17": ("exploration", ENUM, "E-ENUM",
         "Totality of Metainfo::from_bencode on every string over the C16 alphabet up to length 6/7; a grammar of ~9000 well-formed documents (present/absent/ill-typed/zero/huge fields, file lists with malformed entries, overflowing sums): on success every field is compared with the harness's reading and every accessor is called for every valid index under catch_unwind; create_file round-trips for 7 boundary sizes x 3 names.",
         "harness reading skips malformed files entries like the repository's own tests; overflow checks on (as in cargo test builds)", "DESIGN.md C17"),
 "C18": ("exploration", ENUM + "; the real TrackerClient::run is executed and the request reqwest built is captured at the HTTP seam", "E-ENUM over the HTTP seam",
         "For every byte value at 3 (quick) / 6 (thorough) positions of the info-hash plus all-equal hashes, 5 announce URLs (with and without query string), 5 ids and 3 lengths, the real TrackerClient::run builds its request with reqwest; the final URL is split and percent-decoded by the harness: same host/port/path, original query pairs kept, exactly one info_hash decoding to the 20 bytes, peer_id, port=6881, left. Cases with 1-2 (thorough 3) failed announces before the good one: every retry request is judged as well.",
         "request observed after reqwest built it (seam), not on a socket", "DESIGN.md C18"),
}
PENDING = {
}

def hook_commits():
    out = subprocess.check_output(["git", "-C", "/repo", "log", "--format=%h %s"]).decode().splitlines()
    return [l.split(" ", 1)[0] for l in out if l.split(" ", 1)[1].startswith("verif hooks")][::-1]


# additions after the third round of seeded changes (appended to the level text of each check)
ROUND3 = {
 "C01": " Further scenarios: -stale (the download directory already holds zero-filled files of the right length under the names of listed pieces: a piece counts as stored only when its file holds verified content) and a gated two-adversary scenario (end game, one connection completes a piece correctly, the other then completes it with corrupt data).",
 "C02": " Tracker-shape scenarios: a 14-address swarm whose later replies exceed the dial budget of 11 and re-list connected peers above the only seeder (inert peers that only keep their connection alive, peers that leave and refuse to be dialled again), a 12-entry reply naming one address twice (stale and current peer id), a re-announce listing a connected address followed by a new one. Extra state invariant on the manager's records: a Reserved piece has a connected, unchoking holder. A tracker-request loop that lets no virtual time pass is cut after 64 requests and reported.",
 "C08": " Full-session scenarios borrowed from C02 (identity-*): after a re-announce that lists a connected address followed by a new one, the new peer presenting its announced id must stay connected and one presenting the connected peer's id must be dropped; a host re-listed under a new id.",
 "C10": " tiling2: two connections in end game with repeated unchokes (V<k>) and loss of the other connection (X<k>): the requests written on each connection for a piece still tile it exactly once.",
 "C11": " -d2 scenarios: a second, gated downloader of the same piece (answers, choke, broadcasts released late) while new connections receive their bitfield.",
 "C12": " Full-session scenarios borrowed from C02 (reservation-*): 12-entry reply naming one address twice, host re-listed under a new id, seeder plus leaver; judged on the manager's reservation records only.",
 "C13": " Picks along histories: bitfield / unchoke / answer / disconnect (K<k>) events on 13 pieces (outside end game), every pick judged against the relation with 'being fetched' derived from the connected peers' assignments (not from the status vector).",
 "C14": " INR scenarios: interest / not-interest / rotation over preset bitfields (2 peers to depth 14 / 18, 3 peers to depth 10 / 13), the optimistic slot counted as flagged AND unchoked.",
 "C19": " Fault words up to length 2 are followed by the final good reply in every order of its entries (8 orders) while one peer of the first announce stays connected: every listed, not yet connected peer must be dialled.",
 "C20": " Duo: a second connection keeps answering (and completing the pieces the silent one holds) while the first stays silent: the silent one must still be dropped within three intervals.",
}

# additions after the fourth round of seeded changes
ROUND4 = {
 "C03": " Each geometry is extracted twice: into an empty directory and again after every output path was overwritten with a longer file of other bytes (an earlier release, an interrupted run): the result must be exactly the described files both times.",
 "C04": " Multi-file torrents come in 7 layouts: the file carrying the enumerated path is first / in the middle / last / the only one and 2 bytes long, empty, or spanning two pieces; single-file torrents with content lengths 3, 0 and 9.",
 "C05": " Sibling values include the byte string info itself (two length spellings), i.e. a value that looks like the key; the family without announce is run in full.",
 "C09": " A second BFS scenario puts a manager-only peer P (bitfield, interest changes) next to the connection so that both change in the same rotations (depth 13 / 16).",
 "C14": " roles-*: 12 interested peers whose two reported rates order them in opposite ways, on a 2-piece torrent whose pieces are missing / owned / reserved in 7 combinations: the ranking must follow the rate of the downloader role unless the client owns every piece.",
 "C15": " Long documents: 12 small values behind a filler string of every length 0..=600 (thorough 0..=5000, and around 2^10..2^17) in three layouts, so that nested containers start at every byte offset across the 255/256 boundaries; nesting ladders of depth 1..=256.",
 "C17": " Every proper prefix and every single-byte deletion of every accepted grammar document (a damaged .torrent) goes through the same obligations: read or refused, never a panic.",
 "C18": " Total lengths {0, 1, 2^31-1, 2^32, 2^40, 2^40+1, 2^53+1, 2^63-1, 2^63, 2^63+1, 2^64-1}, those above 2^63-1 as multi-file torrents: left must be the decimal total.",
 "C19": " Budget cases: the good reply (after 0..3 faults) arrives while 7..=13 of 15 connected peers are interesting: no panic or hang, still serving, min(3, max(0, 11-j)) of the listed peers dialled at once, the others exactly once as connections end.",
 "C20": " Timed scripts also contain decisions of the manager's choke rotation (Rotate) and interest changes of the peer: a Choke/Unchoke written by the client is not a sign of life of the peer.",
}

# additions after the fifth round of seeded changes
ROUND5B = {
 "C02": " Dial-in replays (hook 10 publishes the listener's port): for the one-seeder scenarios an honest seeder dials the real session over loopback TCP — the accept path (listener, spawn_peer_listener, accepted socket) that the connect seam never reaches: nothing may arrive before its handshake, the client's first message is its handshake, the download completes with identical files.",
 "C08": " Four exchanges with the real accept path over loopback TCP: a dial-in peer stays silent / sends a handshake for another torrent / a good handshake / a Bitfield before any handshake.",
}
ROUND5 = {
 "C02": " Further state invariant: a peer that unchokes us and has announced a piece nobody is fetching has a request outstanding (an idle connection is otherwise masked by the keep-alive limit plus reconnect).",
 "C03": " Plus realistic piece sizes (16384; thorough 8192, 8193, 20000, 65536): total 2p+5, files = the segments between every choice of <= 2 (3) cut points from offsets around the piece boundaries, the 8 KiB mark and interior points.",
 "C05": " Four more info dictionaries carry zero-padded string lengths in front of a name / pieces string / path ending in 'e' bytes.",
 "C06": " The loopback conformance replays treat a panic of the subject as an outcome (compared with the in-memory run), not as an engine failure.",
 "C08": " -while-downloading variants: the client owns nothing and a second connection completes pieces at any point (the manager announces them to every connection task) while the connection under test goes through good / corrupted handshakes.",
 "C09": " The second-peer scenario also has a leftover file under the name of the lacked piece, Pu (that piece gets reserved for the other peer) and requests for it.",
 "C10": " tiling-<len>-mind12: 12 pieces (outside end game), the peer advertises piece 0 only and may, mid-piece, send the same Bitfield again and Have(1): no request may name another piece while the current one is only partly requested.",
 "C11": " -busy scenarios: the manager may be busy once per history (Pause ... Resume in the pumped world: commands of the tasks queue up and are worked off in arrival order without any task running in between), which produces 'Init handled, then a completion, before the task resumes'. The bitfield is judged against what the manager had been told when it built it; what it lacks must be announced.",
 "C12": " Q<k>: the answer to a request the client has cancelled (it crossed the Cancel on the wire), and a single-piece gated scenario in which both peers are asked for the same piece.",
 "C15": " Plus every byte string of length 0..=2 (65 793) as a bare value, a list element, a dictionary value and a dictionary key.",
 "C16": " (5) wide documents: n = 1..=700 (thorough 3000) sibling containers at the top level, in a list, as dictionary values and inside a nested list, each followed by a nested container.",
 "C17": " create_file cases also run over an existing <name>.torrent (after a create of a 0-byte file, and of a file two chunks longer with a longer tracker address).",
 "C19": " Completion cases: during the outage P delivers every piece, the client drops P, the extractor runs and finishes while the tracker task still retries; a leecher probes that the manager keeps serving.",
}

# additions after the sixth round of seeded changes (and the file-system seam)
ROUND6 = {
 "C01": " One honest in-memory download of two pieces of 2 MiB + 16 KiB + 5 bytes; the borrowed gated scenario contains fw events (a replacement of an existing piece file held before its rename, hooks 11-13).",
 "C02": " fw events (file-system seam) in gated scenarios; big-swarm cases (15 connections, 10..13 interesting, a tracker answer arrives); a download with pieces over 2 MiB; view-run replays (every ungated scenario's fair continuation through Session::run() with the progress view, in a subprocess); binary peer ids.",
 "C04": " Components are also joined by backslashes and by '/' with a backslash before the last component.",
 "C05": " Sibling keys a:info / comment / infoo / z:info.",
 "C06": " The loopback replays run the receiver as its own task; a real-socket outcome that differs from the reference-judged in-memory outcome is a violation (socket-path-decodes-differently).",
 "C08": " -crowded variants: ten slot holders, rates reported, R (one real rotation) during the handshake phase.",
 "C09": " One real-socket run under back-pressure through the accept path: 1024 pipelined requests read late, all 1024 Piece frames judged.",
 "C10": " Q: the peer's own (refused) request in the middle of its upload to us.",
 "C11": " -rotate: the observer holds one of our slots, R chokes it while announcements are held back.",
 "C12": " Three real-socket exchanges: a holder that dialled in ends its stream at a message boundary / inside a Piece message / inside a length prefix; peer and reservation must be gone 1.5 s later.",
 "C15": " Strings of 255 .. 2^21+1 bytes in four positions.",
 "C18": " Nine announce URLs incl. upper/mixed-case scheme and host, IPv6 and IPv4 literals.",
 "C19": " Binary peer ids in scripted replies; a first good reply that does not lead to connections is a verdict.",
 "C20": " Pause/Resume of the manager (busy manager) as timed symbols; judged at the first slot after it resumed.",
}

# additions after the seventh round of seeded changes
ROUND7 = {
 "C01": " Storage fault in a subprocess (RLIMIT_FSIZE 20000): a 40000-byte piece cannot be stored completely; nothing may count as stored that is not. Manager and connection task must agree on whether a peer chokes us.",
 "C05": " Every document without trailer also without its last byte (cut-off .torrent): refused, or hashed like the complete one.",
 "C06": " Piece with length prefix 8 / 1, Request with 12, Cancel with 14.",
 "C12": " Invariant: manager and connection task agree on whether the peer chokes us (the task follows the wire).",
 "C19": " Late-fault cases (two announce tasks alive, one more failure after the first good reply) and a probe after every recovery.",
 "C20": " A timed scenario with every message kind as the only sign of life.",
}
ROUND8 = {
 "C03": " File and directory names with runs of dots inside a component.",
 "C08": " Full-queue variants: the manager is busy and its 64-slot command queue is full when the connection ends / the handshake arrives.",
 "C10": " Choking peer: choke/unchoke at any point of a piece, answers to the requests outstanding at the choke arriving behind it; no request while choked, no completion by late blocks.",
 "C11": " Real-socket lag runs: a leecher stops reading (its task sits in a socket write) while 20 / 44 more pieces are completed, reads again and unchokes: every announcement is delivered or the connection is over.",
 "C12": " Full-queue scenario: the peer's Choke / disconnect arrives while the manager is busy and its command queue is full.",
 "C13": " Departure histories: three peers with overlapping sets, a disconnect changes which piece is rarest between two picks.",
 "C14": " Interest changes within one segment (Interested+NotInterested in one read); the manager's interest record must equal what the peer last declared; leeching variant.",
 "C17": " create_file through a symbolic link.",
 "C18": " Announce URLs with non-ASCII characters in path and query.",
 "C19": " Busy-manager cases: failure reports and the good reply pile up in the tracker queue and are worked off in one go.",
}
ROUND9 = {
 "C01": " A storage fault that hits one connection only while another connection stores the same piece; a peer dialling in from the address of a connected peer (real accept path).",
 "C03": " Sibling names that share a stem and look like scratch names; files named like one of the torrent's own piece files (known finding).",
 "C10": " The peer's own interest flapping (Interested / NotInterested) in the middle of a piece.",
 "C11": " Wire-level invariant in borrowed full-session scenarios (every Have / bitfield bit names a stored, verified piece); real-socket run: a peer dials in from the address of a connected peer.",
 "C13": " A Have that makes the manager hand out a piece is judged as a pick; 12-piece histories with Have commands and departures; preset variant.",
 "C18": " URLs with #fragment and look-alike parameter names; re-announces of a running session (left = bytes still missing).",
 "C19": " Busy-manager cases with a second connection ending after the good reply was queued.",
 "C20": " Messages of unknown kinds (BEP 10 extended, BEP 5 port) as signs of life; inactivity close while the manager's queue is full.",
}
ROUND10 = {
 "C01": " Borrows C12's Have-path scenario.",
 "C02": " Three-party scenario outside end game (12pc-idle-holder-announces); recorded finding idle-holder-not-asked-for-a-freed-piece is reported and explored past.",
 "C03": " Directories named like the start of the previous entry's directory.",
 "C05": " Duplicate info keys in different length spellings.",
 "C08": " Choke / Unchoke before the handshake while pieces complete elsewhere.",
 "C09": " Gated upload scenario (held-back broadcasts): a Piece is wrong when wire and manager's record both say choked and no decision is in flight.",
 "C10": " Borrows C12's Have-path scenario.",
 "C11": " Borrows C12's Have-path scenario.",
 "C12": " Invariants 'owned / announced implies stored'; Have-path scenario with a choice between the announced and a rarer freed piece.",
 "C16": " White space, NUL, FF, 0xFF substituted / inserted / appended around every corpus document.",
 "C18": " Re-announces for every proper subset of owned pieces (short last piece).",
 "C19": " Good replies that list nobody.",
 "C20": " Real-socket run under the paused clock: a peer that floods requests and then neither reads nor writes.",
}
ROUND12 = {
 "C03": " Long file lists (1500; thorough 300..4000 files) under a descriptor limit of 1024.",
 "C06": " Flood runs over loopback TCP: 400 000 Have frames at once (plain, behind an oversized header, behind a maximal frame); undecoded bytes held after every frame never above one maximal frame. Unknown id 0x54 (the fifth byte of a handshake) is in the alphabet.",
 "C08": " T: keep-alive intervals pass during the handshake phase (plain variants).",
 "C19": " Real-HTTP runs: a loopback tracker answers through reqwest with Content-Length, chunked, close-delimited and split replies.",
 "C20": " Silent non-reading peer with only 9-byte messages to write (real socket with 4 KiB buffers, paused clock).",
}
ROUND11 = {
 "C02": " One real-socket run with dials that neither succeed nor fail: the seeder listed in front of eleven hosts with a full listen queue that accept-and-close after 6 s; the download must complete.",
 "C11": " Held-back flush run: the real connection task over a TcpStream with 4 KiB buffers, 3000 / 6000 announcements held back, the peer reads only after its Unchoke and must decode exactly Have 0..n.",
 "C03": " Piece lengths above 256 KiB.",
 "C04": " Deep paths (31..256 harmless components in front of the parent components).",
 "C06": " Bursts of up to 1000 complete unknown-kind messages in one read.",
 "C09": " Uploads from a piece of more than 2 MiB.",
 "C12": " A storage fault at the moment a piece completes.",
 "C15": " Wide containers (254..1000 sibling containers).",
 "C16": " Byte strings of 4 KiB .. 1 MiB in four positions.",
 "C18": " Question mark only in the fragment; binary percent-escapes in existing parameters.",
}

def main():
    checks = []
    for pid in sorted(CHECKS):
        level, technique, engine, text, note, ref = CHECKS[pid]
        text = text + ROUND3.get(pid, "") + ROUND4.get(pid, "") + ROUND5.get(pid, "") + ROUND5B.get(pid, "") + ROUND6.get(pid, "") + ROUND7.get(pid, "") + ROUND8.get(pid, "") + ROUND9.get(pid, "") + ROUND10.get(pid, "") + ROUND11.get(pid, "") + ROUND12.get(pid, "")
        checks.append({
            "property_id": pid,
            "quick_cmd": "./check %s --tier quick" % pid,
            "thorough_cmd": "./check %s --tier thorough" % pid,
            "evidence_file": "/verif/evidence/%s.json" % pid,
            "replay_cmd_template": "./check %s --replay {path}" % pid,
            "engine": engine,
            "level_claimed": {"category": level, "text": text, "design_ref": ref},
            "level_note": note,
            "technique": technique,
        })
    m = {
        "version": 1,
        "setup_cmd": "cd /verif/harness && CARGO_NET_OFFLINE=true cargo build --release -q 2>/dev/null; test -x /verif/harness/target/release/rdv",
        "hooks": {
            "guard": "cargo feature `verif` of the rdest crate ([features] verif = [] in /repo/Cargo.toml)",
            "enable": "the harness crate depends on rdest = { path = \"/repo\", features = [\"verif\"] }; every ./check run does `cargo build --release` in /verif/harness first, i.e. rebuilds from /repo's working tree",
            "baseline_off_cmd": "cd /repo && cargo test --workspace --no-fail-fast --offline --tests",
            "source_commits": hook_commits(),
            "add_only": True,
        },
        "engines": [
            {"name": "E-SYS/E-MGR/E-SEG", "path": "/verif/harness/src (world.rs, fullworld.rs, explore.rs, c01 c06 c08 c09 c10 c11 c12 c13 c14 c19 c20)", "serves_properties": ["C01","C02","C06","C08","C09","C10","C11","C12","C13","C14","C19","C20"], "kind_free_text": "explicit-state search where every transition runs the real handler/manager code on one pending event (paused tokio clock, in-memory pipes, real files)"},
            {"name": "E-ENUM", "path": "/verif/harness/src (strings.rs, refb.rs, refwire.rs, fixture.rs, c03 c04 c05 c07 c15 c16 c17 c18 c19)", "serves_properties": sorted(CHECKS), "kind_free_text": "bounded-exhaustive input enumeration against reference models written in the harness"},
        ],
        "checks": checks,
        "not_applicable": [{"property_id": k, "reason": v} for k, v in sorted(PENDING.items()) if k not in CHECKS],
        "notes": "All checks are run through /verif/check <ID>; exit 0 held / 1 VIOLATION / 2 machinery failure. known_findings.json lists recorded defects and fixed: entries.",
    }
    json.dump(m, open("/verif/MANIFEST.json", "w"), indent=1)
    print("checks:", len(checks), "not_applicable:", len(m["not_applicable"]))

main()
