#!/bin/sh
# usage: ./mutate.sh <patch.diff> <ID> [<ID>...]
# Applies a seeded change to /repo (which must be clean), runs the quick checks of the listed
# properties, prints their verdict lines and always restores /repo afterwards.
patch="$1"; shift
if [ -n "$(git -C /repo status --porcelain --untracked-files=no)" ]; then echo "/repo is not clean"; exit 2; fi
git -C /repo apply "$patch" || { echo "patch does not apply"; exit 2; }
for id in "$@"; do
    echo "--- $id with $(basename $(dirname $patch))/$(basename $patch)"
    /verif/check "$id" --tier ${TIER:-quick} 2>&1 | grep -E "^(OK|VIOLATION|KNOWN-FINDING|MACHINERY| class=)|^  class" | cut -c1-260 | head -8
done
git -C /repo checkout -- .
# the harness binary was built against the patched tree: rebuild it for the clean one
(cd /verif/harness && cargo build --release -q >/dev/null 2>&1)
