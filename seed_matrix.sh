#!/bin/sh
# usage: seed_matrix.sh [prefix-glob, e.g. 'C0' or '*d']
# Runs every seeded change against the checks its meta.json says report it; prints one line per
# (seed, check): CAUGHT / MISSED. /repo must be clean; it is restored after every seed.
cd /verif
for d in seeded/${1:-}*/; do
    name=$(basename $d)
    checks=$(python3 -c "import json;print(' '.join(json.load(open('$d/meta.json'))['checks_that_report_it']))")
    out=$(./mutate.sh /verif/$d/patch.diff $checks 2>&1)
    for c in $checks; do
        if echo "$out" | awk -v c="$c" '$0 ~ "^--- "c" with"{f=1;next} /^--- /{f=0} f' | grep -q "^VIOLATION property=$c"; then echo "CAUGHT $name by $c"; else echo "MISSED $name by $c"; fi
    done
done
