#!/bin/sh
# usage: ./unfix_matrix.sh [commit...]   — for every "fixed:" entry of known_findings.json (or the listed
# commits) undo that repair in the working tree of /repo (reverse patch, /repo must be clean), run the quick
# check of the property the entry names and expect a VIOLATION; /repo is restored afterwards. A fixed
# entry suppresses nothing, so the violation must be reported again when the defect returns.
# Output: one line per entry: REPORTED / SILENT / DOES-NOT-REVERSE (later changes touch the same lines).
cd /verif
python3 - "$@" <<'P' > /tmp/unfix_list.txt
import json,re,sys
d=json.load(open('/verif/known_findings.json'))
for x in d['fixed']:
    m=re.match(r'fixed: property=(C\d+) (\w+) ',x)
    if len(sys.argv)>1 and m.group(2) not in sys.argv[1:]: continue
    print(m.group(1),m.group(2))
P
mkdir -p /tmp/unfix
while read id c; do
    git -C /repo diff "$c" "$c^" -- src > /tmp/unfix/$c.diff
    if ! git -C /repo apply --check /tmp/unfix/$c.diff 2>/dev/null; then echo "$id $c DOES-NOT-REVERSE"; continue; fi
    out=$(./mutate.sh /tmp/unfix/$c.diff $id 2>&1)
    if echo "$out" | grep -q "^VIOLATION property=$id"; then echo "$id $c REPORTED $(echo "$out" | grep -m1 'class=' | cut -c1-160)"; else echo "$id $c SILENT $(echo "$out" | grep -E '^(OK|MACH)' | head -1)"; fi
done < /tmp/unfix_list.txt
rm -rf /tmp/unfix /tmp/unfix_list.txt
