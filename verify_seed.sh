#!/bin/sh
# usage: verify_seed.sh <ID> [<seed dir>]   — confirms a seeded change in the scratch worktree /tmp/vseed:
# applies, builds with and without the feature, the 71 tests pass, the demonstration fails with the
# change and passes without it. Prints a summary; exit 0 if all of that holds.
# (create the scratch worktree first: git -C /repo worktree add --detach /tmp/vseed HEAD; remove it when done:
#  git -C /repo worktree remove --force /tmp/vseed)
id="$1"; src="${2:-/tmp/seed/$id/seed_out}"
cd /tmp/vseed || exit 2
git checkout -q -- . ; rm -f tests/seed_demo*.rs
git apply "$src/patch.diff" || { echo "PATCH DOES NOT APPLY"; exit 1; }
echo "--- build (feature off / on)"
CARGO_NET_OFFLINE=true cargo build --offline -q 2>&1 | grep -E "^error" -A5 | head; CARGO_NET_OFFLINE=true cargo build --offline -q --features verif 2>&1 | grep -E "^error" -A5 | head
echo "--- existing tests with the change"
CARGO_NET_OFFLINE=true cargo test --offline --tests 2>&1 | grep -E "^test result" | sort | uniq -c
for f in "$src"/seed_demo*.rs; do [ -f "$f" ] && cp "$f" tests/; done
echo "--- demo WITH the change (expected: failure)"
CARGO_NET_OFFLINE=true cargo test --offline --features verif --test seed_demo 2>&1 | grep -E "^test |^test result|panicked" | cut -c1-200 | head -12
git apply -R "$src/patch.diff"
echo "--- demo WITHOUT the change (expected: pass)"
CARGO_NET_OFFLINE=true cargo test --offline --features verif --test seed_demo 2>&1 | grep -E "^test |^test result|panicked" | cut -c1-200 | head -12
rm -f tests/seed_demo*.rs; git checkout -q -- .
